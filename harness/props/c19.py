"""C19 — `wiz gen-schema` output imports and loads its source JSON, or fails cleanly.

Theorems: coq/props/C19.v (model coq/model/SchemaGen.v, proofs coq/proofs/SchemaProofs.v).

run(): JSON documents from a grammar (depth <= 4; schema-instantiated "tame" documents,
heterogeneous documents, hostile keys) x the four flag combinations
(--force-strings x --experimental).  For every case the generator runs in-process in a
child interpreter, the generated source is exec'd in a fresh module, the JSONWizard root
class loads the source document (direct predicate).  The Coq model infers the same
document (naming functions and string classifiers answered by the real functions as a
finite oracle table): rendered class declarations are compared text-for-text in both
annotation styles, `accepts_root` and `schema_safe` are compared with what the
implementation does.  The CLI runs in a temp dir with a pre-existing output file
(invalid inputs: exit != 0, diagnostic, output intact; valid inputs: output = in-process
text), and generations are repeated in another order in one process (order independence).
Failing cases are classified against the open findings F14b..F14k by region predicates
computed from the document.
"""
import json, math
import os, re
from lib import coqrun
from lib.coqrun import coq_str, coq_list, coq_bool, coq_Z, coq_opt


def coq_eval_retry(ctx, exprs, imports, prelude, tag):
    """ctx.coq with a moderate number of parallel coqc processes (memory) and one retry: a shard
    killed from outside (OOM killer on a loaded machine) must not look like a broken proof tie."""
    d = os.path.join(ctx.workdir, tag)
    try:
        return coqrun.coq_eval(exprs, imports, d, prelude=prelude, jobs=8, timeout=900)
    except coqrun.CoqError as e:
        ctx.notes.append('model evaluation retried after: %s' % str(e)[:200])
        return coqrun.coq_eval(exprs, imports, d + '_retry', prelude=prelude, jobs=3, timeout=1200)

META = {
    'id': 'C19',
    'title': 'wiz gen-schema output imports and loads its source JSON, or fails cleanly',
    'level': 'proof',
    'technique': 'Coq proof (mutual structural induction over the inferred type lattice and the JSON document; monotonicity of a '
                 'robust-acceptance invariant under every merge the generator performs) on a hand-written Gallina model of '
                 'wizard_cli/schema.py + cli.py, + differential correspondence with the implementation (generated source exec\'d and fed its own source document)',
    'design_ref': 'DESIGN.md section 4 C19',
    'theorems': ['C19_append_idem', 'C19_append_mem', 'C19_append_perm', 'C19_or_keeps_optional', 'C19_or_accepts',
                 'C19_or_accepts_refuted', 'C19_loads', 'C19_loads_refuted_F14b', 'C19_loads_refuted_F14d',
                 'C19_loads_refuted_F14e', 'C19_loads_refuted_F14f', 'C19_wellformed', 'C19_names_resolve',
                 'C19_wellformed_refuted_F14c', 'C19_names_refuted_F14g', 'C19_deterministic',
                 'C19_cli_atomic', 'C19_cli_valid_writes', 'C19_tables', 'C19_infer_source_tie',
                 'C19_bool_values_model'],
    'tables': ['SchemaTables', 'SchemaInferAlg'],
    'level_text': ('Theorems proved in Coq for ALL JSON documents (any depth/width) and both flag settings about an executable model of the '
                   'generator: every document inside the decidable region schema_safe is loaded by the inferred root (C19_loads), every class '
                   'reference resolves to its own declaration and every name is a valid identifier (C19_names_resolve, C19_wellformed); outside '
                   'the region the faithful model REFUTES the property with the F14b/c/d/e/f/g documents; the CLI step machine selected by the '
                   'source-derived table (output opened on first write, fix F14a) satisfies the atomicity clause for every invalid input (C19_cli_atomic).  The model is re-validated against the implementation on every run and the theorem\'s instance '
                   '"schema_safe j => generated root loads j" is tested on the real generator for every generated document.'),
    'level_note': ('Trusted: Coq kernel + vm_compute; the hand-written model coq/model/SchemaGen.v; the acceptance relation accepts_ty is a '
                   'conservative model of the default loader (validated in the sound direction on every case); naming functions, '
                   'fromisoformat/isnumeric/float/int and identifier validity are oracle variables of the theorems (answered by the real functions in the correspondence run).'),
    'rule': ('documents: 40% schema-instantiated (identifier keys, sibling objects with equal key sets, per-key stable scalar kinds incl. date/time/'
             'datetime/number/bool-looking strings, nulls, empty containers), 35% heterogeneous (random values, mixed arrays, nested arrays), 25% hostile keys '
             '(keywords, digits-first, punctuation, unicode, case-variant duplicates, names the generated module uses, repeated names at different paths); '
             'depth <= 4; plus fixed families in every run: every scalar root (falsy and truthy; generation must raise), an exhaustive null-placement family '
             '(null in every subset of sibling positions of list -> object -> list -> object chains, leaf = object / list / list of objects / date / int), every plural, irregular '
             'and uncountable noun of the singularize tables as a list-of-objects key (twice per process); x {force_strings} x {experimental}.  Every generation is repeated in one '
             'process in reversed order and a sample (plural keys first) in its own fresh interpreter: the three texts must be identical.  CLI: invalid inputs (syntax errors, scalar roots, unreadable paths, generation-raising '
             'documents) and valid documents with a pre-existing output file.  distinct = distinct (document, flags); non-trivial = the document has '
             '>= 2 objects or an array of objects or a classified string.'),
    'trusted_base': ['model coq/model/SchemaGen.v (hand transcription of wizard_cli/schema.py and cli.py; validated by the correspondence run)',
                     'accepts_ty: conservative model of the default loader on inferred annotations (Union = exact-type match, first member; dataclass members untagged)'],
    'assumptions': ['JSON numbers: finite floats and ints (NaN/Infinity literals are outside JSON); object keys distinct (json.loads keeps the last)',
                    'the per-run generator state is reset by PyCodeGenerator/JSONRootParser construction; two generators constructed before either is rendered '
                    '(overlapping runs) share Globals and the import table - outside the property (sequences of complete generations), reported as an observation',
                    'force-strings: a Union without `str` whose members are int/float/bool is treated as unsafe (the model cannot tell number-looking strings from numbers)'],
}

# --- lead: algorithm-level source tie mentioned in the technique (kept separate so the builder's text stays intact)
META['technique'] = META['technique'] + ' + translation of the scalar type inference of wizard_cli/schema.py from the current source text into Gallina, proved equal to the hand-written model on every run (tie T for algorithms)'

FLAGS = [(False, False), (False, True), (True, False), (True, True)]   # (force_strings, experimental)

KEYS_TAME = ['a', 'b', 'id', 'name', 'items', 'values', 'my_key', 'user_id', 'item', 'status', 'children', 'boxes',
             'tags', 'info', 'x', 'y', 'count', 'address', 'createdAt', 'isActive', 'Price', 'results']
KEYS_CASE = ['myKey', 'MyKey', 'my_key', 'ID', 'Id', 'id', 'userId', 'user_id', 'UserID', 'my-key', 'My Key']
KEYS_KEYWORD = ['class', 'for', 'None', 'none', 'True', 'import', 'def', 'is', 'Class', 'not', 'FOR', 'false', 'match', 'type']
KEYS_DIGIT = ['1x', '2', '3d', '0', '_1', '9lives']
KEYS_PUNCT = ['a-b', 'a b', 'a.b', '$x', 'x!', "a'b", '', '_', '__a', '-', 'a/b', 'a:b', '#', ' ', 'a,b', 'a"b', '__init__', 'a\\b']
KEYS_UNI = ['é', 'ключ', '名前', 'ß', 'İ', 'naïve_key', 'Ünï', 'cafés']
KEYS_SPECIAL = ['data', 'container', 'list', 'any', 'field_1', 's', 'datas', 'Data1', 'data1', 'optional', 'union',
                'from_dict', 'to_dict', 'self', 'cls', 'json_wizard', 'JSONWizard', 'dataclass', 'date', 'int', 'str']

# plural / irregular / uncountable nouns: at least one key per rule of English.singularize (several rules twice),
# in snake, camel and Pascal spellings; rules with optional groups rewrite their template per call
KEYS_PLURAL = ['quizzes', 'matrices', 'vertices', 'indices', 'oxen', 'aliases', 'statuses', 'octopi', 'viri', 'crises', 'axes',
               'testes', 'shoes', 'potatoes', 'heroes', 'buses', 'mice', 'lice', 'boxes', 'churches', 'addresses', 'dishes',
               'movies', 'series', 'queries', 'companies', 'wolves', 'halves', 'natives', 'hives', 'wives', 'knives',
               'analyses', 'analysis', 'metaAnalyses', 'psychoanalyses', 'databases', 'diagnoses', 'parentheses',
               'prognoses', 'synopses', 'theses', 'hypotheses', 'data', 'media', 'bacteria', 'news', 'items', 'tags',
               'equipment', 'information', 'rice', 'money', 'species', 'fish', 'sheep', 'sms', 'people', 'men', 'children',
               'sexes', 'moves', 'userDatabases', 'test_theses', 'OpenDiagnoses', 'my_analyses', 'salesPeople']

STR_PLAIN = ['x', 'hello world', '', 'a:b', 'abc', 'N/A', '12:', 'foo:bar:baz', 'café', 'X']
STR_DATE = ['2020-01-01', '20200101', '2021-12-31', '2020-13-01', '2020-W01-1', '1999-02-28']
STR_TIME = ['12:30', '12:30:00', '10:00:00.123', '25:00', '1:2', '23:59:59']
STR_DT = ['2020-01-01T10:00:00', '2020-01-01 10:00:00Z', '2020-01-01T10:00:00+02:00', '2020-01-01T25:00:00', '2021-06-30T12:00:00Z']
STR_NUM = ['24', '1.5', '-1', '1e5', ' 1 ', '1_000', '²', '½', '١٢', 'nan', '0', '1', '007', '+3', '1.0', '.5', 'Infinity', '3']
STR_BOOL = ['true', 'T', 'no', 'OFF', 'y', 'False', 'On', 'yes', 'n', 'f', 'TRUE']
ALL_STRINGS = STR_PLAIN + STR_DATE + STR_TIME + STR_DT + STR_NUM + STR_BOOL
INTS = [0, 1, -5, 2 ** 40, 42, 7]
FLOATS = [1.5, -0.25, 2.0, 1000.0, 0.0, 3.25]
RESERVED = ['List', 'Optional', 'Union', 'Any', 'JSONWizard']


# ---------------------------------------------------------------- generators
def gen_scalar(r, kind=None):
    kind = kind or r.choice(['int', 'float', 'bool', 'null', 'plain', 'date', 'time', 'dt', 'num', 'boolstr', 'int', 'plain'])
    return {'int': lambda: r.choice(INTS), 'float': lambda: r.choice(FLOATS), 'bool': lambda: r.random() < 0.5,
            'null': lambda: None, 'plain': lambda: r.choice(STR_PLAIN), 'date': lambda: r.choice(STR_DATE),
            'time': lambda: r.choice(STR_TIME), 'dt': lambda: r.choice(STR_DT), 'num': lambda: r.choice(STR_NUM),
            'boolstr': lambda: r.choice(STR_BOOL)}[kind]()


def pick_keys(r, n, pool):
    out = []
    for _ in range(n * 4):
        k = r.choice(pool)
        if k not in out:
            out.append(k)
        if len(out) == n:
            break
    return out


# -- schema-instantiated documents: a schema is drawn first, every sibling follows it
def gen_schema(r, depth, pool, deep=False):
    """(kind, payload, nullable): every node - scalar, object, array of objects, array of scalars - may be
    null in some siblings"""
    t = r.random()
    nullable = r.random() < (0.35 if deep else 0.2)
    if depth <= 0 or t < (0.25 if deep else 0.5):
        return ('scalar', r.choice(['int', 'float', 'bool', 'plain', 'date', 'time', 'dt', 'num', 'boolstr', 'int', 'plain']), nullable)
    if t < (0.5 if deep else 0.7):
        return ('obj', [(k, gen_schema(r, depth - 1, pool, deep)) for k in pick_keys(r, r.choice([0, 1, 2, 3]), pool)], nullable)
    if t < 0.9:
        return ('arr_obj', [(k, gen_schema(r, depth - 1, pool, deep)) for k in pick_keys(r, r.choice([1, 2, 3]), pool)], nullable)
    if t < 0.95:
        return ('arr', gen_schema(r, 0, pool), nullable)
    # a list directly inside a list (anonymous Data<N> models / nested scalar lists)
    return ('arr_arr', gen_schema(r, min(depth - 1, 1), pool, deep) if r.random() < 0.6 else
            ('arr_obj', [(k, gen_schema(r, 0, pool)) for k in pick_keys(r, r.choice([1, 2]), pool)], False), nullable)


def inst_schema(r, s, top=False):
    if s[2] and not top and r.random() < 0.3:
        return None
    if s[0] == 'scalar':
        return gen_scalar(r, s[1])
    if s[0] == 'obj':
        return {k: inst_schema(r, sub) for k, sub in s[1]}
    if s[0] == 'arr_obj':
        return [{k: inst_schema(r, sub) for k, sub in s[1]} for _ in range(r.choice([0, 1, 2, 2, 3]))]
    if s[0] == 'arr_arr':
        return [inst_schema(r, s[1], top=True) if s[1][0] in ('arr_obj', 'arr') else [inst_schema(r, s[1])]
                for _ in range(r.choice([1, 1, 1, 2]))]
    return [inst_schema(r, s[1]) for _ in range(r.choice([0, 1, 2, 3]))]


def nested_list_docs():
    """anonymous models: objects inside a list inside a list, under one, two or three sibling keys, at one or two
    extra list levels, with different key sets per key; each gets its own Data<N> class"""
    inner = [{'x': 1}, {'y': 's'}, {'z': None, 'w': 1.5}]
    docs = []
    for n in (1, 2, 3):
        ks = ['a', 'b', 'items'][:n]
        docs.append({k: [[inner[i]]] for i, k in enumerate(ks)})
        docs.append({k: [[[inner[i]]]] for i, k in enumerate(ks)})
        docs.append({k: [[inner[i], dict(inner[i])]] for i, k in enumerate(ks)})
        docs.append({'p': {k: [[inner[i]]] for i, k in enumerate(ks)}, 'q': [[{'v': 1}]]})
        docs.append([{k: [[inner[i]]] for i, k in enumerate(ks)}])
        docs.append({k: ([[inner[i]]] if i else [{'u': 1}]) for i, k in enumerate(ks)})
        docs.append({k: [1, [inner[i]]] for i, k in enumerate(ks)})
    docs.append([[{'x': 1}], 5])
    docs.append({'a': [[1, 2], [3]], 'b': [[{'y': 1}]], 'c': [['s']]})
    return docs


def gen_tame(r):
    u = r.random()
    pool = KEYS_TAME if u < 0.55 else KEYS_TAME[:8] + KEYS_PLURAL if u < 0.85 else KEYS_TAME + KEYS_UNI[:3] + ['_1', 'a b', 'match']
    deep = r.random() < 0.45          # chains list -> object -> list -> object with nullable nodes
    depth = 3 if deep else r.choice([1, 2, 2, 3])
    fields = [(k, gen_schema(r, depth, pool, deep)) for k in pick_keys(r, r.choice([1, 2] if deep else [1, 2, 3, 4]), pool)]
    if r.random() < 0.3:
        return [{k: inst_schema(r, s) for k, s in fields} for _ in range(r.choice([0, 1, 2, 3]))]
    return {k: inst_schema(r, s) for k, s in fields}


def null_placement_docs():
    """Exhaustive small family: root -> groups[2] -> items[2] -> detail, the leaf `detail` being an object, a list of
    ints, a list of objects, a date string or an int, with null in every subset of the four sibling positions; the same
    with `items` (the inner list) or a whole group element replaced by null in every subset of positions; and the
    one-level versions.  Null must make the field Optional wherever among the merged siblings it occurs."""
    leaves = [lambda i: {'x': i}, lambda i: [i], lambda i: [{'y': i}], lambda i: '2020-01-01', lambda i: i]
    docs = []
    for leaf in leaves:
        for mask in range(16):
            cells = [None if mask >> i & 1 else leaf(i + 1) for i in range(4)]
            docs.append({'groups': [{'items': [{'detail': cells[0]}, {'detail': cells[1]}]},
                                    {'items': [{'detail': cells[2]}, {'detail': cells[3]}]}]})
            # three-sibling variant of the seeded shape: one element in the first inner list, two in the second
            if mask < 8:
                docs.append({'groups': [{'items': [{'detail': cells[0]}]},
                                        {'items': [{'detail': cells[1]}, {'detail': cells[2]}]}]})
        for mask in range(4):
            cells = [None if mask >> i & 1 else leaf(i + 1) for i in range(2)]
            docs.append({'items': [{'detail': cells[0]}, {'detail': cells[1]}]})
            docs.append([{'detail': cells[0]}, {'detail': cells[1]}])
    for mask in range(1, 4):       # the inner list itself / a whole object null in some siblings
        docs.append({'groups': [{'items': None if mask & 1 else [{'detail': {'x': 1}}]},
                                {'items': None if mask & 2 else [{'detail': {'x': 2}}, {'detail': None}]}]})
        docs.append({'groups': [{'a': {'items': None if mask & 1 else [{'d': 1}]}},
                                {'a': {'items': None if mask & 2 else [{'d': None}]}}]})
        docs.append({'groups': [{'a': None if mask & 1 else {'items': [{'d': 1}]}},
                                {'a': None if mask & 2 else {'items': [{'d': None}, {'d': 2}]}}]})
    out, seen = [], set()
    for d in docs:
        k = json.dumps(d)
        if k not in seen:
            seen.add(k)
            out.append(d)
    return out


# scalar roots: generation must raise for every one of them (falsy ones included)
SCALAR_ROOTS = [None, False, True, 0, -0.0, 0.0, '', 42, 1.5, 'abc', '2020-01-01', -1]


# -- heterogeneous documents
def gen_value(r, depth, pool):
    t = r.random()
    if depth <= 0 or t < 0.45:
        return gen_scalar(r)
    if t < 0.72:
        return {k: gen_value(r, depth - 1, pool) for k in pick_keys(r, r.choice([0, 1, 1, 2, 3]), pool)}
    n = r.choice([0, 1, 2, 2, 3, 4])
    if r.random() < 0.5:     # array of objects over a small key pool: differing key sets are likely
        sub = pick_keys(r, 3, pool)
        return [({k: gen_value(r, depth - 1, pool) for k in pick_keys(r, r.choice([1, 2, 2, 3]), sub)}
                 if r.random() < 0.8 else gen_value(r, depth - 1, pool)) for _ in range(n)]
    return [gen_value(r, depth - 1, pool) for _ in range(n)]


def gen_hetero(r, pool=None):
    pool = pool or (KEYS_TAME + KEYS_CASE[:4])
    depth = r.choice([2, 3, 3, 4]) - 1
    if r.random() < 0.35:
        return [gen_value(r, depth, pool) for _ in range(r.choice([0, 1, 2, 3, 4]))]
    return {k: gen_value(r, depth, pool) for k in pick_keys(r, r.choice([0, 1, 2, 3, 4]), pool)}


def gen_hostile(r):
    pools = [KEYS_CASE, KEYS_KEYWORD, KEYS_DIGIT, KEYS_PUNCT, KEYS_UNI, KEYS_SPECIAL]
    pool = list(r.choice(pools)) + pick_keys(r, 3, KEYS_TAME)
    if r.random() < 0.3:
        pool = pool + list(r.choice(pools))
    if r.random() < 0.5:
        return gen_tame_with_pool(r, pool)
    return gen_hetero(r, pool)


def gen_tame_with_pool(r, pool):
    fields = [(k, gen_schema(r, r.choice([1, 2]), pool)) for k in pick_keys(r, r.choice([1, 2, 3]), pool)]
    if r.random() < 0.3:
        return [{k: inst_schema(r, s) for k, s in fields} for _ in range(r.choice([1, 2]))]
    return {k: inst_schema(r, s) for k, s in fields}


FIXED_DOCS = [
    {}, [], [1, 2], {'a': None}, {'a': []}, {'a': {}}, {'a': [None]}, {'a': [[]]}, {'a': [{}]}, [[{'a': 1}]], [{}, {}],
    {'a': 1, 'myKey': 'x', 'items': [{'d': '2020-01-01', 't': '12:30:00', 'n': None}, {'d': '2020-01-02', 't': 'x', 'n': 1.5}],
     'o': {'k': [1, '2', True, [3]]}},
    [{'a': 1}, 5, [{'b': 2}]], {'a': [[1, 2], [3, 4]]}, {'d': [[1], ['x']]}, {'a': {'a': {'a': 1}}},
    {'items': [{'x': 1}], 'item': {'y': 2}}, {'p': {'a': [[{'x': 1}]]}, 'q': {'a': [[{'y': 1}]]}},
    [{'a': [1]}, {'a': 5}, {'a': [True]}], [{'a': {'k': 1}}, {'a': 5}, {'a': {'k': 's'}}],
    {'list': {'a': 1}, 'z': {'x': [1]}}, {'any': {'x': None}, 'n': None}, {'data': {'a': 1}}, {'s': [{'x': 1}]},
    [{'a': ['2020-01-01']}, {'a': [None]}], {'a': {'k': 1}, 'A': {'k': 's'}}, {'myKey': 1, 'my_key': 'x'},
    {'a': [1.0, 1, True]}, [{'a': [1.0]}, {'a': 3}, {'a': [1]}],
]


def depth_of(v):
    if isinstance(v, dict):
        return 1 + max([depth_of(x) for x in v.values()] or [0])
    if isinstance(v, list):
        return 1 + max([depth_of(x) for x in v] or [0])
    return 0


def gen_docs(ctx):
    r = ctx.sub_rng('docs')
    n = 300 if ctx.tier == 'quick' else 3200
    docs = [(d, 'fixed') for d in FIXED_DOCS]
    docs += [(d, 'scalar_root') for d in SCALAR_ROOTS]
    docs += [(d, 'null_placement') for d in null_placement_docs()]
    docs += [(d, 'nested_lists') for d in nested_list_docs()]
    # every plural key as a list-of-objects key, twice per process in different surroundings
    for i, k in enumerate(KEYS_PLURAL):
        docs.append(({k: [{'id': 1, 'title': 't'}, {'id': 2, 'title': 'u'}]}, 'plural'))
        docs.append(({'a': i, KEYS_PLURAL[-1 - i]: [{'x': None}, {'x': '2020-01-01'}]}, 'plural'))
    n += len(docs)
    while len(docs) < n:
        t = r.random()
        if t < 0.40:
            d, kind = gen_tame(r), 'tame'
        elif t < 0.75:
            d, kind = gen_hetero(r), 'hetero'
        else:
            d, kind = gen_hostile(r), 'hostile'
        if depth_of(d) > 4 or len(json.dumps(d)) > 900:
            continue
        docs.append((d, kind))
    return docs


# ---------------------------------------------------------------- walking documents
def walk(v):
    yield v
    if isinstance(v, dict):
        for x in v.values():
            yield from walk(x)
    elif isinstance(v, list):
        for x in v:
            yield from walk(x)


def all_keys(doc):
    return [k for v in walk(doc) if isinstance(v, dict) for k in v]


def all_strings(doc):
    return [v for v in walk(doc) if isinstance(v, str)]


def nontrivial_doc(doc):
    objs = sum(1 for v in walk(doc) if isinstance(v, dict))
    arr_obj = any(isinstance(v, list) and any(isinstance(e, dict) for e in v) for v in walk(doc))
    return objs >= 2 or arr_obj or any(s in STR_DATE + STR_TIME + STR_DT + STR_NUM + STR_BOOL for s in all_strings(doc))


# ---------------------------------------------------------------- region predicates (from the document)
class Oracle:
    def __init__(self, d):
        self.names, self.strings, self.idents = d['names'], d['strings'], d['idents']
        self.bool_values = d['bool_values']
        self.root_attrs = d['root_attrs']

    def snake(self, k):
        return self.names[k]['snake']

    def kinds(self, s, fs):
        """possible_types_for_string_value, transcribed from its docstring/comments, on the oracle answers."""
        o = self.strings[s]
        if o['date']:
            return ['date']
        if ':' not in s:
            pt = ['int'] if o['isnumeric'] else ['float'] if o['is_float'] else ['bool'] if o['can_be_bool'] else []
            if pt and fs:
                return pt
            return pt + ['str']
        if o['time']:
            return ['time']
        if o['datetime']:
            return ['datetime']
        return ['str']


def regions_of(doc, fs, O):
    """Set of finding ids whose (narrow) input-shape region contains this document."""
    reg = set()

    def scalar_members(v):
        if isinstance(v, bool):
            return ['bool']
        if isinstance(v, int):
            return ['int']
        if isinstance(v, float):
            return ['float']
        return O.kinds(v, fs)

    def group(values, elem_group):
        """values that land in one TypeContainer (elements of one array / values of one field of merged siblings)"""
        nonnull = [v for v in values if v is not None]
        dicts = [v for v in nonnull if isinstance(v, dict)]
        lists = [v for v in nonnull if isinstance(v, list)]
        scal = [v for v in nonnull if not isinstance(v, (dict, list))]
        members = set()
        for v in scal:
            members.update(scalar_members(v))
        prim_members = set(members)
        if dicts:
            members.add('class')
        if lists:
            members.add('list')
        if dicts and (lists or scal):
            reg.add('F14d')                       # a dataclass next to another member of a Union
        if len(members) >= 2 and 'str' not in members and any(isinstance(v, str) for v in scal):
            reg.add('F14e')                       # a string value that only a non-str Union member stands for
        if len(lists) >= 2 and (elem_group or dicts or scal):
            reg.add('F14f')                       # two List members in one Union
        if len({frozenset(O.snake(k) for k in d) for d in dicts}) > 1:
            reg.add('F14b')                       # merged sibling objects with different key sets
        if not elem_group and len(lists) >= 2 and any(None in l for l in lists[1:]) and None not in lists[0]:
            reg.add('F14i')                       # merged sibling lists: null element only in a later list
        # recursion: merged siblings field by field (colliding keys of one object share a field)
        if dicts:
            fields = {}
            for d in dicts:
                seen = {}
                for k, v in d.items():
                    f = O.snake(k)
                    if f in seen:
                        reg.add('F14j')           # two keys of one object snake-case to one field
                    seen[f] = 1
                    fields.setdefault(f, []).append(v)
            for f, vs in fields.items():
                group(vs, False)
        if lists:
            if elem_group or dicts or scal:
                for l in lists:
                    group(l, True)
            else:
                group([e for l in lists for e in l], True)

    if not isinstance(doc, (dict, list)):
        return reg
    if isinstance(doc, dict):
        group([doc], False)
    else:
        group(doc, True)
    # F14c: a field or class name that is not a valid non-keyword identifier (or to_pascal_case raises)
    for v in walk(doc):
        if isinstance(v, dict):
            for k, x in v.items():
                if not O.idents.get(O.snake(k), False):
                    reg.add('F14c')
                if isinstance(x, dict):
                    p = O.names[k]['pascal']
                    if p is None or not O.idents.get(p, False):
                        reg.add('F14c')
                if isinstance(x, list) and any(isinstance(e, dict) for e in x):
                    sg = O.names[k]['sing'] if k else k
                    p = O.names.get(sg, {}).get('pascal') if sg else 'Data'
                    if sg and (p is None or not O.idents.get(p, False)):
                        reg.add('F14c')
    # F14k: a key of a root-class object named like an attribute of JSONWizard
    roots = [doc] if isinstance(doc, dict) else [e for e in doc if isinstance(e, dict)]
    if any(O.snake(k) in O.root_attrs for o in roots for k in o):
        reg.add('F14k')
    if fs and any(O.strings[s]['isnumeric'] and not O.strings[s]['int_ok'] for s in all_strings(doc)):
        reg.add('F14h')
    return reg


def name_collision(decls):
    names = [d[0] for d in decls]
    return len(set(names)) != len(names) or any(n in RESERVED for n in names)


# which failure stage each finding can explain
EXPLAINS = {'scalar': set(), 'gen': {'F14c'}, 'fields': {'F14c', 'F14g'}, 'exec': {'F14c', 'F14g', 'F14k'},
            'load': {'F14b', 'F14d', 'F14e', 'F14f', 'F14g', 'F14h', 'F14i', 'F14j', 'F14k'}}


def direct_predicate(res):
    """None if the property holds for this case, else (stage, description)."""
    if res['gen'] != 'ok':
        return 'gen', 'generation raised %s: %s' % (res['gen']['err'], res['gen']['msg'])
    if res['exec'] != 'ok':
        return 'exec', 'generated source does not import: %s: %s' % (res['exec']['err'], res['exec']['msg'])
    if res['load'] != 'ok':
        return 'load', 'root class cannot load its source document: %s: %s' % (res['load']['err'], res['load']['msg'])
    if res.get('conform') is not True:
        return 'load', 'loaded values are not of the inferred types: %r' % (res.get('conform'),)
    if res.get('fields') is not True:
        return 'fields', 'an object key has no field in the generated class: %r' % (res.get('fields'),)
    return None


def case_predicate(doc, res):
    """The property for one (document, flags): a scalar root is not a document - generation must raise
    (the CLI then exits non-zero); an object/array root must generate, import and load."""
    if not isinstance(doc, (dict, list)):
        if res['gen'] == 'ok':
            return 'scalar', 'scalar root %s accepted: generation returned source instead of raising' % json.dumps(doc)
        return None
    return direct_predicate(res)


# ---------------------------------------------------------------- Coq encoders
def coq_json(v):
    if v is None:
        return 'JNull'
    if v is True:
        return '(JBool true)'
    if v is False:
        return '(JBool false)'
    if isinstance(v, int):
        return '(JInt %s)' % coq_Z(v)
    if isinstance(v, float):
        iv = coq_opt(coq_Z(int(v))) if v.is_integer() else 'None'
        return '(JFloat %s %s)' % (iv, coq_str(repr(v)))
    if isinstance(v, str):
        return '(JStr %s)' % coq_str(v)
    if isinstance(v, list):
        return '(jarr [%s])' % '; '.join(coq_json(x) for x in v)
    return '(jobj [%s])' % '; '.join('(%s, %s)' % (coq_str(k), coq_json(x)) for k, x in v.items())


def make_prelude(O):
    names = []
    for k, d in O.names.items():
        names.append('(%s, (%s, %s, %s))' % (coq_str(k), coq_str(d['snake']),
                                              coq_str(d['pascal'] if d['pascal'] is not None else '?raises'), coq_str(d['sing'])))
    strs = []
    for s, d in O.strings.items():
        bits = sum(1 << i for i, f in enumerate(['date', 'time', 'datetime', 'isnumeric', 'is_float', 'int_ok']) if d[f])
        strs.append('(%s, %d%%N)' % (coq_str(s), bits))
    ids = ['(%s, %s)' % (coq_str(s), coq_bool(b)) for s, b in O.idents.items()]
    return '''
Fixpoint assoc {A : Type} (k : pstr) (l : list (pstr * A)) : option A :=
  match l with [] => None | (k', v) :: r => if pstr_eqb k k' then Some v else assoc k r end.
Definition names_tbl : list (pstr * (pstr * pstr * pstr)) := [%s].
Definition str_tbl : list (pstr * N) := [%s].
Definition id_tbl : list (pstr * bool) := [%s].
Definition missing : pstr := S "?missing".
Definition snake_f (s : pstr) := match assoc s names_tbl with Some (a, _, _) => a | None => missing end.
Definition pascal_f (s : pstr) := match assoc s names_tbl with Some (_, b, _) => b | None => missing end.
Definition sing_f (s : pstr) := match assoc s names_tbl with Some (_, _, c) => c | None => missing end.
Definition sbit (i : N) (s : pstr) := match assoc s str_tbl with Some b => N.testbit b i | None => false end.
Definition ident_f (s : pstr) := match assoc s id_tbl with Some b => b | None => false end.
Definition bool_vals : list pstr := %s.
Definition reserved_names : list pstr := %s.
Definition root_reserved_names : list pstr := %s.
Definition b2s (b : bool) : pstr := if b then S "1" else S "0".
Definition show_decl (d : cdecl) : pstr :=
  hex (fst (fst d)) ++ (if snd (fst d) then S "R" else S "C") ++ S "(" ++
  join (S ",") (map (fun ka => hex (fst ka) ++ S ":" ++ hex (snd ka)) (snd d)) ++ S ")".
Definition show_decls (o : option (list cdecl)) : pstr :=
  match o with None => S "BAD" | Some ds => join (S ";") (map show_decl ds) end.
Definition infer_f (fs : bool) (j : json) :=
  infer_root snake_f pascal_f sing_f (sbit 0) (sbit 1) (sbit 2) (sbit 3) (sbit 4) bool_vals fs j.
Definition run_case (fs : bool) (j : json) : pstr :=
  let r := infer_f fs j in
  join (S "|") [show_decls (decls_root false r); show_decls (decls_root true r);
                b2s (accepts_root snake_f (sbit 0) (sbit 1) (sbit 2) (sbit 4) bool_vals (sbit 5) r j);
                b2s (schema_safe snake_f pascal_f sing_f (sbit 0) (sbit 1) (sbit 2) (sbit 3) (sbit 4) bool_vals fs (sbit 5) ident_f reserved_names root_reserved_names j);
                b2s (struct_safe snake_f pascal_f sing_f (sbit 0) (sbit 1) (sbit 2) (sbit 3) (sbit 4) bool_vals fs (sbit 5) j)].
Definition show_cli (i : cli_input) (before : option pstr) : pstr :=
  let st := cli_run cli_output_opened_at_parse i before in
  (match exit_code st with Some n => hex (dec_of_N n) | None => S "none" end) ++ S "|" ++
  (match out_file st with Some c => S "S" ++ hex c | None => S "N" end).
''' % ('; '.join(names), '; '.join(strs), '; '.join(ids), coq_list([coq_str(x) for x in O.bool_values]),
       coq_list([coq_str(x) for x in RESERVED]), coq_list([coq_str(x) for x in O.root_attrs]))


def hexs(s):
    return s.encode('utf-8', 'surrogateescape').hex()


def impl_show_decls(decls):
    return ';'.join('%s%s(%s)' % (hexs(n), 'R' if root else 'C', ','.join('%s:%s' % (hexs(k), hexs(a)) for k, a in fs))
                    for n, root, fs in decls)


# ---------------------------------------------------------------- known findings
def replay_witness(ctx, w):
    """Replay one witness; True iff the property holds on it."""
    if w.get('kind') == 'cli':
        res = ctx.impl('c19_cli', {'cases': [w['case']]})['cases'][0]
        bad = cli_predicate(w['case'], res)
        print('CLI case %r -> rc=%s out_intact=%s: %s' % (w['case'].get('input_kind'), res.get('rc'), res.get('out_intact'), bad or 'as required'))
        return bad is None
    res = ctx.impl('c19', {'cases': [{'doc': w['doc'], 'fs': w.get('fs', False), 'ex': w.get('ex', False), 'want_code': True}]})['cases'][0]
    bad = case_predicate(w['doc'], res)
    print('document %s flags fs=%s ex=%s: %s' % (json.dumps(w['doc']), w.get('fs', False), w.get('ex', False),
                                                 bad[1] if bad else ('generated root loads the document' if isinstance(w['doc'], (dict, list))
                                                                     else 'scalar root rejected (generation raises)')))
    return bad is None


def cli_predicate(case, res):
    """Direct predicate of the CLI clause. None if it holds."""
    valid = case['valid'] if case['valid'] is not None else res.get('ref') == 'doc'
    if valid:
        if res['rc'] != 0:
            return 'valid document: exit code %r' % res['rc']
        if not res.get('out_equals_inprocess'):
            return 'valid document: output file differs from the in-process generator text'
        return None
    if res['rc'] == 0:
        return 'invalid input accepted (exit 0)'
    if not res.get('diagnostic'):
        return 'invalid input: no diagnostic on stderr'
    if not res.get('out_intact'):
        return 'invalid input: pre-existing output file was modified (now %r...)' % (res.get('out_after', '')[:40],)
    return None


# ---------------------------------------------------------------- CLI cases
def input_zoo():
    """(label, bytes) - every class of malformed input around a well-formed document, plus look-alikes that strict
    JSON accepts.  What is invalid is decided by an independent reference (stdlib strict json.loads + root clause)
    evaluated on the text the command reads, never by this list."""
    Z = []

    def add(label, t):
        Z.append((label, t if isinstance(t, bytes) else t.encode('utf-8')))
    for name, ch in [('tab', '\t'), ('lf', '\n'), ('cr', '\r'), ('x01', '\x01'), ('x1f', '\x1f'), ('nul', '\x00'), ('del', '\x7f'), ('ff', '\x0c')]:
        add('ctrl-%s-in-value' % name, '{"a": "x%sy"}' % ch)
        add('ctrl-%s-in-key' % name, '{"a%sb": 1}' % ch)
        add('ctrl-%s-deep' % name, '[{"a": [{"b": "p%sq"}]}]' % ch)
    add('ctrl-between-tokens', '{\t"a":\n1\r}')                      # whitespace outside strings: fine
    for label, t in [
            ('trailing-comma-obj', '{"a": 1,}'), ('trailing-comma-arr', '[1, 2,]'), ('leading-comma', '[,1]'), ('double-comma', '[1,,2]'),
            ('single-quotes', "{'a': 1}"), ('single-quoted-value', '{"a": \'x\'}'), ('unquoted-key', '{a: 1}'), ('missing-colon', '{"a" 1}'),
            ('missing-comma', '[1 2]'), ('nan', '{"a": NaN}'), ('infinity', '[Infinity, -Infinity]'), ('line-comment', '{"a": 1} // c'),
            ('block-comment', '{/* c */ "a": 1}'), ('hash-comment', '# c\n{"a": 1}'), ('two-values', '{} {}'), ('two-arrays', '[1][2]'),
            ('trailing-garbage', '{"a": 1} x'), ('truncated-obj', '{"a": '), ('truncated-arr', '[1, '), ('truncated-string', '{"a": "x'),
            ('extra-close', '{"a": 1}}'), ('empty', ''), ('whitespace-only', '  \n '), ('leading-zero', '[01]'), ('hex-number', '[0x10]'),
            ('plus-number', '[+1]'), ('dot-number', '[.5]'), ('trailing-dot', '[1.]'), ('bad-escape', '{"a": "\\x41"}'),
            ('short-unicode-escape', '{"a": "\\u12"}'), ('lone-surrogate-escape', '{"a": "\\ud800"}'), ('escaped-ctrl', '{"a": "x\\ty\\n"}'),
            ('python-literals', '{"a": True, "b": None}'), ('bare-word', 'nope'), ('unescaped-quote', '{"a": "x"y"}'),
            ('duplicate-keys', '{"a": 1, "a": "x"}'), ('nbsp-whitespace', '{"a":\u00a01}'), ('ok-unicode', '{"k\u00e9": "\u540d"}'),
            ('only-open', '{'), ('only-close', ']'), ('colon-array', '[1: 2]'), ('nested-unclosed', '{"a": [1, {"b": 2}'),
            ('huge-exponent', '[1e999]'), ('minus-only', '[-]'), ('key-not-string', '{1: 2}')]:
        add(label, t)
    add('utf8-bom', b'\xef\xbb\xbf{"a": 1}')
    add('utf16-le-bom', '{"a": 1}'.encode('utf-16'))
    add('utf16-be', '{"a": 1}'.encode('utf-16-be'))
    add('utf32', '{"a": 1}'.encode('utf-32'))
    add('latin1-high-bytes', b'{"a": "caf\xe9"}')
    add('invalid-utf8-in-key', b'{"a\xff": 1}')
    add('overlong-utf8', b'{"a": "\xc0\xaf"}')
    return Z


def cli_cases(ctx, docs):
    r = ctx.sub_rng('cli')
    cases = []
    bad_syntax = ['{', '{"a":}', '', 'nope', '[1,', '{"a":1}}', "{'a': 1}", '{"a" 1}', '[1 2]', '\x00']
    scalars = ['null', 'false', '0', '0.0', '-0', '""', 'true', '5', '1.5', '"x"', '"2020-01-01"', ' null ']
    k = 3 if ctx.tier == 'quick' else 10
    for t in r.sample(bad_syntax, min(k + 1, len(bad_syntax))):
        cases.append({'input_kind': 'syntax', 'text': t, 'valid': False})
    for t in scalars:            # every falsy and truthy scalar root, every run
        cases.append({'input_kind': 'scalar', 'text': t, 'valid': False})
    for kind in ['missing', 'directory']:
        cases.append({'input_kind': kind, 'text': None, 'valid': False})
    cases.append({'input_kind': 'genraises', 'text': '{"": {}}', 'valid': False})
    good = [d for d, kind in docs if kind in ('tame', 'fixed') and isinstance(d, (dict, list))]
    for d in r.sample(good, min(k + 1, len(good))):
        cases.append({'input_kind': 'doc', 'text': json.dumps(d), 'valid': True})
    for label, b in input_zoo():     # validity decided by the reference classification the runner reports
        cases.append({'input_kind': 'zoo:' + label, 'text': None, 'bytes_hex': b.hex(), 'valid': None})
    for c in cases:
        c['fs'], c['ex'] = r.random() < 0.5, r.random() < 0.5
        c['existing'] = r.choice(['# precious\nX = 1\n', 'old content', 'é\n' * 3, ''])
        c['out_exists'] = r.random() < 0.85 or not c['valid']      # invalid / undecided: always an existing output
    return cases


CLI_MODEL_INPUT = {'syntax': 'InSyntaxError', 'scalar': 'InScalarRoot', 'missing': 'InUnreadable',
                   'directory': 'InUnreadable', 'genraises': 'InGenFails'}


# ---------------------------------------------------------------- run
def run(ctx):
    docs = gen_docs(ctx)
    # ---- oracle answers (real naming functions / classifiers) for the model and the region predicates
    keys = sorted({k for d, _ in docs for k in all_keys(d)})
    maxlvl = 12
    base_names = ['data', 'container'] + ['data%d' % i for i in range(1, maxlvl + 1)] + ['field_%d' % i for i in range(1, 40)]
    strings = sorted({s for d, _ in docs for s in all_strings(d)} | set(ALL_STRINGS))
    O = Oracle(ctx.impl('c19', {'oracle': {'names': keys + base_names, 'strings': strings}})['oracle'])

    # ---- implementation: every (document, flags)
    cases = []
    for i, (d, kind) in enumerate(docs):
        for fs, ex in FLAGS:
            cases.append({'doc': d, 'fs': fs, 'ex': ex, 'i': i})
    B = 400
    results = []
    for k in range(0, len(cases), B):
        results.extend(ctx.impl('c19', {'cases': cases[k:k + B]})['cases'])
    # second pass, ONE process, reversed order (for every pair of cases exactly one of the two passes runs A
    # before B): only text hashes (order independence / determinism)
    order = list(reversed(range(len(cases))))
    regen = ctx.impl('c19', {'regen': [cases[j] for j in order]})['regen']
    regen_by_case = {j: h for j, h in zip(order, regen)}
    # third pass: a sample of cases each in its OWN interpreter (no history at all); cases whose keys go through
    # the singularisation tables first, then a random sample
    r3 = ctx.sub_rng('fresh')
    plural_ix = [j for j, c in enumerate(cases) if docs[c['i']][1] == 'plural' and not c['fs'] and not c['ex']]
    r3.shuffle(plural_ix)
    k3 = 45 if ctx.tier == 'quick' else 200
    fresh_ix = plural_ix[:k3 * 2 // 3]
    fresh_ix += r3.sample(range(len(cases)), k3 - len(fresh_ix))
    fresh = ctx.impl('c19', {'fresh': [cases[j] for j in fresh_ix]})['fresh']
    fresh_by_case = {j: h for j, h in zip(fresh_ix, fresh)}

    # ---- model
    model = None
    exprs = []
    for i, (d, kind) in enumerate(docs):
        for fs in (False, True):
            exprs.append('run_case %s %s' % (coq_bool(fs), coq_json(d)))
    try:
        model = coq_eval_retry(ctx, exprs, ['SchemaGen', 'T_SchemaTables'], make_prelude(O), 'cases')
    except Exception as e:
        ctx.broken_tie('model evaluation failed: %s' % str(e)[:600])

    # ---- known-finding witnesses
    for f in ctx.findings('open'):
        w = f.get('witness') or {}
        if w.get('kind') == 'cli':
            continue   # replayed with the CLI cases below
        res = ctx.impl('c19', {'cases': [{'doc': w['doc'], 'fs': w.get('fs', False), 'ex': w.get('ex', False)}]})['cases'][0]
        ctx.count(1, key='witness:' + f['id'])
        ctx.known_finding(f['id'], still_fails=direct_predicate(res) is not None)

    # ---- per case: direct predicate, classification, correspondence
    n_dis = 0
    n_order = [0]
    candidates = []      # (what, replay_obj): confirmed in a fresh interpreter before they are reported

    def candidate(what, obj):
        candidates.append((what, obj))
    for ci, (c, res) in enumerate(zip(cases, results)):
        d, kind = docs[c['i']]
        fs, ex = c['fs'], c['ex']
        ctx.count(1, key='%d|%d%d|%s' % (c['i'], fs, ex, json.dumps(d, sort_keys=True)), nontrivial=nontrivial_doc(d))
        ctx.hist('doc_kind', kind)
        ctx.hist('root', type(d).__name__)
        bad = case_predicate(d, res)
        is_doc = isinstance(d, (dict, list))
        ctx.hist('outcome', ('loads' if is_doc else 'scalar_root_rejected') if bad is None else 'fails_at_' + bad[0])
        replay_obj = {'kind': 'doc', 'doc': d, 'fs': fs, 'ex': ex}
        # determinism / order independence
        h2 = regen_by_case[ci]
        h1 = res.get('sha', 'err:' + res['gen']['err'] if res['gen'] != 'ok' else None)
        def slim(cs):
            return [{'doc': x['doc'], 'fs': x['fs'], 'ex': x['ex']} for x in cs]
        h3 = fresh_by_case.get(ci)
        if h1 != h2 and h3 is None and n_order[0] < 8:
            n_order[0] += 1
            h3 = ctx.impl('c19', {'fresh': [c]})['fresh'][0]
        if h3 is not None:
            ctx.hist('fresh_interpreter_pass', 'same' if h3 == h1 == h2 else 'differs')
        if h3 is not None and (h3 != h1 or h3 != h2):
            # a history after which the text differs from the text of a fresh interpreter
            if h3 != h1:
                hist, hh = slim(cases[ci - ci % B:ci]), h1                  # its batch of the first pass
            else:
                pos = order.index(ci)
                hist, hh = slim([cases[j] for j in order[max(0, pos - 800):pos]]), h2   # the reversed single-process pass
            ctx.violation('generation depends on earlier runs in the same process: text hash %s after %d earlier generations, '
                          '%s in a fresh interpreter, for %s (fs=%s ex=%s)' % (hh, len(hist), h3, json.dumps(d)[:200], fs, ex),
                          dict(replay_obj, kind='history', history=hist))
        elif h1 != h2:
            ctx.violation('generation is not deterministic / depends on earlier runs: text hash %s vs %s for %s (fs=%s ex=%s)'
                          % (h1, h2, json.dumps(d)[:200], fs, ex), dict(replay_obj, kind='order'))
        regs = regions_of(d, fs, O)
        # F14g (class-name collision) is decided on the names the MODEL derives from the document, so that a change
        # which makes the generator produce new collisions is not explained away by its own output
        if model is not None:
            mnames = [bytes.fromhex(x).decode('utf-8', 'replace')
                      for x in re.findall(r'(?:^|;)([0-9a-f]*)[RC]\(', model[c['i'] * 2 + (1 if fs else 0)].split('|')[0])]
            if len(set(mnames)) != len(mnames) or any(n in RESERVED for n in mnames):
                regs.add('F14g')
        elif res['gen'] == 'ok' and name_collision(res['decls']):
            regs.add('F14g')
        if bad is not None:
            explained = [f for f in sorted(regs & EXPLAINS[bad[0]]) if ctx.is_open_region(f)]
            if explained:
                for f in explained[:1]:
                    ctx.hist('known_region', f)
            else:
                candidate('%s; document %s (force_strings=%s experimental=%s), regions=%s'
                          % (bad[1], json.dumps(d)[:300], fs, ex, sorted(regs)), replay_obj)
        # correspondence with the model
        if model is not None:
            m = model[c['i'] * 2 + (1 if fs else 0)].split('|')
            m_decls = m[1] if ex else m[0]
            m_accepts, m_safe, m_struct = m[2] == '1', m[3] == '1', m[4] == '1'
            ctx.hist('model_safe', 'schema_safe' if m_safe else ('struct_safe_only' if m_struct else 'outside'))
            if res['gen'] == 'ok' and not is_doc:
                ctx.disagreements_checked += 1       # model: RBad; the concrete violation is already recorded
            elif res['gen'] == 'ok':
                ctx.traces_validated += 1
                if impl_show_decls(res['decls']) != m_decls:
                    n_dis += 1
                    ctx.disagreements_checked += 1
                    if n_dis <= 5:
                        ctx.broken_tie('SchemaGen model and generator disagree on the class declarations',
                                       {'doc': d, 'fs': fs, 'ex': ex, 'impl': res['decls'], 'model': m_decls})
                loads = res.get('exec') == 'ok' and res.get('load') == 'ok'
                if m_accepts and res.get('exec') == 'ok' and res.get('load') != 'ok' and 'F14g' not in regs:
                    # the model's (structural) acceptance is claimed sound w.r.t. the real loader
                    ctx.disagreements_checked += 1
                    ctx.broken_tie('model says the inferred root accepts the document, the real loader rejects it',
                                   {'doc': d, 'fs': fs, 'ex': ex, 'load': res.get('load')})
                ctx.hist('accepts_vs_loads', '%s/%s' % ('acc' if m_accepts else 'rej', 'loads' if loads else 'fails'))
                # the theorem's instance on the implementation: schema_safe j -> generated root loads j
                if m_safe and bad is not None:
                    candidate('document inside schema_safe (C19_loads) but the implementation fails: %s; %s (fs=%s ex=%s)'
                              % (bad[1], json.dumps(d)[:300], fs, ex), replay_obj)
            else:
                ctx.hist('gen_raises', res['gen']['err'])
                if not is_doc:
                    ctx.traces_validated += 1
                    if m_decls != 'BAD':
                        ctx.broken_tie('model infers a schema for a scalar root', {'doc': d})
                if m_safe:
                    ctx.violation('document inside schema_safe but generation raises %s: %s' % (res['gen']['err'], json.dumps(d)[:300]), replay_obj)
    # a failing case is reported only if it also fails alone in a fresh interpreter (no cross-talk
    # between the hundreds of generated modules of one batch); if it passes alone, the batch run
    # depended on earlier generations, which is itself a violation when the generated text differs
    seen = set()
    for what, obj in candidates:
        key = json.dumps(obj, sort_keys=True)
        if key in seen or len(seen) >= 25:
            continue
        seen.add(key)
        alone = ctx.impl('c19', {'cases': [{'doc': obj['doc'], 'fs': obj['fs'], 'ex': obj['ex']}]})['cases'][0]
        if case_predicate(obj['doc'], alone) is not None:
            ctx.violation(what, obj)
        else:
            ctx.notes.append('case failed inside a batch but passes in a fresh interpreter: %s' % what[:300])
            batch_sha = [r.get('sha') for c, r in zip(cases, results)
                         if c['doc'] == obj['doc'] and c['fs'] == obj['fs'] and c['ex'] == obj['ex']]
            if batch_sha and batch_sha[0] != alone.get('sha'):
                ctx.violation('generated text depends on earlier generations in the same process: ' + what, dict(obj, kind='order'))
    for c, res in list(zip(cases, results))[:2]:
        ctx.sample({'doc': c['doc'], 'force_strings': c['fs'], 'experimental': c['ex'],
                    'decls': res.get('decls'), 'load': res.get('load')})
    for c, res in zip(cases, results):
        if docs[c['i']][1] == 'tame' and direct_predicate(res) is None and nontrivial_doc(c['doc']):
            ctx.sample({'doc': c['doc'], 'force_strings': c['fs'], 'experimental': c['ex'], 'decls': res.get('decls'), 'load': res.get('load')})
            break

    # ---- overlapping generators (observation only; outside the property)
    r = ctx.sub_rng('interleaved')
    pairs = []
    for _ in range(10):
        a, b = r.choice(cases), r.choice(cases)
        pairs.append([a, b])
    inter = ctx.impl('c19', {'interleaved': pairs})['interleaved']
    for (a, b), (ha, hb) in zip(pairs, inter):
        ra = results[cases.index(a)]
        ctx.hist('overlapping_generators', 'first_text_same' if ra.get('sha') == ha else 'first_text_differs')

    # ---- raw input texts in-process: whatever strict JSON (+ root clause) rejects, the generator must reject
    zoo = input_zoo()
    raw_cases = [{'bytes_hex': b.hex(), 'fs': fs, 'ex': ex} for _, b in zoo for fs, ex in ((False, False), (True, True))]
    for (label, b), rc_ in zip([z for z in zoo for _ in (0, 1)], ctx.impl('c19', {'raw': raw_cases})['raw']):
        ctx.count(1, key='raw|' + label + b.hex(), nontrivial=True)
        ctx.hist('raw_input', '%s/%s' % (rc_['ref'], 'accepted' if rc_['gen'] == 'ok' else 'rejected'))
        if rc_['ref'] != 'doc' and rc_['gen'] == 'ok':
            ctx.violation('input that is not a JSON object/array document (%s, reference: %s) is accepted by the generator: %r'
                          % (label, rc_['ref'], b[:60]), {'kind': 'raw', 'label': label, 'bytes_hex': b.hex()})

    # ---- CLI
    ccases = cli_cases(ctx, docs)
    cres = ctx.impl('c19_cli', {'cases': ccases})['cases']
    cli_exprs = []
    for c, res in zip(ccases, cres):
        ctx.count(1, key='cli|' + json.dumps(c, sort_keys=True), nontrivial=True)
        ctx.hist('cli_input', c['input_kind'].split(':')[0])
        bad = cli_predicate(c, res)
        # F14a (output truncated on invalid input) is FIXED in /repo: no region, every failure is reported
        if bad is not None:
            ctx.violation('CLI: %s (input kind %s)' % (bad, c['input_kind']), {'kind': 'cli', 'case': c})
        before = coq_opt(coq_str(c['existing'])) if c['out_exists'] else 'None'
        if c['valid'] is None:
            ctx.hist('zoo_reference', res.get('ref'))
            inp = {'syntax': 'InSyntaxError', 'scalar': 'InScalarRoot'}.get(res.get('ref')) or '(InDoc %s)' % coq_str(res.get('inprocess_code') or '')
        else:
            inp = '(InDoc %s)' % coq_str(res.get('inprocess_code') or '') if c['valid'] else CLI_MODEL_INPUT[c['input_kind']]
        cli_exprs.append('show_cli %s %s' % (inp, before))
    if model is not None:
        try:
            cm = coq_eval_retry(ctx, cli_exprs, ['SchemaGen', 'T_SchemaTables'], make_prelude(O), 'cli')
            for c, res, m in zip(ccases, cres, cm):
                rc_m, out_m = m.split('|')
                rc_i = hexs(str(res['rc']))
                out_i = 'N' if res['out_after'] is None else 'S' + hexs(res['out_after'])
                ctx.traces_validated += 1
                if (rc_m, out_m) != (rc_i, out_i):
                    ctx.disagreements_checked += 1
                    ctx.broken_tie('CLI step machine and `wiz gen-schema` disagree (exit code / output file)',
                                   {'case': c, 'impl': [res['rc'], res['out_after']], 'model': m})
        except Exception as e:
            ctx.broken_tie('CLI model evaluation failed: %s' % str(e)[:400])
    ctx.sample({'cli_case': ccases[0], 'result': {k: cres[0].get(k) for k in ('rc', 'out_intact', 'diagnostic')}})


def replay(ctx, obj):
    if obj.get('kind') == 'cli':
        return replay_witness(ctx, obj)
    if obj.get('kind') == 'raw':
        res = ctx.impl('c19', {'raw': [{'bytes_hex': obj['bytes_hex']}]})['raw'][0]
        print('input %r: reference says %s, generator %s' % (bytes.fromhex(obj['bytes_hex'])[:80], res['ref'],
                                                          'accepts it' if res['gen'] == 'ok' else 'raises %s' % res['gen']['err']))
        return not (res['ref'] != 'doc' and res['gen'] == 'ok')
    if obj.get('kind') == 'history':
        c = {'doc': obj['doc'], 'fs': obj['fs'], 'ex': obj['ex']}
        hist = obj.get('history', [])
        after = ctx.impl('c19', {'regen': hist + [c]})['regen'][-1]
        alone = ctx.impl('c19', {'fresh': [c]})['fresh'][0]
        print('text hash after %d earlier generations in one process: %s; in a fresh interpreter: %s' % (len(hist), after, alone))
        return after == alone
    if obj.get('kind') in ('doc', 'order'):
        ok = replay_witness(ctx, obj)
        if obj['kind'] == 'order':
            c = {'doc': obj['doc'], 'fs': obj['fs'], 'ex': obj['ex']}
            other = {'doc': {'d': '2020-01-01', 'x': [None, 1]}, 'fs': not obj['fs'], 'ex': not obj['ex']}
            hs = ctx.impl('c19', {'regen': [c, other, c]})['regen']
            print('text hashes: first %s, after another generation %s' % (hs[0], hs[2]))
            ok = ok and hs[0] == hs[2]
        return ok
    print('replay object names a broken tie, not an input: %s' % json.dumps(obj)[:1500])
    return False
