"""C03 — dump emits the documented wire encoding, JSON-safe, fresh and side-effect free.

Theorems: coq/props/C03.v (model coq/model/CoreDump.v).  Correspondence: the model's
`dump` (instantiated with the regenerated hook registry) against `asdict` on generated
class models x conforming values x (key transform, marshal_date_time_as).  Direct
predicates on the implementation: asdict(x) == independent reference encoder, json.dumps
accepts it, to_json/list_to_json agree with it, no mutable container shared with x,
x unchanged.
"""
import json, copy
from props.core_gen import Gen, systematic_types, type_stats, type_depth, LEAVES, CONTEXTS

META = {
    'id': 'C03',
    'title': 'Dump emits the documented wire encoding, JSON-safe, fresh and side-effect free',
    'level': 'proof',
    'technique': 'Coq proof (structural induction over the universal value type) on a hand-written Gallina model of '
                 'dumpers.py + regenerated hook registry + differential correspondence with the implementation',
    'design_ref': 'DESIGN.md section 4 C03',
    'theorems': ['C03_hooks_table', 'C03_encoding', 'C03_encoding_total', 'C03_json_safe', 'C03_fresh', 'C03_z_suffix'],
    'tables': ['CoreDumpHooks'],
    'level_text': ('Theorems proved in Coq for ALL well-formed values (any nesting, any runtime types, any annotation incl. Any), '
                   'all five key transforms and both marshal_date_time_as modes, about an executable model of _asdict_inner / '
                   'DumpMixin / cls_asdict instantiated with the hook registry regenerated from the source: the dispatch machinery '
                   'returns exactly the documented encoding, the result is JSON-safe and shares no container with the input. '
                   'The model is re-validated against asdict on every run (every leaf type x every container position to depth 3, '
                   'then random class models), and the statement is also tested directly on the implementation against an '
                   'independent reference encoder.'),
    'level_note': ('Trusted: Coq kernel + vm_compute; the hand-written model; token values carry the answers of the stdlib '
                   'functions the library calls (isoformat, hex, str, timestamp, b64encode) as computed by the real functions. '
                   'Instance-unchanged and id-disjointness are carried by the correspondence/direct predicates only (a pure model '
                   'cannot mutate). exclude/skip_defaults/skip_if/paths/catch-all are outside this model (C11, C08, C10). '
                   'Dict keys that collide after dumping are not modelled (generators avoid them). CatchAll classes are checked by the direct '
                   'predicates only. Histories are limited to the default key spelling: a nested class dumped alone caches its own spelling (open finding F10, C07).'),
    'rule': ('systematic: every leaf type (19) x every container position (19 contexts incl. TypedDict optional keys, explicit and auto-assigned tagged unions) '
             'to depth 3, packed into classes of <= 10 fields, one conforming value per field (quick: a seed-rotated third of the depth-3 positions; thorough: all) '
             '+ random class models (quick 120, thorough 2500) + 30 sub-minute-offset cases + CatchAll classes (quick 30, thorough 300; direct predicates only), '
             'x key transform {default,CAMEL,PASCAL,LISP,SNAKE,NONE} x marshal_date_time_as {unset,ISO_FORMAT,TIMESTAMP}. Four diversity axes run through every stream: '
             'NAMES (30% from the wider lower-case grammar letter+digit*(_{1..4}letter+digit*)*: one-letter words, digits at word ends, runs of underscores - keys checked against an '
             'independent reference with collapsed separators; 10-15% WILD identifiers with leading/trailing underscores and capitals - outside the documented domain of the transforms, '
             'there only model == implementation is required), DECLARATIONS (aliases, tags, auto tags, every dict-like container with the leaf as KEY and as value, Optional elements, distinct '
             'Enum classes sharing a __name__, TypedDict NotRequired/Optional keys, CatchAll), VALUES (tzinfo zoo: naive, UTC, named fixed offsets incl. zero-offset GMT/WET, '
             'negative, sub-minute, IANA zones; huge ints, nan/inf, a 45-string zoo of line endings / control chars / unicode planes / look-alikes; Optional and Union elements laid out '
             'None-first / None-in-the-middle / complex-first; RUNTIME SUBCLASSES of every hooked type (str, int, float, list, tuple, set, frozenset, deque, dict, defaultdict, OrderedDict, '
             'datetime, date, time, timedelta, Decimal, UUID, Path) at annotated, container and Any positions - direct predicates only), HISTORIES (half of the class models with nested dataclasses dump every nested instance ON ITS OWN '
             'before the owner\'s first dump). Non-trivial: the field type has at least one container/union/class layer or a non-JSON leaf. Distinct: distinct (type label | value digest).'),
    'trusted_base': ['model coq/model/CoreDump.v (dispatch by exact type, dataclass/namedtuple tests, isinstance scan, encoders, cls_asdict keys/tag)',
                     'harness/impl/core_rt.py prints real objects as Gallina terms and as the canonical text compared with the model'],
    'assumptions': ['stdlib leaf functions (isoformat, UUID.hex, str(Decimal/Path/timedelta), timestamp, b64encode) are oracles: their '
                    'answers are carried in the value tokens',
                    ],
}

XF = {None: 'XCamel', 'CAMEL': 'XCamel', 'PASCAL': 'XPascal', 'LISP': 'XLisp', 'SNAKE': 'XSnake', 'NONE': 'XNone'}
DT = {None: 'DtIso', 'ISO_FORMAT': 'DtIso', 'TIMESTAMP': 'DtTimestamp'}
XFS = [None, 'CAMEL', 'PASCAL', 'LISP', 'SNAKE', 'NONE']
DTS = [None, 'ISO_FORMAT', 'TIMESTAMP']


def coq_str(s):
    b = s.encode('utf-8')
    if all(32 <= c < 127 and c != 34 for c in b):
        return '(S "%s")' % s
    return '(B [%s]%%N)' % ';'.join(str(c) for c in b)


def coq_cfg(cfg):
    return '(mkCfg %s %s %s)' % (XF[cfg.get('xf')], DT[cfg.get('dt')], coq_str(cfg.get('tag_key') or '__tag__'))


def subminute(v):
    """a datetime/time value whose UTC offset is +00:00:SS (region of the repaired finding F43, kept in the generators)."""
    if isinstance(v, dict):
        if v.get('v') == 'tok' and v.get('k') in ('datetime', 'time'):
            tz = v['x'][-1]
            return isinstance(tz, int) and 0 < tz < 60
        return any(subminute(x) for x in v.values())
    if isinstance(v, list):
        return any(subminute(x) for x in v)
    return False


F57 = 'F57-stale-subtype-hook-after-timestamp-rebind'


def in_f57(c):
    """history members-alone-first + TIMESTAMP + a value that is an instance of a SUBCLASS of date/datetime"""
    def sub_dt(v):
        if isinstance(v, dict):
            if v.get('v') == 'tok' and v.get('k') in ('date', 'datetime') and v.get('sub'):
                return True
            return any(sub_dt(x) for x in v.values())
        if isinstance(v, list):
            return any(sub_dt(x) for x in v)
        return False
    return bool(c.get('pre_dump')) and c['cfg'].get('dt') == 'TIMESTAMP' and sub_dt(c['value'])


def nontrivial_type(ty):
    return ty['t'] not in ('bool', 'int', 'float', 'str', 'none', 'any')


def make_cases(ctx):
    cases = []
    r = ctx.sub_rng('sys')
    g = Gen(r, {'neg_timedelta': True, 'nonfinite': True, 'ext_names': 0.3, 'wild_names': 0.1, 'same_named_enums': 0.3, 'name_families': 0.3, 'spellings': 0.3})
    items = systematic_types(g, 3)
    d3 = [it for it in items if it[0].count('<') == 2]
    rest = [it for it in items if it[0].count('<') < 2]
    if ctx.tier == 'quick':
        k = ctx.seed % 3
        d3 = [it for i, it in enumerate(d3) if i % 3 == k]
    chosen = rest + d3
    ci = 0
    for i in range(0, len(chosen), 10):
        chunk = chosen[i:i + 10]
        root = g.root([t for _, t in chunk], bases=['JSONWizard'] if ci % 2 == 0 else [])
        labels = {}
        for f in root['fields']:
            for lab, t in chunk:
                if t is f['ty']:
                    labels[f['name']] = lab
        cfg = {'xf': XFS[ci % len(XFS)], 'dt': DTS[(ci // 2) % len(DTS)]}
        cases.append({'root': root, 'value': g.value(root), 'cfg': cfg, 'wizard': ci % 2 == 0, 'labels': labels, 'src': 'systematic'})
        ci += 1
    # regression inputs of the repaired finding F43: sub-minute UTC offsets at several positions
    g3 = Gen(ctx.sub_rng('f43'), {})
    for tz in (30, 59, 1):
        for ctxname in (None, 'list', 'dictval', 'opt', 'tuple2'):
            for kind, x in (('datetime', [2020, 1, 1, 0, 0, 0, 0, tz]), ('time', [1, 2, 3, 0, tz])):
                leaf = {'t': 'tok', 'k': kind}
                ty = leaf if ctxname is None else g3.wrap(ctxname, leaf)
                root = g3.root([ty])
                val = g3.value(root)

                def put(v):
                    if isinstance(v, dict):
                        if v.get('v') == 'tok' and v.get('k') == kind:
                            v['x'] = list(x)
                        for y in v.values(): put(y)
                    elif isinstance(v, list):
                        for y in v: put(y)
                put(val)
                if ctxname is None:
                    val['xs'][0] = {'v': 'tok', 'k': kind, 'x': list(x)}
                cases.append({'root': root, 'value': val, 'cfg': {'xf': None, 'dt': None}, 'wizard': False,
                              'labels': {root['fields'][0]['name']: 'F43-regress:%s<%s>' % (ctxname, kind)}, 'src': 'regress'})
    # random class models
    r2 = ctx.sub_rng('rand')
    n = 120 if ctx.tier == 'quick' else 2500
    for j in range(n):
        g2 = Gen(r2, {'neg_timedelta': True, 'nonfinite': r2.random() < 0.3, 'extreme_dates': False,
                      'odd_offsets': r2.random() < 0.15, 'ext_names': 0.3, 'wild_names': 0.15, 'same_named_enums': 0.3, 'name_families': 0.3, 'spellings': 0.3,
                      'subclasses': 0.25 if j % 4 == 3 else 0})
        nf = r2.choice([1, 2, 3, 5])
        tys = [g2.rand_type(r2.choice([1, 2, 3])) for _ in range(nf)]
        aliases = {k: r2.choice(['Alias', 'my-key', 'x.y', 'with space', "quo'te", 'K']) + str(k) * (k > 0) for k in range(nf) if r2.random() < 0.15}
        tag = r2.choice([None, None, None, 'root-tag'])
        root = g2.root(tys, tag=tag, aliases=aliases, bases=['JSONWizard'] if j % 2 == 0 else [])
        # tags on nested dataclasses
        def tag_nested(t):
            if t['t'] == 'data' and t is not root and r2.random() < 0.4:
                t['tag'] = 'T%d' % t['id']
            for k in ('e', 'kt', 'vt'):
                if k in t: tag_nested(t[k])
            for e in t.get('es', []): tag_nested(e)
            for f in t.get('fields', []): tag_nested(f['ty'] if isinstance(f, dict) else f[1])
            for _, ft in t.get('req', []) + t.get('opt', []): tag_nested(ft)
        tag_nested(root)
        cfg = {'xf': r2.choice(XFS), 'dt': r2.choice(DTS)}
        if r2.random() < 0.15:
            cfg['tag_key'] = r2.choice(['kind', '__type__', 'tag'])
        val = g2.value(root)
        cases.append({'root': root, 'value': val, 'cfg': cfg, 'wizard': j % 2 == 0, 'labels': {}, 'src': 'random'})
        if g2.used_sub:
            cases[-1].update({'subclasses': True, 'nomodel': True, 'src': 'random+subclasses'})
    # runtime-type axis: instances of user SUBCLASSES of every hooked type, at the annotated position, inside containers and at Any positions
    rs = ctx.sub_rng('subclasses')
    gs = Gen(rs, {'subclasses': 1.0, 'ext_names': 0.3})
    sub_leaves = [gs.leaf(l) for l in ('str', 'int', 'float', 'uuid', 'decimal', 'path', 'date', 'datetime', 'time', 'timedelta')]
    sub_leaves += [{'t': 'seq', 'k': k, 'e': {'t': 'int'}} for k in ('list', 'set', 'frozenset', 'deque')]
    sub_leaves += [{'t': 'dict', 'k': k, 'kt': {'t': 'str'}, 'vt': {'t': 'int'}} for k in ('dict', 'defaultdict', 'ordered')]
    sub_leaves += [{'t': 'vartuple', 'e': {'t': 'int'}}]
    si = 0
    for leaf in sub_leaves:
        for w in (None, 'list', 'dictval', 'opt', 'anypos'):
            if w == 'anypos':
                ty = {'t': 'any'}
            else:
                ty = leaf if w is None else gs.wrap(w, copy.deepcopy(leaf))
            if ty is None:
                continue
            root = gs.root([ty])
            val = gs.value(root)
            if w == 'anypos':
                gs2 = Gen(rs, {'subclasses': 1.0, 'tz_zoo': True})
                val['xs'][0] = gs2.value(leaf)
            for dt in ((None, 'TIMESTAMP') if leaf.get('k') in ('date', 'datetime') else (None,)):
                cases.append({'root': root, 'value': copy.deepcopy(val), 'cfg': {'xf': XFS[si % len(XFS)], 'dt': dt}, 'wizard': False,
                              'labels': {root['fields'][0]['name']: 'subclass:%s<%s>' % (w, leaf.get('k', leaf['t']))}, 'src': 'subclasses',
                              'subclasses': True, 'nomodel': True})
                si += 1
    # CatchAll declarations: unknown keys captured in a dict field come back under their own names; the values
    # (JSON containers, and non-JSON values put there by hand) must be encoded and fresh.  Not in the Coq model
    # (C10 owns catch-all): direct predicates only.
    r4 = ctx.sub_rng('catchall')
    for j in range(30 if ctx.tier == 'quick' else 300):
        g4 = Gen(r4, {'ext_names': 0.3})
        nf = r4.choice([1, 2, 3])
        tys = [g4.rand_type(r4.choice([0, 1, 2])) for _ in range(nf)]
        root = g4.root(tys, bases=['JSONWizard'] if j % 2 == 0 else [])
        ca = g4.name()
        root['fields'].insert(r4.randrange(len(root['fields']) + 1), {'name': ca, 'ty': {'t': 'any'}, 'alias': None, 'default': None, 'catchall': True})
        root['fields'].sort(key=lambda f: (f['default'] is not None) or bool(f.get('catchall')))
        val = g4.value(root)
        items = []
        for k in range(r4.choice([0, 1, 2, 3])):
            vt = r4.choice([{'t': 'seq', 'k': 'list', 'e': {'t': 'int'}}, {'t': 'dict', 'k': 'dict', 'kt': {'t': 'str'}, 'vt': {'t': 'seq', 'k': 'list', 'e': {'t': 'str'}}},
                            {'t': 'any'}, {'t': 'seq', 'k': 'set', 'e': {'t': 'int'}}, {'t': 'tok', 'k': 'datetime'}, {'t': 'tuple', 'es': [{'t': 'int'}, {'t': 'seq', 'k': 'list', 'e': {'t': 'int'}}]},
                            {'t': 'seq', 'k': 'list', 'e': {'t': 'dict', 'k': 'dict', 'kt': {'t': 'str'}, 'vt': {'t': 'int'}}}])
            items.append([{'v': 'str', 'x': 'zz%dUnknown' % k}, g4.value(vt)])
        ci = [i for i, f in enumerate(root['fields']) if f.get('catchall')][0]
        val['xs'][ci] = {'v': 'none'}
        cases.append({'root': root, 'value': val, 'cfg': {'xf': r4.choice(XFS), 'dt': None}, 'wizard': j % 2 == 0, 'labels': {}, 'src': 'catchall',
                      'catchall_items': {'v': 'dict', 'k': 'dict', 'kvs': items} if items or r4.random() < 0.5 else None, 'nomodel': True})
    rh = ctx.sub_rng('history')
    return [finish_case(c, rh) for c in cases]


def strip(c):
    return {k: c[k] for k in ('root', 'value', 'cfg', 'wizard', 'pre_dump', 'catchall_items', 'nomodel', 'subclasses', 'wild_names') if k in c}


def has_nested_data(ty, top=True):
    if ty['t'] == 'data' and not top:
        return True
    subs = [ty[k] for k in ('e', 'kt', 'vt') if k in ty] + list(ty.get('es', []))
    subs += [f['ty'] if isinstance(f, dict) else f[1] for f in ty.get('fields', [])]
    subs += [ft for _, ft in ty.get('req', []) + ty.get('opt', [])]
    return any(has_nested_data(s, False) for s in subs)


def has_auto_tag(ty):
    if ty.get('auto_tag'):
        return True
    subs = [ty[k] for k in ('e', 'kt', 'vt') if k in ty] + list(ty.get('es', []))
    subs += [f['ty'] if isinstance(f, dict) else f[1] for f in ty.get('fields', [])]
    subs += [ft for _, ft in ty.get('req', []) + ty.get('opt', [])]
    return any(has_auto_tag(s) for s in subs)


import re
LOWER_NAME = re.compile(r'^[a-z]+[0-9]*(_+[a-z]+[0-9]*)*$')


def has_wild_names(ty):
    w = ty['t'] == 'data' and any(not LOWER_NAME.match(f['name']) for f in ty['fields'])
    subs = [ty[k] for k in ('e', 'kt', 'vt') if k in ty] + list(ty.get('es', []))
    subs += [f['ty'] if isinstance(f, dict) else f[1] for f in ty.get('fields', [])]
    subs += [ft for _, ft in ty.get('req', []) + ty.get('opt', [])]
    return w or any(has_wild_names(x) for x in subs)


def finish_case(c, r):
    """declaration-style and history axes shared by every stream: auto tags need the root setting; a class
    model with nested dataclasses is, half of the time, run with the history "members dumped alone first".
    (Only under the default key spelling: a member dumped alone caches ITS key spelling - open finding F10.)"""
    if has_auto_tag(c['root']):
        c['cfg']['auto_tags'] = True
    if has_nested_data(c['root']) and not c['cfg'].get('tag_key') and r.random() < 0.5:
        c['pre_dump'] = True
        if c['cfg'].get('xf') not in (None, 'CAMEL'):
            c['cfg']['xf'] = r.choice([None, 'CAMEL'])
    if has_wild_names(c['root']) and (c['cfg'].get('xf') or 'CAMEL') != 'NONE':
        # leading/trailing underscores, capitals: outside the documented domain of the key transforms; there the
        # reference takes the KEY spelling from the library's conversion function (model == implementation is what is
        # required of it) and checks the values independently
        c['wild_names'] = True
    return c


def check_direct(c, res):
    """Direct predicates of C03 on the implementation's own output. Returns list of failure descriptions."""
    bad = []
    if 'setup_err' in res:
        return ['harness could not build the case: %s' % json.dumps(res['setup_err'])[:300]]
    if 'dump_err' in res:
        return ['asdict raised %s: %s' % (res['dump_err']['err'], res['dump_err'].get('msg'))]
    if 'ref_err' in res:
        bad.append('reference encoder failed: ' + res['ref_err'])
    elif not res.get('ref_ok'):
        bad.append('asdict(x) differs from the documented encoding')
    if not res.get('is_dict'):
        bad.append('asdict did not return a plain dict')
    if res.get('shared'):
        bad.append('result shares a mutable container with the instance')
    if not res.get('unchanged'):
        bad.append('instance changed by asdict/to_json')
    if res.get('scribble_ok') is False:
        bad.append('editing the result changed the instance (a container is shared)')
    if 'pre_dump_err' in res:
        bad.append('dumping a nested dataclass on its own raised %s' % res['pre_dump_err'].get('err'))
    if res.get('keys_scalar') and not res.get('json_ok'):
        bad.append('json.dumps rejects the result: %s' % res.get('json_err'))
    if c.get('wizard') and res.get('json_ok') and res.get('to_json_ok') is False:
        bad.append('to_json differs from json.dumps(asdict(x)): %s' % res.get('to_json_err'))
    if c.get('wizard') and res.get('json_ok') and res.get('list_to_json_ok') is False:
        bad.append('list_to_json differs from json.dumps of the dumped list')
    return bad


def run(ctx):
    # ---- listed findings: replay witnesses --------------------------------
    resolved = set()
    for f in ctx.findings('open'):
        w = f.get('witness')
        if w and w.get('kind') == 'case':
            res = ctx.impl('c03', {'cases': [w['case']]})['cases'][0]
            ctx.count(1, key='witness:' + f['id'])
            fails = bool(check_direct(w['case'], res))
            if not fails:
                resolved.add(f['id'])
            ctx.known_finding(f['id'], still_fails=fails)

    cases = make_cases(ctx)
    B = 400
    results = []
    for i in range(0, len(cases), B):
        results.extend(ctx.impl('c03', {'cases': [strip(c) for c in cases[i:i + B]]})['cases'])

    # ---- model ---------------------------------------------------------------
    exprs, idx = [], []
    for i, (c, res) in enumerate(zip(cases, results)):
        if 'coq_v' in res:
            body = 'show_res (dump dump_hooks_v0 %s %s)' % (coq_cfg(c['cfg']), res['coq_v'])
            exprs.append(''.join('let %s := %s in ' % (n, t) for n, t in res['lets']) + body)
            idx.append(i)
    model = {}
    try:
        from props.c05 import coq_eval_sharded
        outs = coq_eval_sharded(ctx, exprs, ['CoreDump', 'T_CoreDumpHooks'], shard=50)     # <= 6 coqc processes: memory
        model = dict(zip(idx, outs))
    except Exception as e:
        ctx.broken_tie('model evaluation failed: %s' % str(e)[:800])

    # ---- compare ----------------------------------------------------------------
    n_dis = 0
    for i, (c, res) in enumerate(zip(cases, results)):
        fields = c['root']['fields']
        for f in fields:
            lab = c['labels'].get(f['name']) or ('rand:%d' % type_depth(f['ty']))
            ctx.count(1, key='%s|%s' % (lab, json.dumps(c['value']['xs'][fields.index(f)], sort_keys=True)[:200]),
                      nontrivial=nontrivial_type(f['ty']))
            h = {}
            type_stats(f['ty'], h)
            for k in h:
                ctx.hist('type_constructor', k)
            ctx.hist('field_depth', type_depth(f['ty']))
        ctx.hist('config', '%s/%s' % (c['cfg'].get('xf'), c['cfg'].get('dt')))
        ctx.hist('source', c['src'])
        ctx.hist('history', 'members-alone-first' if c.get('pre_dump') else 'owner-first')
        bad = check_direct(c, res)
        if subminute(c['value']):
            ctx.hist('subminute_offset_cases', c['src'])
        if bad:
            if in_f57(c) and ctx.is_open_region(F57) and bad == ['asdict(x) differs from the documented encoding']:
                ctx.hist('known_region', F57)
            else:
                ctx.violation('C03 direct predicate fails: %s' % '; '.join(bad), {'kind': 'case', 'case': strip(c)})
        if i in model:
            ctx.traces_validated += 1
            if 'show_dump' in res and model[i] != res['show_dump']:
                n_dis += 1
                ctx.disagreements_checked += 1
                if n_dis <= 5:
                    ctx.broken_tie('dump model and asdict disagree', {'case': strip(c), 'impl': res['show_dump'][:1500], 'model': model[i][:1500]})
            elif 'dump_err' in res and not model[i].startswith('!'):
                n_dis += 1
                ctx.broken_tie('asdict raised but the model dumps', {'case': strip(c), 'impl': res['dump_err'], 'model': model[i][:500]})
        if i < 3 or (c['src'] == 'random' and len(ctx.samples) < 5):
            ctx.sample({'class': c['root']['name'], 'fields': [(f['name'], c['labels'].get(f['name'])) for f in fields][:4],
                        'cfg': c['cfg'], 'impl_dump': res.get('show_dump', '')[:160], 'model_dump': model.get(i, '')[:160]})
    ctx.notes.append('cases=%d model_evaluated=%d disagreements=%d' % (len(cases), len(model), n_dis))


def replay(ctx, obj):
    if obj.get('kind') == 'case':
        res = ctx.impl('c03', {'cases': [obj['case']]})['cases'][0]
        bad = check_direct(obj['case'], res)
        print('asdict -> %s' % (res.get('show_dump') or res.get('dump_err') or res.get('setup_err')))
        print('direct predicates: %s' % ('; '.join(bad) if bad else 'all hold'))
        return not bad
    print('replay object names a broken tie, not an input: %s' % json.dumps(obj)[:1500])
    return False
