"""C03 — dump emits the documented wire encoding, JSON-safe, fresh and side-effect free.

Theorems: coq/props/C03.v (model coq/model/CoreDump.v).  Correspondence: the model's
`dump` (instantiated with the regenerated hook registry) against `asdict` on generated
class models x conforming values x (key transform, marshal_date_time_as).  Direct
predicates on the implementation: asdict(x) == independent reference encoder, json.dumps
accepts it, to_json/list_to_json agree with it, no mutable container shared with x,
x unchanged.
"""
import json, copy
from props.core_gen import Gen, systematic_types, type_stats, type_depth, LEAVES, CONTEXTS

META = {
    'id': 'C03',
    'title': 'Dump emits the documented wire encoding, JSON-safe, fresh and side-effect free',
    'level': 'proof',
    'technique': 'Coq proof (structural induction over the universal value type) on a hand-written Gallina model of '
                 'dumpers.py + regenerated hook registry + differential correspondence with the implementation',
    'design_ref': 'DESIGN.md section 4 C03',
    'theorems': ['C03_hooks_table', 'C03_encoding', 'C03_encoding_total', 'C03_json_safe', 'C03_fresh', 'C03_z_suffix',
                 'C03_bind_order_table', 'C03_bind_sequences', 'C03_meta_dumper_agree', 'C03_explicit_transform_wins_partial',
                 'C03_implicit_transform_default', 'C03_effective_config_partial', 'C03_configured_encoding_partial',
                 'C03_finding_regions_exact', 'C03_configured_encoding_refuted'],
    'tables': ['CoreDumpHooks', 'CoreDumpBindOrder'],
    'level_text': ('Theorems proved in Coq for ALL well-formed values (any nesting, any runtime types, any annotation incl. Any), '
                   'all five key transforms and both marshal_date_time_as modes, about an executable model of _asdict_inner / '
                   'DumpMixin / cls_asdict instantiated with the hook registry regenerated from the source: the dispatch machinery '
                   'returns exactly the documented encoding, the result is JSON-safe and shares no container with the input. '
                   'The model is re-validated against asdict on every run (every leaf type x every container position to depth 3, '
                   'then random class models), and the statement is also tested directly on the implementation against an '
                   'independent reference encoder. WHICH configuration is in force is modelled too (coq/model/CoreDumpConfig.v): the '
                   'class-definition-time pipeline (JSONWizard / JSONPyWizard __init_subclass__, key_case, inner Meta, inner Meta of the base class, '
                   'DumpMeta/LoadMeta.bind_to, `_META[cls] &= meta`) as a fold of bind_to over the sequence of binds of a declaration, with the step '
                   'order regenerated from the source; theorems by induction over ALL bind sequences and for ALL declaration forms x settings: the '
                   'explicitly configured transform wins over the implicit default of the base, the whole effective configuration is the documented '
                   'one outside the exact regions of two new open findings (F93, F94), and the end-to-end encoding theorem quantifies over declaration '
                   'forms. Every declaration form x setting is run as generated class source text in its own fresh interpreter on every run.'),
    'level_note': ('Trusted: Coq kernel + vm_compute; the hand-written model; token values carry the answers of the stdlib '
                   'functions the library calls (isoformat, hex, str, timestamp, b64encode) as computed by the real functions. '
                   'Instance-unchanged and id-disjointness are carried by the correspondence/direct predicates only (a pure model '
                   'cannot mutate). exclude/skip_defaults/skip_if/paths/catch-all are outside this model (C11, C08, C10). '
                   'Dict keys that collide after dumping are not modelled (generators avoid them). CatchAll classes are checked by the direct '
                   'predicates only. Histories are limited to the default key spelling: a nested class dumped alone caches its own spelling (open finding F10, C07). '
                   'Configuration pipeline: one level of user-class inheritance (parent declared on the wizard base, not re-bound after its definition), inner Meta '
                   'derived from JSONWizard.Meta directly, no module-level Meta, binds before the first dump; Meta of nested classes / the cascade is C12.'),
    'rule': ('systematic: every leaf type (19) x every container position (19 contexts incl. TypedDict optional keys, explicit and auto-assigned tagged unions) '
             'to depth 3, packed into classes of <= 10 fields, one conforming value per field (quick: a seed-rotated third of the depth-3 positions; thorough: all) '
             '+ random class models (quick 120, thorough 2500) + 30 sub-minute-offset cases + CatchAll classes (quick 30, thorough 300; direct predicates only), '
             'x key transform {default,CAMEL,PASCAL,LISP,SNAKE,NONE} x marshal_date_time_as {unset,ISO_FORMAT,TIMESTAMP}. Four diversity axes run through every stream: '
             'NAMES (30% from the wider lower-case grammar letter+digit*(_{1..4}letter+digit*)*: one-letter words, digits at word ends, runs of underscores - keys checked against an '
             'independent reference with collapsed separators; 10-15% WILD identifiers with leading/trailing underscores and capitals - outside the documented domain of the transforms, '
             'there only model == implementation is required), DECLARATIONS (aliases, tags, auto tags, every dict-like container with the leaf as KEY and as value, Optional elements, distinct '
             'Enum classes sharing a __name__, TypedDict NotRequired/Optional keys, CatchAll), VALUES (tzinfo zoo: naive, UTC, named fixed offsets incl. zero-offset GMT/WET, '
             'negative, sub-minute, IANA zones; huge ints, nan/inf, a 45-string zoo of line endings / control chars / unicode planes / look-alikes; Optional and Union elements laid out '
             'None-first / None-in-the-middle / complex-first; RUNTIME SUBCLASSES of every hooked type (str, int, float, list, tuple, set, frozenset, deque, dict, defaultdict, OrderedDict, '
             'datetime, date, time, timedelta, Decimal, UUID, Path) at annotated, container and Any positions - direct predicates only), HISTORIES (half of the class models with nested dataclasses dump every nested instance ON ITS OWN '
             'before the owner\'s first dump). DECLARATION FORMS (how the configuration in force is determined): stream A - every base (plain, JSONWizard, JSONSerializable, JSONPyWizard) x '
             '{no config; inner Meta with each of the 5 transforms / empty / date mode / tag key; base class with inner Meta (each transform) / without; key_case x 4; bind_to once (each transform, '
             'DumpMeta(key_transform=) / (key_transform_with_dump=) / LoadMeta) / twice / followed by an unrelated bind; inner Meta then bind_to; own + inherited Meta disjoint / equal / overridden by a later bind; '
             'the F93 / F94 regions} + a random product sample (quick 110, thorough 1500), value spelling x Meta class name x Meta base rotated; ONE FRESH INTERPRETER PER DECLARATION, class source text at module level; '
             'stream B - 40% of the systematic and random class models without a history declare their root through a declaration form documenting the case\'s configuration. Non-trivial: the field type has at least one container/union/class layer or a non-JSON leaf. Distinct: distinct (type label | value digest).'),
    'trusted_base': ['model coq/model/CoreDump.v (dispatch by exact type, dataclass/namedtuple tests, isinstance scan, encoders, cls_asdict keys/tag)',
                     'model coq/model/CoreDumpConfig.v (bind_to restricted to key transform / date mode / tag key, `&=` merge, sequence of binds of a declaration); '
                     'its step order is NOT trusted: harness/tables/CoreDumpBindOrder.py reads it from the AST of serial_json.py / class_helper.py (fail-closed) and C03_bind_order_table pins it',
                     'harness/impl/c03_decl.py prints declarations as class source text; harness/props/c03.py `documented` is the independent statement of the documented priority',
                     'harness/impl/core_rt.py prints real objects as Gallina terms and as the canonical text compared with the model'],
    'assumptions': ['stdlib leaf functions (isoformat, UUID.hex, str(Decimal/Path/timedelta), timestamp, b64encode) are oracles: their '
                    'answers are carried in the value tokens',
                    ],
}

XF = {None: 'XCamel', 'CAMEL': 'XCamel', 'PASCAL': 'XPascal', 'LISP': 'XLisp', 'SNAKE': 'XSnake', 'NONE': 'XNone'}
DT = {None: 'DtIso', 'ISO_FORMAT': 'DtIso', 'TIMESTAMP': 'DtTimestamp'}
XFS = [None, 'CAMEL', 'PASCAL', 'LISP', 'SNAKE', 'NONE']
DTS = [None, 'ISO_FORMAT', 'TIMESTAMP']


def coq_str(s):
    b = s.encode('utf-8')
    if all(32 <= c < 127 and c != 34 for c in b):
        return '(S "%s")' % s
    return '(B [%s]%%N)' % ';'.join(str(c) for c in b)


def coq_cfg(cfg):
    return '(mkCfg %s %s %s)' % (XF[cfg.get('xf')], DT[cfg.get('dt')], coq_str(cfg.get('tag_key') or '__tag__'))


def subminute(v):
    """a datetime/time value whose UTC offset is +00:00:SS (region of the repaired finding F43, kept in the generators)."""
    if isinstance(v, dict):
        if v.get('v') == 'tok' and v.get('k') in ('datetime', 'time'):
            tz = v['x'][-1]
            return isinstance(tz, int) and 0 < tz < 60
        return any(subminute(x) for x in v.values())
    if isinstance(v, list):
        return any(subminute(x) for x in v)
    return False


F57 = 'F57-stale-subtype-hook-after-timestamp-rebind'


def in_f57(c):
    """history members-alone-first + TIMESTAMP + a value that is an instance of a SUBCLASS of date/datetime"""
    def sub_dt(v):
        if isinstance(v, dict):
            if v.get('v') == 'tok' and v.get('k') in ('date', 'datetime') and v.get('sub'):
                return True
            return any(sub_dt(x) for x in v.values())
        if isinstance(v, list):
            return any(sub_dt(x) for x in v)
        return False
    return bool(c.get('pre_dump')) and c['cfg'].get('dt') == 'TIMESTAMP' and sub_dt(c['value'])


def nontrivial_type(ty):
    return ty['t'] not in ('bool', 'int', 'float', 'str', 'none', 'any')


# =====================================================================================================
# Declaration axis: HOW the dump configuration in force for a class is determined (class-definition-time
# pipeline: wizard base, class keywords, inner Meta, base class with inner Meta, bind_to after the definition).
# Model: coq/model/CoreDumpConfig.v.  Declarations are JSON objects (see harness/impl/c03_decl.py).
# =====================================================================================================
F93 = 'F93-subclass-own-meta-overridden-by-base-meta'
F94 = 'F94-timestamp-sticky-after-iso-format'
XF5 = ['CAMEL', 'PASCAL', 'LISP', 'SNAKE', 'NONE']
WIZ = ['JSONWizard', 'JSONPyWizard', 'JSONSerializable']
ATTRS = ('xf', 'dt', 'tag_key')


def coq_mset(m):
    if m is None:
        return 'None'
    xf = '(Some %s)' % XF[m['xf']] if m.get('xf') is not None else 'None'
    dt = '(Some %s)' % DT[m['dt']] if m.get('dt') is not None else 'None'
    tk = '(Some %s)' % coq_str(m['tag_key']) if m.get('tag_key') is not None else 'None'
    return '(mkMS %s %s %s)' % (xf, dt, tk)


def coq_decl(d):
    base = {None: 'BPlain', 'JSONWizard': 'BWizard', 'JSONSerializable': 'BWizard', 'JSONPyWizard': 'BPyWizard'}[d.get('base')]
    inner = 'None' if d.get('inner') is None else '(Some %s)' % coq_mset(d['inner'])
    par = d.get('parent')
    parent = 'None' if par is None else ('(Some None)' if par.get('inner') is None else '(Some (Some %s))' % coq_mset(par['inner']))
    return '(mkDecl %s %s %s %s [%s])' % (base, 'true' if d.get('key_case') else 'false', inner, parent,
                                          '; '.join(coq_mset(m) for m in d.get('post') or []))


def documented(d):
    """The configuration a declaration DOCUMENTS (independent transcription of docs/common_use_cases/meta.rst,
    wizard_mixins.rst, README 'JSONPyWizard'): an explicit bind_to after the definition (the latest one) beats the class's own
    inner Meta, which beats the inner Meta inherited from its base class, which beats the default of the wizard base -
    keys as they are for JSONPyWizard, camelCase otherwise; ISO-8601 dates; '__tag__'."""
    def pick(attr, default):
        for m in reversed(d.get('post') or []):
            if m.get(attr) is not None:
                return m[attr]
        if d.get('inner') and d['inner'].get(attr) is not None:
            return d['inner'][attr]
        par = d.get('parent')
        if par and par.get('inner') and par['inner'].get(attr) is not None:
            return par['inner'][attr]
        return default
    return {'xf': pick('xf', 'NONE' if d.get('base') == 'JSONPyWizard' else 'CAMEL'),
            'dt': pick('dt', 'ISO_FORMAT'), 'tag_key': pick('tag_key', '__tag__')}


def all_binds(d):
    out = []
    if d.get('inner'): out.append(d['inner'])
    if d.get('parent') and d['parent'].get('inner'): out.append(d['parent']['inner'])
    return out + list(d.get('post') or [])


def in_f93_decl(d):
    """own inner Meta and the base class's inner Meta set the same attribute differently, no later bind_to sets it"""
    par = d.get('parent')
    if not (d.get('inner') and par and par.get('inner')):
        return False
    for a in ATTRS:
        if any(m.get(a) is not None for m in d.get('post') or []):
            continue
        x, y = d['inner'].get(a), par['inner'].get(a)
        if x is not None and y is not None and x != y:
            return True
    return False


def in_f94_decl(d):
    """some bind asks for TIMESTAMP although the documented mode is ISO_FORMAT (an explicit ISO_FORMAT overrides it)"""
    return documented(d)['dt'] == 'ISO_FORMAT' and any(m.get('dt') == 'TIMESTAMP' for m in all_binds(d))


def decl_region(d):
    if in_f93_decl(d): return F93
    if in_f94_decl(d): return F94
    return None


def ref_words(name):
    """words of a field name written in snake_case or camelCase (docs/enums.py: 'my_field_name', 'myFieldName')"""
    ws = []
    for part in name.split('_'):
        ws += re.findall(r'[A-Za-z][a-z0-9]*', part)
    return ws


def ref_key2(name, xf):
    ws = [w.lower() for w in ref_words(name)]
    cap = [w[:1].upper() + w[1:] for w in ws]
    if xf == 'CAMEL': return ws[0] + ''.join(cap[1:])
    if xf == 'PASCAL': return ''.join(cap)
    if xf == 'LISP': return '-'.join(ws)
    if xf == 'SNAKE': return '_'.join(ws)
    return name


PROBE_CLASSIFY = {('probeOne', 'probeTwo'): 'CAMEL', ('ProbeOne', 'ProbeTwo'): 'PASCAL', ('probe-one', 'probe-two'): 'LISP',
                  ('probe_one', 'probe_two'): 'SNAKE', ('probe_one', 'probeTwo'): 'NONE'}


def decl_has_tag(d):
    return any((m.get('extra') or {}).get('tag') for m in all_binds(d))


def expected_probe_items(d, oracle):
    """documented dump of the fixed probe class of harness/impl/c03_decl.py under the documented configuration"""
    doc = documented(d)
    names = (['base_word'] if d.get('parent') is not None else []) + ['probe_one', 'probeTwo', 'when_at', 'stamp_utc']
    iso = oracle['dt_iso']
    vals = {'base_word': 7, 'probe_one': 1, 'probeTwo': 'x',
            'when_at': oracle['date_ts'] if doc['dt'] == 'TIMESTAMP' else oracle['date_iso'],
            'stamp_utc': oracle['dt_ts'] if doc['dt'] == 'TIMESTAMP' else (iso[:-6] + 'Z' if iso.endswith('+00:00') else iso)}
    items = [[ref_key2(n, doc['xf']), vals[n]] for n in names]
    if decl_has_tag(d):
        items.append([doc['tag_key'], 'tg'])
    return items


def check_decl_direct(d, res):
    """direct predicates of C03 on what the stand-alone program of a declaration printed"""
    if res.get('err'):
        return ['the program of the declaration failed: %s %s' % (res['err'], (res.get('msg') or '')[:200])]
    bad = []
    exp = expected_probe_items(d, res['oracle'])
    if res.get('items') != exp:
        bad.append('asdict(x) differs from the documented encoding under the configured key transform / date mode / tag key: got %s, documented %s'
                   % (json.dumps(res.get('items'))[:300], json.dumps(exp)[:300]))
    if not res.get('is_dict'):
        bad.append('asdict did not return a plain dict')
    if res.get('json') != dict(res.get('items') or []):
        bad.append('json.dumps(asdict(x)) does not round-trip')
    if 'to_dict' in res:
        if res['to_dict'] != res.get('items'):
            bad.append('to_dict differs from asdict')
        if res.get('to_json') != res.get('json'):
            bad.append('to_json differs from json.dumps(asdict(x))')
        if res.get('list_to_json') != [res.get('json'), res.get('json')]:
            bad.append('list_to_json differs from json.dumps of the dumped list')
    if not res.get('unchanged'):
        bad.append('instance changed by the dump')
    return bad


def observed_config(d, res):
    """the text CoreDumpConfig.show_config prints, read off the implementation"""
    xf = PROBE_CLASSIFY.get(tuple(res.get('probe') or ()), '?%s' % (res.get('probe'),))
    items = dict(res.get('items') or [])
    when = [v for k, v in (res.get('items') or []) if ref_words(k) and [w.lower() for w in ref_words(k)] == ['when', 'at']]
    dt = 'TIMESTAMP' if when and isinstance(when[0], int) else 'ISO_FORMAT'
    if decl_has_tag(d):
        tks = [k for k, v in (res.get('items') or []) if v == 'tg']
        tk = tks[0] if tks else '?notag'
    else:
        tk = res.get('tag_key_attr') or '__tag__'
    m = res.get('meta')
    meta = 'nometa' if m is None else '|'.join('-' if x is None else str(x) for x in m)
    return '%s|%s|%s#%s' % (xf, dt, tk, meta)


def decl_form(d):
    """label of the declaration FORM (what is declared where), settings abstracted"""
    def what(m):
        return 'meta[%s]' % ','.join(a for a in ATTRS if m.get(a) is not None) if m is not None else '-'
    par = d.get('parent')
    return '%s%s|inner:%s|parent:%s|post:%d' % (d.get('base') or 'plain', '+key_case' if d.get('key_case') else '', what(d.get('inner')),
                                                'none' if par is None else what(par.get('inner')),
                                                len([m for m in d.get('post') or [] if any(m.get(a) is not None for a in ATTRS)]))


def mk_bind(xf=None, dt=None, tag_key=None, via='DumpMeta', kw=None, extra=None):
    m = {'xf': xf, 'dt': dt, 'tag_key': tag_key, 'via': via}
    if via == 'DumpMeta':
        m['kw'] = kw or 'key_transform'
    if extra:
        m['extra'] = extra
    return m


def rand_bind(r, p=(0.55, 0.3, 0.25)):
    return mk_bind(xf=r.choice(XF5) if r.random() < p[0] else None,
                   dt=r.choice(['ISO_FORMAT', 'TIMESTAMP']) if r.random() < p[1] else None,
                   tag_key=r.choice(['kind', 'type', '_t', 'tag key']) if r.random() < p[2] else None,
                   via=r.choice(['DumpMeta', 'DumpMeta', 'LoadMeta']), kw=r.choice(['key_transform', 'key_transform_with_dump']),
                   extra=r.choice([None, None, None, {'skip_defaults': False}, {'raise_on_unknown_json_key': False}]))


def dress(d, i, r=None, tag=True):
    """spelling dimensions (how values / the Meta class are written) and the tag that makes the tag key observable"""
    d.setdefault('key_case', None); d.setdefault('inner', None); d.setdefault('parent', None); d.setdefault('post', [])
    d['spell'] = ['upper', 'lower', 'enum', 'title'][i % 4]
    d['meta_name'] = ['_', 'Meta', 'Config'][i % 3]
    d['meta_base'] = WIZ[(i // 2) % 3] if d.get('base') else None
    if tag:
        d['post'] = list(d['post']) + [mk_bind(via='LoadMeta', extra={'tag': 'tg'})]
    return d


def rand_decl(r):
    base = r.choice([None, 'JSONWizard', 'JSONWizard', 'JSONPyWizard', 'JSONPyWizard', 'JSONSerializable'])
    d = {'base': base, 'key_case': None, 'inner': None, 'parent': None, 'post': []}
    if base:
        d['key_case'] = r.choice([None, None, None, 'CAMEL', 'SNAKE', 'PASCAL', 'KEBAB'])
        if r.random() < 0.65:
            d['inner'] = rand_bind(r)
        if r.random() < 0.4:
            d['parent'] = {'inner': rand_bind(r) if r.random() < 0.7 else None}
    elif r.random() < 0.2:
        d['parent'] = {'inner': None}
    d['post'] = [rand_bind(r) for _ in range(r.choice([0, 0, 1, 1, 2, 3]))]
    return d


def gen_decls(ctx):
    """stream A: systematic enumeration of declaration forms x settings, then a random product sample"""
    out = []
    add = lambda d, why: out.append((d, why))
    for base in [None] + WIZ:
        add({'base': base}, 'no-config')
        for x in XF5:
            add({'base': base, 'post': [mk_bind(xf=x)]}, 'post-bind')
        add({'base': base, 'post': [mk_bind(xf='LISP', via='LoadMeta')]}, 'post-bind-loadmeta')
        add({'base': base, 'post': [mk_bind(dt='TIMESTAMP')]}, 'post-bind-dt')
        add({'base': base, 'post': [mk_bind(xf='PASCAL'), mk_bind(xf='SNAKE')]}, 'post-bind-twice')
        add({'base': base, 'post': [mk_bind(xf='PASCAL'), mk_bind(extra={'skip_defaults': False})]}, 'post-bind-then-unrelated')
        add({'base': base, 'post': [mk_bind(dt='ISO_FORMAT'), mk_bind(dt='TIMESTAMP', tag_key='kind')]}, 'post-bind-iso-then-timestamp')
    for base in WIZ:
        for x in XF5:
            add({'base': base, 'inner': mk_bind(xf=x)}, 'inner-meta')
            add({'base': base, 'parent': {'inner': mk_bind(xf=x)}}, 'inherited-meta')
        add({'base': base, 'inner': mk_bind()}, 'inner-meta-empty')
        add({'base': base, 'inner': mk_bind(dt='TIMESTAMP')}, 'inner-meta-dt')
        add({'base': base, 'inner': mk_bind(tag_key='kind', extra={'skip_defaults': False})}, 'inner-meta-tag-key')
        add({'base': base, 'parent': {'inner': None}}, 'parent-without-meta')
        add({'base': base, 'parent': {'inner': mk_bind(dt='TIMESTAMP', tag_key='type')}, 'inner': mk_bind(xf='LISP')}, 'inherited+own-disjoint')
        add({'base': base, 'parent': {'inner': mk_bind(xf='PASCAL')}, 'inner': mk_bind(xf='PASCAL', tag_key='kind')}, 'inherited+own-equal')
        add({'base': base, 'parent': {'inner': mk_bind(xf='PASCAL')}, 'inner': mk_bind(xf='SNAKE'), 'post': [mk_bind(xf='LISP')]}, 'inherited+own+post')
        for kc in ('CAMEL', 'SNAKE', 'PASCAL', 'KEBAB'):
            add({'base': base, 'key_case': kc}, 'key-case')
            add({'base': base, 'key_case': kc, 'inner': mk_bind(xf=XF5[(len(out)) % 5])}, 'key-case+inner-meta')
        for a, b in (('LISP', 'PASCAL'), ('NONE', 'CAMEL'), ('SNAKE', 'NONE'), ('CAMEL', 'LISP')):
            add({'base': base, 'inner': mk_bind(xf=a), 'post': [mk_bind(xf=b)]}, 'inner-meta-then-post-bind')
    # regions of the open findings (classified, not reported)
    for base in WIZ[:2]:
        add({'base': base, 'parent': {'inner': mk_bind(xf='LISP')}, 'inner': mk_bind(xf='SNAKE')}, 'region-F93')
        add({'base': base, 'parent': {'inner': mk_bind(tag_key='type')}, 'inner': mk_bind(tag_key='kind')}, 'region-F93')
        add({'base': base, 'inner': mk_bind(dt='TIMESTAMP'), 'post': [mk_bind(dt='ISO_FORMAT')]}, 'region-F94')
    add({'base': None, 'post': [mk_bind(dt='TIMESTAMP'), mk_bind(dt='ISO_FORMAT')]}, 'region-F94')
    r = ctx.sub_rng('decl')
    n = 110 if ctx.tier == 'quick' else 1500
    k = 0
    while k < n:
        d = rand_decl(r)
        if decl_region(d) and r.random() < 0.85:
            continue
        add(d, 'random')
        k += 1
    res = []
    for i, (d, why) in enumerate(out):
        res.append((dress(d, i + ctx.seed, tag=(i % 5 != 4)), why))
    return res


def realise_decl(c, r, index):
    """stream B: declare the ROOT of a generated class model through a declaration form that documents the case's configuration
    (or, rarely, falls into a finding region); c['cfg'] becomes the DOCUMENTED configuration of the declaration"""
    cfg = c['cfg']
    want = {a: cfg.get(a) for a in ATTRS if cfg.get(a) is not None}
    extra = {'auto_assign_tags': True} if cfg.get('auto_tags') else None
    style = r.choice(['inner', 'inner', 'post', 'post', 'post-split', 'inner+post', 'parent', 'parent+own'])
    base = r.choice(WIZ) if style != 'post' else r.choice([None] + WIZ)
    if style == 'post-split' and r.random() < 0.3:
        base = None
    d = {'base': base, 'key_case': None, 'inner': None, 'parent': None, 'post': []}
    other = lambda x: r.choice([y for y in XF5 if y != x])
    if style == 'inner':
        d['inner'] = mk_bind(extra=extra, **want)
    elif style == 'post':
        d['post'] = [mk_bind(extra=extra, via=r.choice(['DumpMeta', 'LoadMeta']), kw=r.choice(['key_transform', 'key_transform_with_dump']), **want)]
        if base and r.random() < 0.3:
            d['inner'] = mk_bind()
    elif style == 'post-split':
        ks = list(want)
        r.shuffle(ks)
        h = r.randrange(len(ks) + 1)
        d['post'] = [mk_bind(**{a: want[a] for a in ks[:h]}), mk_bind(extra=extra, via='LoadMeta', **{a: want[a] for a in ks[h:]})]
    elif style == 'inner+post':
        dis = {}
        if 'xf' in want: dis['xf'] = other(want['xf'])
        if want.get('dt') == 'TIMESTAMP': dis['dt'] = 'ISO_FORMAT'
        if 'tag_key' in want: dis['tag_key'] = 'overridden'
        d['inner'] = mk_bind(**dis)
        d['post'] = [mk_bind(extra=extra, **want)]
    elif style == 'parent':
        d['parent'] = {'inner': mk_bind(extra=extra, **want)}
        if r.random() < 0.4:
            d['inner'] = mk_bind()
    else:
        ks = list(want)
        r.shuffle(ks)
        h = r.randrange(len(ks) + 1)
        d['parent'] = {'inner': mk_bind(**{a: want[a] for a in ks[:h]})}
        d['inner'] = mk_bind(extra=extra, **{a: want[a] for a in ks[h:]})
        if r.random() < 0.12 and 'xf' in want:
            # region of F93: the base class's inner Meta names another transform than the class's own
            d['parent']['inner']['xf'], d['inner']['xf'] = other(want['xf']), want['xf']
    if base and not extra and r.random() < 0.25:
        d['key_case'] = r.choice(['CAMEL', 'SNAKE', 'PASCAL'])
    if d['parent'] is not None:
        d['parent_fields'] = r.randrange(len(c['root']['fields']))
    if c['root'].get('tag') is not None:
        d['post'] = [mk_bind(via='LoadMeta', extra={'tag': c['root']['tag']})] + d['post']
    d['spell'] = ['upper', 'lower', 'enum', 'title'][index % 4]
    d['meta_name'] = ['_', 'Meta', 'Config'][index % 3]
    d['meta_base'] = WIZ[(index // 2) % 3] if base else None
    doc = documented(d)
    c['decl'] = d
    c['cfg'] = {'xf': doc['xf'], 'dt': doc['dt'], 'tag_key': doc['tag_key'] if doc['tag_key'] != '__tag__' else None}
    if cfg.get('auto_tags'):
        c['cfg']['auto_tags'] = True
    c['wizard'] = base is not None
    c['root']['bases'] = []
    c['root']['name'] = '%sd%d' % (c['root']['name'], index)          # META_INITIALIZER is keyed by qualname: unique per interpreter
    c['src'] += '+decl'
    return c


def make_cases(ctx):
    cases = []
    r = ctx.sub_rng('sys')
    g = Gen(r, {'neg_timedelta': True, 'nonfinite': True, 'ext_names': 0.3, 'wild_names': 0.1, 'same_named_enums': 0.3, 'name_families': 0.3, 'spellings': 0.3})
    items = systematic_types(g, 3)
    d3 = [it for it in items if it[0].count('<') == 2]
    rest = [it for it in items if it[0].count('<') < 2]
    if ctx.tier == 'quick':
        k = ctx.seed % 3
        d3 = [it for i, it in enumerate(d3) if i % 3 == k]
    chosen = rest + d3
    ci = 0
    for i in range(0, len(chosen), 10):
        chunk = chosen[i:i + 10]
        root = g.root([t for _, t in chunk], bases=['JSONWizard'] if ci % 2 == 0 else [])
        labels = {}
        for f in root['fields']:
            for lab, t in chunk:
                if t is f['ty']:
                    labels[f['name']] = lab
        cfg = {'xf': XFS[ci % len(XFS)], 'dt': DTS[(ci // 2) % len(DTS)]}
        cases.append({'root': root, 'value': g.value(root), 'cfg': cfg, 'wizard': ci % 2 == 0, 'labels': labels, 'src': 'systematic'})
        ci += 1
    # regression inputs of the repaired finding F43: sub-minute UTC offsets at several positions
    g3 = Gen(ctx.sub_rng('f43'), {})
    for tz in (30, 59, 1):
        for ctxname in (None, 'list', 'dictval', 'opt', 'tuple2'):
            for kind, x in (('datetime', [2020, 1, 1, 0, 0, 0, 0, tz]), ('time', [1, 2, 3, 0, tz])):
                leaf = {'t': 'tok', 'k': kind}
                ty = leaf if ctxname is None else g3.wrap(ctxname, leaf)
                root = g3.root([ty])
                val = g3.value(root)

                def put(v):
                    if isinstance(v, dict):
                        if v.get('v') == 'tok' and v.get('k') == kind:
                            v['x'] = list(x)
                        for y in v.values(): put(y)
                    elif isinstance(v, list):
                        for y in v: put(y)
                put(val)
                if ctxname is None:
                    val['xs'][0] = {'v': 'tok', 'k': kind, 'x': list(x)}
                cases.append({'root': root, 'value': val, 'cfg': {'xf': None, 'dt': None}, 'wizard': False,
                              'labels': {root['fields'][0]['name']: 'F43-regress:%s<%s>' % (ctxname, kind)}, 'src': 'regress'})
    # random class models
    r2 = ctx.sub_rng('rand')
    n = 120 if ctx.tier == 'quick' else 2500
    for j in range(n):
        g2 = Gen(r2, {'neg_timedelta': True, 'nonfinite': r2.random() < 0.3, 'extreme_dates': False,
                      'odd_offsets': r2.random() < 0.15, 'ext_names': 0.3, 'wild_names': 0.15, 'same_named_enums': 0.3, 'name_families': 0.3, 'spellings': 0.3,
                      'subclasses': 0.25 if j % 4 == 3 else 0})
        nf = r2.choice([1, 2, 3, 5])
        tys = [g2.rand_type(r2.choice([1, 2, 3])) for _ in range(nf)]
        aliases = {k: r2.choice(['Alias', 'my-key', 'x.y', 'with space', "quo'te", 'K']) + str(k) * (k > 0) for k in range(nf) if r2.random() < 0.15}
        tag = r2.choice([None, None, None, 'root-tag'])
        root = g2.root(tys, tag=tag, aliases=aliases, bases=['JSONWizard'] if j % 2 == 0 else [])
        # tags on nested dataclasses
        def tag_nested(t):
            if t['t'] == 'data' and t is not root and r2.random() < 0.4:
                t['tag'] = 'T%d' % t['id']
            for k in ('e', 'kt', 'vt'):
                if k in t: tag_nested(t[k])
            for e in t.get('es', []): tag_nested(e)
            for f in t.get('fields', []): tag_nested(f['ty'] if isinstance(f, dict) else f[1])
            for _, ft in t.get('req', []) + t.get('opt', []): tag_nested(ft)
        tag_nested(root)
        cfg = {'xf': r2.choice(XFS), 'dt': r2.choice(DTS)}
        if r2.random() < 0.15:
            cfg['tag_key'] = r2.choice(['kind', '__type__', 'tag'])
        val = g2.value(root)
        cases.append({'root': root, 'value': val, 'cfg': cfg, 'wizard': j % 2 == 0, 'labels': {}, 'src': 'random'})
        if g2.used_sub:
            cases[-1].update({'subclasses': True, 'nomodel': True, 'src': 'random+subclasses'})
    # runtime-type axis: instances of user SUBCLASSES of every hooked type, at the annotated position, inside containers and at Any positions
    rs = ctx.sub_rng('subclasses')
    gs = Gen(rs, {'subclasses': 1.0, 'ext_names': 0.3})
    sub_leaves = [gs.leaf(l) for l in ('str', 'int', 'float', 'uuid', 'decimal', 'path', 'date', 'datetime', 'time', 'timedelta')]
    sub_leaves += [{'t': 'seq', 'k': k, 'e': {'t': 'int'}} for k in ('list', 'set', 'frozenset', 'deque')]
    sub_leaves += [{'t': 'dict', 'k': k, 'kt': {'t': 'str'}, 'vt': {'t': 'int'}} for k in ('dict', 'defaultdict', 'ordered')]
    sub_leaves += [{'t': 'vartuple', 'e': {'t': 'int'}}]
    si = 0
    for leaf in sub_leaves:
        for w in (None, 'list', 'dictval', 'opt', 'anypos'):
            if w == 'anypos':
                ty = {'t': 'any'}
            else:
                ty = leaf if w is None else gs.wrap(w, copy.deepcopy(leaf))
            if ty is None:
                continue
            root = gs.root([ty])
            val = gs.value(root)
            if w == 'anypos':
                gs2 = Gen(rs, {'subclasses': 1.0, 'tz_zoo': True})
                val['xs'][0] = gs2.value(leaf)
            for dt in ((None, 'TIMESTAMP') if leaf.get('k') in ('date', 'datetime') else (None,)):
                cases.append({'root': root, 'value': copy.deepcopy(val), 'cfg': {'xf': XFS[si % len(XFS)], 'dt': dt}, 'wizard': False,
                              'labels': {root['fields'][0]['name']: 'subclass:%s<%s>' % (w, leaf.get('k', leaf['t']))}, 'src': 'subclasses',
                              'subclasses': True, 'nomodel': True})
                si += 1
    # CatchAll declarations: unknown keys captured in a dict field come back under their own names; the values
    # (JSON containers, and non-JSON values put there by hand) must be encoded and fresh.  Not in the Coq model
    # (C10 owns catch-all): direct predicates only.
    r4 = ctx.sub_rng('catchall')
    for j in range(30 if ctx.tier == 'quick' else 300):
        g4 = Gen(r4, {'ext_names': 0.3})
        nf = r4.choice([1, 2, 3])
        tys = [g4.rand_type(r4.choice([0, 1, 2])) for _ in range(nf)]
        root = g4.root(tys, bases=['JSONWizard'] if j % 2 == 0 else [])
        ca = g4.name()
        root['fields'].insert(r4.randrange(len(root['fields']) + 1), {'name': ca, 'ty': {'t': 'any'}, 'alias': None, 'default': None, 'catchall': True})
        root['fields'].sort(key=lambda f: (f['default'] is not None) or bool(f.get('catchall')))
        val = g4.value(root)
        items = []
        for k in range(r4.choice([0, 1, 2, 3])):
            vt = r4.choice([{'t': 'seq', 'k': 'list', 'e': {'t': 'int'}}, {'t': 'dict', 'k': 'dict', 'kt': {'t': 'str'}, 'vt': {'t': 'seq', 'k': 'list', 'e': {'t': 'str'}}},
                            {'t': 'any'}, {'t': 'seq', 'k': 'set', 'e': {'t': 'int'}}, {'t': 'tok', 'k': 'datetime'}, {'t': 'tuple', 'es': [{'t': 'int'}, {'t': 'seq', 'k': 'list', 'e': {'t': 'int'}}]},
                            {'t': 'seq', 'k': 'list', 'e': {'t': 'dict', 'k': 'dict', 'kt': {'t': 'str'}, 'vt': {'t': 'int'}}}])
            items.append([{'v': 'str', 'x': 'zz%dUnknown' % k}, g4.value(vt)])
        ci = [i for i, f in enumerate(root['fields']) if f.get('catchall')][0]
        val['xs'][ci] = {'v': 'none'}
        cases.append({'root': root, 'value': val, 'cfg': {'xf': r4.choice(XFS), 'dt': None}, 'wizard': j % 2 == 0, 'labels': {}, 'src': 'catchall',
                      'catchall_items': {'v': 'dict', 'k': 'dict', 'kvs': items} if items or r4.random() < 0.5 else None, 'nomodel': True})
    rh = ctx.sub_rng('history')
    rd = ctx.sub_rng('declaxis')
    return [finish_case(c, rh, rd, i) for i, c in enumerate(cases)]


def strip(c):
    return {k: c[k] for k in ('root', 'value', 'cfg', 'wizard', 'pre_dump', 'catchall_items', 'nomodel', 'subclasses', 'wild_names', 'decl') if k in c}


def has_nested_data(ty, top=True):
    if ty['t'] == 'data' and not top:
        return True
    subs = [ty[k] for k in ('e', 'kt', 'vt') if k in ty] + list(ty.get('es', []))
    subs += [f['ty'] if isinstance(f, dict) else f[1] for f in ty.get('fields', [])]
    subs += [ft for _, ft in ty.get('req', []) + ty.get('opt', [])]
    return any(has_nested_data(s, False) for s in subs)


def has_auto_tag(ty):
    if ty.get('auto_tag'):
        return True
    subs = [ty[k] for k in ('e', 'kt', 'vt') if k in ty] + list(ty.get('es', []))
    subs += [f['ty'] if isinstance(f, dict) else f[1] for f in ty.get('fields', [])]
    subs += [ft for _, ft in ty.get('req', []) + ty.get('opt', [])]
    return any(has_auto_tag(s) for s in subs)


import re
LOWER_NAME = re.compile(r'^[a-z]+[0-9]*(_+[a-z]+[0-9]*)*$')


def has_wild_names(ty):
    w = ty['t'] == 'data' and any(not LOWER_NAME.match(f['name']) for f in ty['fields'])
    subs = [ty[k] for k in ('e', 'kt', 'vt') if k in ty] + list(ty.get('es', []))
    subs += [f['ty'] if isinstance(f, dict) else f[1] for f in ty.get('fields', [])]
    subs += [ft for _, ft in ty.get('req', []) + ty.get('opt', [])]
    return w or any(has_wild_names(x) for x in subs)


def finish_case(c, r, rd=None, index=0):
    """declaration-style and history axes shared by every stream: auto tags need the root setting; a class
    model with nested dataclasses is, half of the time, run with the history "members dumped alone first".
    (Only under the default key spelling: a member dumped alone caches ITS key spelling - open finding F10.)"""
    if has_auto_tag(c['root']):
        c['cfg']['auto_tags'] = True
    if has_nested_data(c['root']) and not c['cfg'].get('tag_key') and r.random() < 0.5:
        c['pre_dump'] = True
        if c['cfg'].get('xf') not in (None, 'CAMEL'):
            c['cfg']['xf'] = r.choice([None, 'CAMEL'])
    # DECLARATION axis: 40 % of the class models without a history get their configuration through a declaration form
    # (inner Meta / wizard base / base class with inner Meta / bind_to statements) instead of one LoadMeta(...).bind_to
    if rd is not None and not c.get('pre_dump') and c['src'] in ('systematic', 'random', 'random+subclasses') and rd.random() < 0.4:
        realise_decl(c, rd, index)
    if has_wild_names(c['root']) and (c['cfg'].get('xf') or 'CAMEL') != 'NONE':
        # leading/trailing underscores, capitals: outside the documented domain of the key transforms; there the
        # reference takes the KEY spelling from the library's conversion function (model == implementation is what is
        # required of it) and checks the values independently
        c['wild_names'] = True
    return c


def check_direct(c, res):
    """Direct predicates of C03 on the implementation's own output. Returns list of failure descriptions."""
    bad = []
    if 'setup_err' in res:
        return ['harness could not build the case: %s' % json.dumps(res['setup_err'])[:300]]
    if 'dump_err' in res:
        return ['asdict raised %s: %s' % (res['dump_err']['err'], res['dump_err'].get('msg'))]
    if 'ref_err' in res:
        bad.append('reference encoder failed: ' + res['ref_err'])
    elif not res.get('ref_ok'):
        bad.append('asdict(x) differs from the documented encoding')
    if not res.get('is_dict'):
        bad.append('asdict did not return a plain dict')
    if res.get('shared'):
        bad.append('result shares a mutable container with the instance')
    if not res.get('unchanged'):
        bad.append('instance changed by asdict/to_json')
    if res.get('scribble_ok') is False:
        bad.append('editing the result changed the instance (a container is shared)')
    if 'pre_dump_err' in res:
        bad.append('dumping a nested dataclass on its own raised %s' % res['pre_dump_err'].get('err'))
    if res.get('keys_scalar') and not res.get('json_ok'):
        bad.append('json.dumps rejects the result: %s' % res.get('json_err'))
    if c.get('wizard') and res.get('json_ok') and res.get('to_json_ok') is False:
        bad.append('to_json differs from json.dumps(asdict(x)): %s' % res.get('to_json_err'))
    if c.get('wizard') and res.get('json_ok') and res.get('list_to_json_ok') is False:
        bad.append('list_to_json differs from json.dumps of the dumped list')
    return bad


def live_pipeline_prelude(ctx):
    """`pl_live`: the pipeline parameter of CoreDumpConfig.v read from the tree under test by THIS run's own call of the
    translator harness/tables/CoreDumpBindOrder.py (the text it prints is what coq/gen/T_CoreDumpBindOrder.v holds; evaluating
    from the text keeps the correspondence independent of other runs rewriting the shared gen/ file while this one waits for
    the build lock).  Translator failing closed -> pl_live = None -> the model prints an error, never a pass."""
    import subprocess, os
    from lib import framework as fw
    try:
        p = subprocess.run([fw.PY, os.path.join(fw.VERIF, 'harness', 'tables', 'CoreDumpBindOrder.py')], capture_output=True, text=True,
                           timeout=120, env=fw.impl_env())
        txt = p.stdout if p.returncode == 0 else ''
    except subprocess.TimeoutExpired:
        txt = ''
    body = {}
    for name in ('init_subclass_steps_v0', 'meta_initializer_steps_v0', 'pywizard_key_transform_v0', 'default_dump_transform_v0', 'default_tag_key_v0'):
        m = re.search(r'Definition %s : [^:=]+ := (.*?)\.\n' % name, txt)
        if m:
            body[name] = m.group(1)
    if len(body) != 5:
        ctx.broken_tie('translator CoreDumpBindOrder failed closed on the tree under test (bind order of __init_subclass__ unreadable)')
        return 'Definition pl_live : option pipeline := None.\n'
    return ('Definition pl_live : option pipeline := pipeline_of_tables (%s) (%s) (%s) (%s) (%s).\n'
            % (body['init_subclass_steps_v0'], body['meta_initializer_steps_v0'], body['pywizard_key_transform_v0'],
               body['default_dump_transform_v0'], body['default_tag_key_v0']))


def run_declarations(ctx, resolved, prelude):
    """Stream A: every declaration form x setting in its OWN fresh interpreter (class source text at module level).
    Correspondence: configuration in force (dumper's transform, date mode, tag key, stored Meta) == CoreDumpConfig.show_config.
    Direct predicate: the dump of the probe class == the documented encoding under the DOCUMENTED configuration."""
    decls = gen_decls(ctx)
    progs = []
    B = 200
    for i in range(0, len(decls), B):
        progs.extend(ctx.impl('c03', {'decl_programs': [d for d, _ in decls[i:i + B]], 'jobs': 8})['programs'])
    exprs = ['show_config pl_live %s' % coq_decl(d) for d, _ in decls]
    model = None
    try:
        model = ctx.coq(exprs, imports=['CoreDumpConfig'], prelude=prelude, tag='declcfg')
    except Exception as e:
        ctx.broken_tie('model evaluation of the configuration pipeline failed: %s' % str(e)[:800])
    n_dis = 0
    for i, ((d, why), res) in enumerate(zip(decls, progs)):
        form = decl_form(d)
        doc = documented(d)
        ctx.count(1, key='decl|%s|%s' % (form, json.dumps([d.get('inner'), d.get('parent'), d.get('post'), d.get('key_case'), d.get('spell')], sort_keys=True)[:300]),
                  nontrivial=bool(all_binds(d)) or d.get('base') is not None)
        ctx.hist('declaration_form', form)
        ctx.hist('declaration_source', why)
        ctx.hist('declared_config', '%s/%s/%s' % (doc['xf'], doc['dt'], 'tag_key' if doc['tag_key'] != '__tag__' else '-'))
        ctx.hist('declaration_spelling', '%s/%s' % (d.get('spell'), d.get('meta_name')))
        bad = check_decl_direct(d, res)
        if bad:
            reg = decl_region(d)
            if reg and ctx.is_open_region(reg) and reg not in resolved and not res.get('err') and len(bad) == 1 and bad[0].startswith('asdict(x) differs'):
                ctx.hist('known_region', reg)
            else:
                ctx.violation('C03 direct predicate fails for a declared class: %s' % '; '.join(bad)[:600], {'kind': 'decl', 'decl': d, 'source': res.get('src')})
        if model is not None and not res.get('err'):
            ctx.traces_validated += 1
            obs = observed_config(d, res)
            if model[i] != obs:
                n_dis += 1
                ctx.disagreements_checked += 1
                if n_dis <= 5:
                    ctx.broken_tie('configuration pipeline model and implementation disagree on the configuration in force',
                                   {'decl': d, 'impl': obs, 'model': model[i], 'source': res.get('src')})
        if i < 2 or (why == 'random' and len(ctx.samples) < 3):
            ctx.sample({'declaration': form, 'documented': doc, 'impl_config': observed_config(d, res) if not res.get('err') else res.get('err'),
                        'model_config': model[i] if model else None, 'dump': res.get('items')})
    ctx.notes.append('declarations=%d (one interpreter each) config_disagreements=%d' % (len(decls), n_dis))


def run(ctx):
    # ---- listed findings: replay witnesses --------------------------------
    resolved = set()
    for f in ctx.findings('open'):
        w = f.get('witness')
        if w and w.get('kind') == 'case':
            res = ctx.impl('c03', {'cases': [w['case']]})['cases'][0]
            ctx.count(1, key='witness:' + f['id'])
            fails = bool(check_direct(w['case'], res))
            if not fails:
                resolved.add(f['id'])
            ctx.known_finding(f['id'], still_fails=fails)
        elif w and w.get('kind') == 'decl':
            res = ctx.impl('c03', {'decl_programs': [w['decl']]})['programs'][0]
            ctx.count(1, key='witness:' + f['id'])
            fails = bool(check_decl_direct(w['decl'], res))
            if not fails:
                resolved.add(f['id'])
            ctx.known_finding(f['id'], still_fails=fails)

    prelude = live_pipeline_prelude(ctx)
    run_declarations(ctx, resolved, prelude)

    cases = make_cases(ctx)
    B = 400
    results = []
    for i in range(0, len(cases), B):
        results.extend(ctx.impl('c03', {'cases': [strip(c) for c in cases[i:i + B]]})['cases'])

    # ---- model ---------------------------------------------------------------
    exprs, idx = [], []
    for i, (c, res) in enumerate(zip(cases, results)):
        if 'coq_v' in res:
            if c.get('decl') is not None:
                body = 'show_res (dump_decl dump_hooks_v0 pl_live %s %s)' % (coq_decl(c['decl']), res['coq_v'])
            else:
                body = 'show_res (dump dump_hooks_v0 %s %s)' % (coq_cfg(c['cfg']), res['coq_v'])
            exprs.append(''.join('let %s := %s in ' % (n, t) for n, t in res['lets']) + body)
            idx.append(i)
    model = {}
    try:
        import os
        from lib import coqrun
        # <= 6 coqc processes (memory), 50 expressions each: the expressions carry large literal terms
        outs = coqrun.coq_eval(exprs, ['CoreDump', 'T_CoreDumpHooks', 'CoreDumpConfig'], os.path.join(ctx.workdir, 'cases'),
                               prelude=prelude, jobs=6, timeout=900, shard=50)
        model = dict(zip(idx, outs))
    except Exception as e:
        ctx.broken_tie('model evaluation failed: %s' % str(e)[:800])

    # ---- compare ----------------------------------------------------------------
    n_dis = 0
    for i, (c, res) in enumerate(zip(cases, results)):
        fields = c['root']['fields']
        for f in fields:
            lab = c['labels'].get(f['name']) or ('rand:%d' % type_depth(f['ty']))
            ctx.count(1, key='%s|%s' % (lab, json.dumps(c['value']['xs'][fields.index(f)], sort_keys=True)[:200]),
                      nontrivial=nontrivial_type(f['ty']))
            h = {}
            type_stats(f['ty'], h)
            for k in h:
                ctx.hist('type_constructor', k)
            ctx.hist('field_depth', type_depth(f['ty']))
        ctx.hist('config', '%s/%s' % (c['cfg'].get('xf'), c['cfg'].get('dt')))
        ctx.hist('source', c['src'])
        ctx.hist('history', 'members-alone-first' if c.get('pre_dump') else 'owner-first')
        if c.get('decl') is not None:
            ctx.hist('declaration_form(class models)', decl_form(c['decl']))
        bad = check_direct(c, res)
        if subminute(c['value']):
            ctx.hist('subminute_offset_cases', c['src'])
        if bad:
            if in_f57(c) and ctx.is_open_region(F57) and bad == ['asdict(x) differs from the documented encoding']:
                ctx.hist('known_region', F57)
            elif c.get('decl') is not None and decl_region(c['decl']) and ctx.is_open_region(decl_region(c['decl'])) \
                    and decl_region(c['decl']) not in resolved and bad == ['asdict(x) differs from the documented encoding']:
                ctx.hist('known_region', decl_region(c['decl']))
            else:
                ctx.violation('C03 direct predicate fails: %s' % '; '.join(bad), {'kind': 'case', 'case': strip(c)})
        if i in model:
            ctx.traces_validated += 1
            if 'show_dump' in res and model[i] != res['show_dump']:
                n_dis += 1
                ctx.disagreements_checked += 1
                if n_dis <= 5:
                    ctx.broken_tie('dump model and asdict disagree', {'case': strip(c), 'impl': res['show_dump'][:1500], 'model': model[i][:1500]})
            elif 'dump_err' in res and not model[i].startswith('!'):
                n_dis += 1
                ctx.broken_tie('asdict raised but the model dumps', {'case': strip(c), 'impl': res['dump_err'], 'model': model[i][:500]})
        if i < 3 or (c['src'] == 'random' and len(ctx.samples) < 5):
            ctx.sample({'class': c['root']['name'], 'fields': [(f['name'], c['labels'].get(f['name'])) for f in fields][:4],
                        'cfg': c['cfg'], 'impl_dump': res.get('show_dump', '')[:160], 'model_dump': model.get(i, '')[:160]})
    ctx.notes.append('cases=%d model_evaluated=%d disagreements=%d' % (len(cases), len(model), n_dis))


def replay(ctx, obj):
    if obj.get('kind') == 'case':
        res = ctx.impl('c03', {'cases': [obj['case']]})['cases'][0]
        bad = check_direct(obj['case'], res)
        print('asdict -> %s' % (res.get('show_dump') or res.get('dump_err') or res.get('setup_err')))
        print('direct predicates: %s' % ('; '.join(bad) if bad else 'all hold'))
        return not bad
    if obj.get('kind') == 'decl':
        res = ctx.impl('c03', {'decl_programs': [obj['decl']]})['programs'][0]
        bad = check_decl_direct(obj['decl'], res)
        print(res.get('src', ''))
        print('asdict -> %s' % (res.get('items') if not res.get('err') else res))
        print('documented configuration: %s' % json.dumps(documented(obj['decl'])))
        print('direct predicates: %s' % ('; '.join(bad) if bad else 'all hold'))
        return not bad
    print('replay object names a broken tie, not an input: %s' % json.dumps(obj)[:1500])
    return False
