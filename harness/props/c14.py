"""C14 — v1 load failures are library errors that render and name the innermost class and field.

Theorems: coq/props/C14.v.  Malformed stream: well-typed JSON documents of v1 classes nested to
depth 3 with ONE position replaced by junk (null, bool, huge int, nan, inf, '', list, object,
wrong-arity list) or one required key removed.  Direct predicates on every failing load: the
exception derives from JSONWizardError, str(e) does not raise, and (class_name, field_name) is the
innermost (class, field) on the path to the junk, as computed by an independent Python locator that
knows only the class definitions and the path of the mutation.  Correspondence: the same loads on
the Gallina model (generated code, specification, Coq locator).
"""
import json, base64, datetime, copy, os
from props import c02gen as G
from props import c02 as C2
from props.c02gen import leaf, seq, tup, dct, opt, union, lit, data

META = {
    'id': 'C14',
    'title': 'v1 load failures are library errors that render and name the class and field',
    'level': 'proof',
    'technique': ('Coq proof (induction on nesting budget and on the type grammar) on a hand-written Gallina model of the '
                  'generated dataclass function, re_raise and the once-only error setters + differential correspondence '
                  'with the implementation on a malformed-document stream'),
    'design_ref': 'DESIGN.md section 4 C14',
    'theorems': ['C14_library_error', 'C14_library_error_code_partial', 'C14_setters_once', 'C14_innermost_partial',
                 'C14_refuted_F24'],
    'tables': [],
    'level_text': ('Proved in Coq for ALL class tables / documents / budgets: a failing load of a known class is a '
                   'JSONWizardError-derived error; and for dict-shaped documents in which every dataclass-typed position '
                   'holds None or a dict, the (class_name, field_name) the error ends up with after all nested re_raise calls '
                   '(once-only setters) equals the innermost (class, field) found top-down by an independent locator. '
                   'Outside that shape the statement is refuted (F24). Message rendering (str(e)) is tested, not proved.'),
    'level_note': ('Trusted: Coq kernel; the model of the statement skeleton of the generated dataclass function '
                   '(v1/loaders.py:1092-1288), re_raise (1340-1372) and errors.py setters; leaf conversions as an oracle whose '
                   'failures are ordinary exceptions (hypothesis, audited on every run); the harness.'),
    'rule': ('class models nested to depth 3 through direct fields, list, dict values, Optional and fixed tuples; for each, '
             'one well-typed document and every single-position mutation from the junk list at a sample of positions '
             '(22 per model quick, 30 thorough; 5 resp. all 13 junk values), plus removal of each required key. Non-trivial: the junk lies inside a '
             'nested class (depth >= 2); distinct = distinct (model, path, junk).'),
    'trusted_base': ['message renderers (errors.py message properties, safe_dumps) are exercised on every failing load but not modelled'],
    'assumptions': ['JSON documents with string keys', 'strings in the malformed stream are ASCII (the model iterates bytes)', 'attribution is claimed for the ParseError family (class and field) and for '
                    'MissingFields (class and missing names); MissingFields.field_name is not claimed (plain attribute, outermost)',
                    'a top-level None document raises MissingData with class_name None (nested_class_name names the class)'],
}

REGION_ID = {'F24': 'F24-v1-nondict-attribution'}
JUNK = [['N'], ['B', True], ['I', str(10 ** 30)], ['F', 'nan'], ['F', 'inf'], ['S', ''], ['L', []],
        ['L', [['I', '1'], ['I', '2'], ['I', '3']]], ['D', None, []], ['D', None, [[['S', 'zzz'], ['I', '1']]]],
        ['S', 'junk'], ['I', '-7'], ['F', (1.5).hex()], ['L', [['S', 'x']]]]


# ---------------------------------------------------------------------------------- reference wire format
def _td_str(tok):
    d, s, us = (int(x) for x in tok.split(','))
    return str(datetime.timedelta(days=d, seconds=s, microseconds=us))


def dump_doc(v, t, model):
    """JSON document of a conforming value (transcribed from the documented wire encoding)"""
    k = t['k']
    if k == 'leaf':
        l = t['l']
        if v[0] == 'Y' or v[0] == 'A':
            return ['S', base64.b64encode(bytes.fromhex(v[1])).decode()]
        if v[0] == 'O':
            tok = v[2]
            if l == 'uuid':
                return ['S', tok.replace('-', '')]
            if l in ('decimal', 'path', 'date'):
                return ['S', tok]
            if l in ('time', 'datetime'):
                return ['S', tok.replace('+00:00', 'Z', 1)]
            if l == 'timedelta':
                return ['S', _td_str(tok)]
            if l.startswith('enum:'):
                val = dict(G.ENUMS[l[5:]])[tok]
                return ['I', str(val)] if isinstance(val, int) else ['S', val]
        return v
    if k == 'seq':
        return ['L', [dump_doc(x, t['t'], model) for x in v[1]]]
    if k == 'tuple':
        return ['L', [dump_doc(x, tt, model) for x, tt in zip(v[1], t['ts'])]]
    if k == 'dict':
        return ['D', None, [[dump_doc(kk, t['kt'], model), dump_doc(x, t['vt'], model)] for kk, x in v[2]]]
    if k == 'opt':
        return v if v == ['N'] else dump_doc(v, t['t'], model)
    if k in ('lit', 'union'):
        return v
    if k == 'named':
        return ['L', [dump_doc(x, tt, model) for x, (_, tt) in zip(v[2], model['named'][t['name']])]]
    if k == 'typed':
        d = model['typed'][t['name']]
        tys = dict((key, tt) for key, tt in d['req'] + d['opt'])
        return ['D', None, [[kk, dump_doc(x, tys[kk[1]], model)] for kk, x in v[2]]]
    if k == 'data':
        cd = model['classes'][t['c']]
        tys = {f['name']: f['ty'] for f in cd['fields']}
        return ['D', None, [[['S', n], dump_doc(x, tys[n], model)] for n, x in v[2]]]
    raise ValueError(k)


# ---------------------------------------------------------------------------------- positions
def positions(t, doc, model, frames, path, out, depth):
    """every node of the document with its annotation and the (class, field) frames above it"""
    out.append({'path': list(path), 'frames': list(frames), 'ty': t, 'depth': depth})
    k = t['k']
    if k == 'seq' and doc[0] == 'L':
        for i, x in enumerate(doc[1]):
            positions(t['t'], x, model, frames, path + [['idx', i]], out, depth)
    elif k == 'tuple' and doc[0] == 'L':
        for i, (x, tt) in enumerate(zip(doc[1], t['ts'])):
            positions(tt, x, model, frames, path + [['idx', i]], out, depth)
    elif k == 'dict' and doc[0] == 'D':
        for i, (kk, x) in enumerate(doc[2]):
            positions(t['vt'], x, model, frames, path + [['val', i]], out, depth)
    elif k == 'opt' and doc != ['N']:
        # same node, inner annotation: do not duplicate the position
        out.pop()
        positions(t['t'], doc, model, frames, path, out, depth)
    elif k == 'named' and doc[0] == 'L':
        for i, (x, (_, tt)) in enumerate(zip(doc[1], model['named'][t['name']])):
            positions(tt, x, model, frames, path + [['idx', i]], out, depth)
    elif k == 'typed' and doc[0] == 'D':
        d = model['typed'][t['name']]
        tys = dict((key, tt) for key, tt in d['req'] + d['opt'])
        for i, (kk, x) in enumerate(doc[2]):
            positions(tys[kk[1]], x, model, frames, path + [['val', i]], out, depth)
    elif k == 'data' and doc[0] == 'D':
        cd = model['classes'][t['c']]
        tys = {f['name']: f['ty'] for f in cd['fields']}
        for i, (kk, x) in enumerate(doc[2]):
            positions(tys[kk[1]], x, model, frames + [[cd['name'], kk[1]]], path + [['val', i]], out, depth + 1)


def mutate(doc, path, junk):
    d = copy.deepcopy(doc)
    if not path:
        return junk
    cur = d
    for step in path[:-1]:
        cur = cur[1][step[1]] if step[0] == 'idx' else cur[2][step[1]][1]
    last = path[-1]
    if last[0] == 'idx':
        cur[1][last[1]] = junk
    else:
        cur[2][last[1]][1] = junk
    return d


def delete_key(doc, path, i):
    d = copy.deepcopy(doc)
    cur = d
    for step in path:
        cur = cur[1][step[1]] if step[0] == 'idx' else cur[2][step[1]][1]
    del cur[2][i]
    return d


def dc_shape(t, v, model, depth=0):
    """every value at a dataclass-typed position (reached with Python's iteration / indexing
    semantics) is None or a dict — the region predicate of F24 (mirror of dc_shape_n in V1Eval.v)"""
    if v is None or depth > 60:
        return True
    k = t['k']
    if k == 'seq':
        it = G.py_iter(v)
        return True if it is None else all(dc_shape(t['t'], x, model, depth + 1) for x in it)
    if k == 'tuple':
        return all(dc_shape(tt, G.py_index(v, i), model, depth + 1) for i, tt in enumerate(t['ts']))
    if k == 'dict':
        return True if v[0] != 'D' else all(dc_shape(t['kt'], kk, model, depth + 1) and dc_shape(t['vt'], x, model, depth + 1)
                                            for kk, x in v[2])
    if k == 'opt':
        return dc_shape(t['t'], v, model, depth)
    if k == 'data':
        if v == ['N']:
            return True
        if v[0] != 'D':
            return False
        cd = model['classes'][t['c']]
        return all(dc_shape(f['ty'], G.py_index(v, f['name']), model, depth + 1) for f in cd['fields'])
    return True


def expectation(pos, junk, model, root_name):
    """Independent reference: what a FAILING load must report.  -> dict(kind set, cls, fld, region)"""
    t = pos['ty']
    while t['k'] == 'opt':
        t = t['t']
    fr = pos['frames'][-1] if pos['frames'] else None
    if t['k'] == 'data':
        cname = model['classes'][t['c']]['name']
        if junk == ['N']:
            return {'kinds': ['D'], 'cls': fr[0] if fr else None, 'fld': fr[1] if fr else None}
        if junk[0] != 'D':
            return {'kinds': ['P'], 'cls': fr[0] if fr else cname, 'fld': fr[1] if fr else None, 'region': 'F24'}
        return {'kinds': ['M'], 'cls': cname}
    if fr is None:
        return None
    if t['k'] == 'named':
        return {'kinds': ['P', 'D'], 'cls': fr[0], 'fld': fr[1], 'alt': {'kinds': ['M'], 'cls': t['name']}}
    return {'kinds': ['P', 'D'], 'cls': fr[0], 'fld': fr[1]}


# ---------------------------------------------------------------------------------- models
def nest_ctx(r, t):
    """wrap a dataclass reference into a container position"""
    c = r.choice(['id', 'id', 'list', 'dictv', 'opt', 'tup', 'optlist', 'listlist'])
    if c == 'list':
        return seq('list', t)
    if c == 'dictv':
        return dct(leaf('str'), t)
    if c == 'opt':
        return opt(t)
    if c == 'tup':
        return tup(leaf('int'), t)
    if c == 'optlist':
        return opt(seq('list', t))
    if c == 'listlist':
        return seq('list', seq('list', t))
    return t


LEAFY = ['int', 'str', 'float', 'bool', 'date', 'datetime', 'time', 'timedelta', 'uuid', 'decimal', 'bytes', 'enum:Color', 'enum:Num', 'path']


def leafy_type(r, mb, allow_helpers=True):
    l = leaf(r.choice(LEAFY))
    c = r.choice(['id', 'id', 'id', 'list', 'dictv', 'opt', 'tup', 'set', 'lit', 'union', 'unionc', 'typed', 'named', 'deque'])
    if c == 'list':
        return seq('list', l)
    if c == 'deque':
        return seq('deque', l)
    if c == 'set':
        return seq('set', l)
    if c == 'dictv':
        return dct(leaf('str'), l)
    if c == 'opt':
        return opt(l)
    if c == 'tup':
        return tup(l, leaf('str'))
    if c == 'lit':
        return lit('a', 'b', 3)
    if c == 'union':
        return union(leaf('int'), leaf('str'))
    if c == 'unionc':      # F47: a container member next to `str`
        return union(seq('list', leaf('int')), leaf('str'))
    if c == 'typed' and allow_helpers:
        return mb.typed([('rk', l)], [('ok', leaf('int'))])
    if c == 'named' and allow_helpers:
        return mb.named([('aa', l), ('bb', leaf('int'))])
    return l


def build_models(ctx):
    r = ctx.sub_rng('models')
    n = 14 if ctx.tier == 'quick' else 30
    out = []
    for mi in range(1, n + 1):
        mb = C2.MB(mi)
        mb.cls([])     # root B (index 0)

        def fields(k, extra):
            fs = [[G.FIELD_NAMES[j], leafy_type(r, mb)] for j in range(k)] + extra
            r.shuffle(fs)
            return fs

        d_idx = mb.cls(fields(r.choice([1, 2, 3]), []), name='Inner%dD' % mi)
        c_idx = mb.cls(fields(r.choice([1, 2]), [['my_dd', nest_ctx(r, data(d_idx))]]), name='Mid%dC' % mi)
        bf = fields(r.choice([1, 2]), [['the_cc', nest_ctx(r, data(c_idx))]])
        # a defaulted tail on the root and on D
        mb.m['classes'][0]['fields'] = [{'name': a, 'ty': b, 'default': None} for a, b in bf] + \
                                       [{'name': 'opt_num', 'ty': leaf('int'), 'default': 'int0'}]
        mb.m['classes'][d_idx]['fields'].append({'name': 'note', 'ty': leaf('str'), 'default': 'str0'})
        mb.m['classes'][0]['name'] = 'Root%dB' % mi
        out.append(mb)
    return out


RESOLVED = set()


def ascii_tree(t):
    """The model's strings are byte lists: iterating a str yields bytes, Python yields characters.
    Documents of the malformed stream (where strings do get iterated) are kept ASCII."""
    if isinstance(t, list):
        if len(t) == 2 and t[0] == 'S' and isinstance(t[1], str):
            return ['S', t[1].encode('ascii', 'replace').decode()]
        return [ascii_tree(x) for x in t]
    return t


def run(ctx):
    # listed findings first: a resolved finding's region is checked like any other input and the
    # faithful-to-the-defect model is not compared inside it
    RESOLVED.clear()
    id_region = {v: k for k, v in REGION_ID.items()}
    for f in ctx.findings('open'):
        w = f.get('witness')
        if w and w.get('kind') == 'doc':
            fails = not replay(ctx, w, quiet=True)
            ctx.known_finding(f['id'], still_fails=fails)
            if not fails and f['id'] in id_region:
                RESOLVED.add(id_region[f['id']])
    mbs = build_models(ctx)
    r = ctx.sub_rng('docs')
    quick = ctx.tier == 'quick'
    plans = []          # per model: list of (kind, pos, junk, expectation)
    for mb in mbs:
        m = mb.m
        m['json'] = False
        # a well-populated instance (no empty containers on the path to nested classes)
        inst = None
        for attempt in range(30):
            cand = ascii_tree(C2.gen_inst(ctx.sub_rng('inst', mb.mi, attempt), 0, m))
            doc = dump_doc(cand, data(0), m)
            ps = []
            positions(data(0), doc, m, [], [], ps, 0)
            if max(p['depth'] for p in ps) >= 3:
                inst = cand
                break
        if inst is None:
            inst = cand
        m['instances'] = [inst]
        plan = []
        chosen = r.sample(ps, min(len(ps), 22 if quick else 30))
        for pos in chosen:
            junks = JUNK if not quick else r.sample(JUNK, 5)
            for junk in junks:
                plan.append(('junk', pos, junk, expectation(pos, junk, m, m['classes'][0]['name'])))
            if pos['ty']['k'] in ('tuple', 'named'):      # wrong arity: one element short / one too many
                cur = doc
                for step in pos['path']:
                    cur = cur[1][step[1]] if step[0] == 'idx' else cur[2][step[1]][1]
                if cur[0] == 'L' and cur[1]:
                    plan.append(('arity-', pos, ['L', cur[1][:-1]], expectation(pos, ['L', []], m, None)))
                    plan.append(('arity+', pos, ['L', cur[1] + [['I', '9']]], expectation(pos, ['L', []], m, None)))
        # removal of each key of each class document
        for pos in ps:
            if pos['ty']['k'] == 'data':
                cd = m['classes'][pos['ty']['c']]
                cur = doc
                for step in pos['path']:
                    cur = cur[1][step[1]] if step[0] == 'idx' else cur[2][step[1]][1]
                for i, (kk, _) in enumerate(cur[2]):
                    f = [f for f in cd['fields'] if f['name'] == kk[1]][0]
                    if f['default'] is None and (not quick or r.random() < 0.5):
                        plan.append(('delete', pos, i, {'kinds': ['M'], 'cls': cd['name'], 'names': [kk[1]]}))
        m['docs'] = [doc] + [delete_key(doc, p['path'], j) if kind == 'delete' else mutate(doc, p['path'], j)
                             for kind, p, j, _ in plan]
        plans.append((doc, plan))

    impl = ctx.impl('c14', {'models': [mb.m for mb in mbs]}, timeout=900)['models']

    # ---- model side: one prelude per model (class table + oracle table), documents in small shards
    model_ok, mres = True, {}
    try:
        shards, index = [], []
        for mi, (mb, res) in enumerate(zip(mbs, impl)):
            if res.get('setup_err') or res.get('gen_err'):
                continue
            pre = 'Definition ct : ctable := %s.\nDefinition tb : list oentry := %s.' % (
                G.coq_ct(mb.m, res['keys']), G.coq_oracle([(l, o, v, a) for l, o, v, a in res['oracle']]))
            ex = ['case_load tb ct %d 0 %s' % (C2.BUDGET, G.coq_pv(d)) for d in mb.m['docs']]
            SH = 40
            for i in range(0, len(ex), SH):
                shards.append((pre, ex[i:i + SH]))
                index.append([(mi, di) for di in range(i, min(i + SH, len(ex)))])
        outs = G.coq_shards(os.path.join(ctx.workdir, 'cases'), C2.IMPORTS, shards,
                            jobs=8 if ctx.tier == 'quick' else 10, timeout=900)
        for idx, out in zip(index, outs):
            for (mi, di), o in zip(idx, out):
                parts = o.split('#')
                mres[(mi, di)] = {'code': G.parse_res(parts[0], mbs[mi].m), 'spec': G.parse_res(parts[1], mbs[mi].m),
                                  'loc': G.parse_attr(parts[2]), 'shape': parts[3] == 'shape'}
    except Exception as e:
        model_ok = False
        ctx.broken_tie('model evaluation failed: %s' % str(e)[:800])

    n_dis = 0
    for mi, (mb, res, (doc, plan)) in enumerate(zip(mbs, impl, plans)):
        m = mb.m
        if res.get('setup_err') or res.get('gen_err'):
            ctx.broken_tie('harness could not set up C14 model %d' % mi, res.get('setup_err') or res.get('gen_err'))
            continue
        # oracle audit: leaf conversions fail with ordinary exceptions (hypothesis of C14_innermost)
        for l, o, v, a in res['oracle']:
            if 'err' in a and a['err'] in ('ParseError', 'MissingFields', 'MissingData', 'UnknownKeysError'):
                ctx.broken_tie('oracle hypothesis violated: leaf loader %s raised a library error' % l, {'value': v, 'answer': a})
        base = res['docs'][0]
        if 'ok' not in base:
            ctx.violation('a well-typed document does not load: %s' % base.get('err'),
                          {'kind': 'doc', 'model': {**m, 'docs': [doc], 'instances': []}, 'expect': None})
        for pi, (kind, pos, junk, exp) in enumerate(plan):
            di = pi + 1
            out = res['docs'][di]
            d = m['docs'][di]
            nontriv = pos['depth'] >= 2
            ctx.count(1, key='d:%d|%s|%s|%s' % (mi, json.dumps(pos['path']), kind, json.dumps(junk)[:80]), nontrivial=nontriv)
            ctx.hist('junk', kind if kind != 'junk' else junk[0] + (':' + str(junk[1])[:6] if len(junk) > 1 and junk[0] in 'FB' else ''))
            ctx.hist('position_type', pos['ty']['k'])
            ctx.hist('depth', pos['depth'])
            rp = {'kind': 'doc', 'model': {**m, 'docs': [d], 'instances': []}, 'expect': exp,
                  'what': '%s at %s' % (kind, json.dumps(pos['path']))}
            if 'build_err' in out:
                ctx.broken_tie('harness could not build a document', out['build_err'])
                continue
            if 'ok' in out:
                ctx.hist('outcome', 'loads')
            else:
                ctx.hist('outcome', out['err'])
                bad = check_error(out, exp)
                if bad:
                    reg = (exp or {}).get('region') or (None if dc_shape(data(0), d, m) else 'F24')
                    if reg and reg not in RESOLVED and ctx.is_open_region(REGION_ID[reg]) and out.get('lib') and out.get('renders'):
                        ctx.hist('known_region', reg)
                    else:
                        ctx.violation('%s (junk %s at %s)' % (bad, json.dumps(junk)[:60], json.dumps(pos['path'])), rp)
            # ---- correspondence
            if model_ok and (mi, di) in mres and not ('F24' in RESOLVED and not dc_shape(data(0), d, m)):
                mr = mres[(mi, di)]
                ctx.traces_validated += 1
                if 'marker' in mr['code']:
                    ctx.broken_tie('model budget / oracle table exhausted', {'doc': d, 'model': mr['code']})
                elif not C2.same_outcome(mr['code'], out):
                    n_dis += 1
                    ctx.disagreements_checked += 1
                    if n_dis <= 5:
                        ctx.broken_tie('generated-code model and implementation disagree on a malformed document',
                                       {'model': mr['code'], 'impl': {k: v for k, v in out.items() if k not in ('msg', 'mro')}, 'doc': d})
                # the Coq locator agrees with the independent Python locator inside the proved region
                if 'lib' in mr['spec'] and mr['shape'] and dc_shape(data(0), d, m) and exp and not exp.get('region') and not _has_named(m) \
                        and mr['spec']['lib'] in ('P', 'D') and mr['loc'] is not None:
                    if [exp.get('cls'), exp.get('fld')] != mr['loc'] and exp['kinds'] != ['M']:
                        ctx.broken_tie('Coq locate and the Python reference locator disagree',
                                       {'coq': mr['loc'], 'python': [exp.get('cls'), exp.get('fld')], 'doc': d})
        if mi == 0:
            ctx.sample({'classes': [(c['name'], [(f['name'], G.py_ann(f['ty'], m)) for f in c['fields']]) for c in m['classes']],
                        'document': doc, 'first_mutation': {'path': plan[0][1]['path'], 'junk': plan[0][2], 'expect': plan[0][3],
                                                            'impl': {k: v for k, v in res['docs'][1].items() if k in ('err', 'lib', 'cls', 'fld', 'renders')}}})



def _has_named(m):
    return bool(m['named'])


def check_error(out, exp):
    """direct predicate on a failing load; None if it holds"""
    if not out.get('lib'):
        return 'load raised %s, which is not a JSONWizardError (mro %s)' % (out['err'], out.get('mro'))
    if not out.get('renders'):
        return 'str(e) raised %s' % out.get('render_err')
    if exp is None:
        return None
    for e in [exp] + ([exp['alt']] if exp.get('alt') else []):
        if out.get('kind') in e['kinds']:
            if out.get('cls') != e.get('cls'):
                continue
            if out['kind'] in ('P', 'D') and out.get('fld') != e.get('fld'):
                continue
            if out['kind'] == 'M' and e.get('names') and not set(e['names']) <= set(out.get('names') or []):
                continue
            return None
    return 'error %s names (class %r, field %r, missing %r), expected %s (class %r, field %r)' % (
        out['err'], out.get('cls'), out.get('fld'), out.get('names'), '/'.join(exp['kinds']), exp.get('cls'), exp.get('fld'))


def replay(ctx, obj, quiet=False):
    if obj.get('kind') != 'doc':
        print('replay object names a broken tie, not an input: %s' % json.dumps(obj)[:1500])
        return False
    res = ctx.impl('c14', {'models': [obj['model']]})['models'][0]
    if res.get('setup_err'):
        if not quiet:
            print('setup error: %s' % res['setup_err'])
        return False
    ok = True
    for d, out in zip(obj['model']['docs'], res['docs']):
        if 'ok' in out:
            msg = 'loads'
            if obj.get('expect') is None and obj.get('what') is None:
                pass
        else:
            bad = check_error(out, obj.get('expect'))
            msg = bad or 'raises %s naming (%r, %r) as expected' % (out['err'], out.get('cls'), out.get('fld'))
            if bad:
                ok = False
        if not quiet:
            print('%s: %s' % (obj.get('what', 'document'), msg))
    return ok
