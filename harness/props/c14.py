"""C14 — v1 load failures are library errors that render and name the innermost class and field.

Theorems: coq/props/C14.v.  Malformed stream: well-typed JSON documents of v1 classes nested to
depth 3 — through direct fields, list, dict values, Optional, fixed tuples, NamedTuple fields,
TypedDict keys and tagged Unions — under every v1_key_case, with ONE mutation each:
  value-level: a position replaced by junk (null, bool, huge int, nan, inf, '', lists, objects),
               wrong-arity lists for tuples / NamedTuples;
  key-level:   a key re-spelled (another casing of the expected key, a near miss), removed, or an
               extra key added.
Direct predicates on every failing load, whatever its kind: the exception derives from
JSONWizardError, str(e) does not raise, and (class_name, field_name) is the innermost (class, field)
on the path to the mutation, as computed by an independent Python locator that knows only the class
definitions and the path of the mutation.  Correspondence: the same loads on the Gallina model
(generated code, specification, Coq locator).
Call histories (coq/model/V1ErrHist.v; runner harness/impl/c14x.py): the malformed stream is run
again AFTER systematically generated prefixes — each nested class not loaded / loaded alone by the
default engine / bound to v1 and loaded alone / given a non-v1 Meta of its own, another root (v1
recursive, v1 recursive=False, default engine) used first, the root itself used early, in both
orders — x Meta.recursive in {True, False} x nesting depth 1..3 x container position.  Direct
predicate: the outcome (library error, str(e) renders, kind, class_name, field_name, obj, missing
names) equals that of the same load in a pristine interpreter and names the innermost frame of the
independent locator; correspondence: engine and outcome of every operation vs. the history machine.
"""
import json, base64, datetime, copy, os
from props import c02gen as G
from props import c02 as C2
from props.c02gen import leaf, seq, tup, dct, opt, union, lit, data

META = {
    'id': 'C14',
    'title': 'v1 load failures are library errors that render and name the class and field',
    'level': 'proof',
    'technique': ('Coq proof (induction on nesting budget and on the type grammar; invariant over call histories) on a '
                  'hand-written Gallina model of the generated dataclass function, re_raise, the once-only error setters and '
                  'the function table / Meta state shared by both engines + differential correspondence with the '
                  'implementation on a malformed-document stream, also after systematically generated call histories'),
    'design_ref': 'DESIGN.md section 4 C14',
    'theorems': ['C14_library_error', 'C14_library_error_code_partial', 'C14_setters_once', 'C14_innermost_partial',
                 'C14_refuted_F24', 'C14_refuted_F50',
                 'C14_history_independent', 'C14_hist_library_error', 'C14_hist_innermost_partial',
                 'C14_hist_engine_first_use', 'C14_shortcut_resolver_refuted'],
    'tables': [],
    'level_text': ('Proved in Coq for ALL class tables / documents / budgets: a failing load of a known class is a '
                   'JSONWizardError-derived error; and for dict-shaped documents in which every dataclass-typed position '
                   'holds None or a dict, the (class_name, field_name) the error ends up with after all nested re_raise calls '
                   '(once-only setters) equals the innermost (class, field) found top-down by an independent locator — '
                   'through list / dict / tuple / Optional / NamedTuple positions to any depth. '
                   'Outside that shape the statement is refuted (F24); below a TypedDict the inner attribution is lost (F50, '
                   'refuted). Over ALL call histories (any sequence of LoadMeta(v1, recursive).bind_to and fromdict on any '
                   'classes, either engine, the default engine an arbitrary function): a load executed by a v1-compiled '
                   'function computes exactly what it computes in the pristine state, so both statements hold after every '
                   'history; which engine executes a load is decided by the Meta at the FIRST load of the class. With a nested '
                   'position that re-uses the shared table entry instead of generating (the shortcut resolver) the statements '
                   'are refuted. Message rendering (str(e)) is tested on every failing load, not proved.'),
    'level_note': ('Trusted: Coq kernel; the model of the statement skeleton of the generated dataclass function '
                   '(v1/loaders.py:1092-1288), re_raise (1340-1372) and errors.py setters; leaf conversions as an oracle whose '
                   'failures are ordinary exceptions (hypothesis, audited on every run); the model of fromdict / '
                   'CLASS_TO_LOAD_FUNC / _META (loader_selection.py:11-33, bases_meta.py:213-221) and of what a nested dataclass '
                   'position of a v1 function calls (v1/loaders.py:709-713, 811-814: always a freshly generated function), '
                   're-validated on every run (engine and outcome of every operation of every generated history); the harness.'),
    'rule': ('class models nested to depth 3 through direct fields, list, dict values, Optional, fixed tuples, NamedTuple '
             'fields, TypedDict keys, tagged Unions; every v1_key_case (as-is, CAMEL, PASCAL, KEBAB, SNAKE, AUTO); one '
             'well-typed document each; single mutations: junk values at a sample of positions (22 per model quick, 30 '
             'thorough; 5 resp. all junk values), wrong arity, every key re-spelled / removed, an extra key. '
             'Non-trivial: the mutation lies inside a nested class (depth >= 2); distinct = distinct (model, path, mutation). '
             'Histories: 5 (quick) / 13 (thorough) further models (depth 1..3, 13 container positions in rotation, as-is keys); '
             'per model up to 60 / 100 prefixes (all single operations, sampled combinations and orders) x recursive in '
             '{True, False} x ~25-45 mutated documents; non-trivial there: non-empty prefix and mutation at depth >= 2.'),
    'trusted_base': ['message renderers (errors.py message properties, safe_dumps) are exercised on every failing load but not modelled',
                     'tagged Unions of dataclasses are not in the Gallina model: those models run the direct predicates only',
                     'history machine: Meta = (v1, recursive) only; key case / alias tables of nested classes are not part of the '
                     'state (F10, property C07): history models use as-is keys',
                     'the default engine is abstract in the history theorems; loads executed by a default-engine function are '
                     'compared by engine only'],
    'assumptions': ['JSON documents with string keys', 'strings in the malformed stream are ASCII (the model iterates bytes)',
                    'attribution is claimed for the ParseError family (class and field) and for '
                    'MissingFields (class and missing names); MissingFields.field_name is not claimed (plain attribute, outermost)'],
}

REGION_ID = {'F24': 'F24-v1-nondict-attribution', 'F50': 'F50-v1-typeddict-wraps-inner-error',
             'F51': 'F51-v1-tag-check-before-field', 'F54': 'F54-v1-toplevel-missingdata-no-class'}
JUNK = [['N'], ['B', True], ['I', str(10 ** 30)], ['F', 'nan'], ['F', 'inf'], ['S', ''], ['L', []],
        ['L', [['I', '1'], ['I', '2'], ['I', '3']]], ['D', None, []], ['D', None, [[['S', 'zzz'], ['I', '1']]]],
        ['S', 'junk'], ['I', '-7'], ['F', (1.5).hex()], ['L', [['S', 'x']]],
        ['I', '0'], ['B', False], ['F', (0.0).hex()]]      # every falsy value of every JSON type is in the list
KEY_CASES = [None, 'CAMEL', 'PASCAL', 'KEBAB', 'SNAKE', 'AUTO']


from props.c02gen import spellings, doc_key, field_of_key, maybe_accepted, dump_doc, TAG_KEY


# ---------------------------------------------------------------------------------- positions
def positions(t, doc, model, frames, path, out, depth, under_td=False, f50=False):
    """every node of the document with its annotation and the (class, field) frames above it.
    f50: the node lies inside (or is) a dataclass document that is below a TypedDict."""
    here = {'path': list(path), 'frames': list(frames), 'ty': t, 'depth': depth, 'f50': f50}
    out.append(here)
    k = t['k']
    if k == 'seq' and doc[0] == 'L':
        for i, x in enumerate(doc[1]):
            positions(t['t'], x, model, frames, path + [['idx', i]], out, depth, under_td, f50)
    elif k == 'tuple' and doc[0] == 'L':
        for i, (x, tt) in enumerate(zip(doc[1], t['ts'])):
            positions(tt, x, model, frames, path + [['idx', i]], out, depth, under_td, f50)
    elif k == 'dict' and doc[0] == 'D':
        for i, (kk, x) in enumerate(doc[2]):
            positions(t['vt'], x, model, frames, path + [['val', i]], out, depth, under_td, f50)
    elif k == 'opt' and doc != ['N']:
        out.pop()      # same node, inner annotation: do not duplicate the position
        positions(t['t'], doc, model, frames, path, out, depth, under_td, f50)
    elif k == 'union' and doc[0] == 'D' and any(x['k'] == 'data' for x in t['ts']):
        # the node itself is a Union position; below it are the fields of the member the tag selects
        tag = [x for kk, x in doc[2] if kk == ['S', TAG_KEY]]
        alts = [x for x in t['ts'] if x['k'] == 'data' and tag and ['S', model['classes'][x['c']]['name']] == tag[0]]
        if alts:
            cd = model['classes'][alts[0]['c']]
            for i, (kk, x) in enumerate(doc[2]):
                f = field_of_key(cd, kk[1])
                if f is not None:
                    positions(f['ty'], x, model, frames + [[cd['name'], f['name']]], path + [['val', i]], out, depth + 1,
                              under_td, f50 or under_td)
    elif k == 'named' and doc[0] == 'L':
        for i, (x, (_, tt)) in enumerate(zip(doc[1], model['named'][t['name']])):
            positions(tt, x, model, frames, path + [['idx', i]], out, depth, under_td, f50)
    elif k == 'typed' and doc[0] == 'D':
        d = model['typed'][t['name']]
        tys = dict((key, tt) for key, tt in d['req'] + d['opt'])
        for i, (kk, x) in enumerate(doc[2]):
            positions(tys[kk[1]], x, model, frames, path + [['val', i]], out, depth, True, f50)
    elif k == 'data' and doc[0] == 'D':
        cd = model['classes'][t['c']]
        here['f50'] = f50 or under_td
        for i, (kk, x) in enumerate(doc[2]):
            f = field_of_key(cd, kk[1])
            if f is None:
                continue           # the tag key
            sub = path + [['val', i]]
            if f.get('path') and x[0] == 'D' and x[2]:
                x, sub = x[2][0][1], sub + [['val', 0]]          # AliasPath('top.inner'): the value is one level down
            positions(f['ty'], x, model, frames + [[cd['name'], f['name']]], sub, out, depth + 1,
                      under_td, f50 or under_td)
    if k == 'data':
        here['f50'] = f50 or under_td


def node_at(doc, path):
    cur = doc
    for step in path:
        cur = cur[1][step[1]] if step[0] == 'idx' else cur[2][step[1]][1]
    return cur


def mutate(doc, path, junk):
    if not path:
        return junk
    d = copy.deepcopy(doc)
    cur = node_at(d, path[:-1])
    last = path[-1]
    if last[0] == 'idx':
        cur[1][last[1]] = junk
    else:
        cur[2][last[1]][1] = junk
    return d


def edit_keys(doc, path, fn):
    d = copy.deepcopy(doc)
    fn(node_at(d, path)[2])
    return d


def dc_shape(t, v, model, depth=0):
    """every value at a dataclass-typed position (reached with Python's iteration / indexing
    semantics) is None or a dict — the region predicate of F24 (mirror of dc_shape_n in V1Eval.v)"""
    if v is None or depth > 60:
        return True
    k = t['k']
    if k == 'seq':
        it = G.py_iter(v)
        return True if it is None else all(dc_shape(t['t'], x, model, depth + 1) for x in it)
    if k == 'tuple':
        return all(dc_shape(tt, G.py_index(v, i), model, depth + 1) for i, tt in enumerate(t['ts']))
    if k == 'named':
        return all(dc_shape(tt, G.py_index(v, i), model, depth + 1) for i, (_, tt) in enumerate(model['named'][t['name']]))
    if k == 'typed':
        d = model['typed'][t['name']]
        return all(dc_shape(tt, G.py_index(v, key), model, depth + 1) for key, tt in d['req'] + d['opt'])
    if k == 'dict':
        return True if v[0] != 'D' else all(dc_shape(t['kt'], kk, model, depth + 1) and dc_shape(t['vt'], x, model, depth + 1)
                                            for kk, x in v[2])
    if k == 'opt':
        return dc_shape(t['t'], v, model, depth)
    if k == 'union':
        ds = [x for x in t['ts'] if x['k'] == 'data']
        if ds and v[0] == 'D':
            return all(dc_shape(x, v, model, depth) for x in ds[:1])
        return True
    if k == 'data':
        if v == ['N']:
            return True
        if v[0] != 'D':
            return False
        cd = model['classes'][t['c']]
        ok = True
        for kk, x in v[2]:
            f = field_of_key(cd, kk[1]) if kk[0] == 'S' else None
            if f is not None:
                ok = ok and dc_shape(f['ty'], x, model, depth + 1)
        return ok
    return True


def expectation(pos, junk, model):
    """Independent reference: what a FAILING load must report.  -> dict(kinds, cls, fld[, region])"""
    t = pos['ty']
    while t['k'] == 'opt':
        t = t['t']
    fr = pos['frames'][-1] if pos['frames'] else None
    exp = None
    if t['k'] == 'data':
        cname = model['classes'][t['c']]['name']
        if junk == ['N']:
            exp = {'kinds': ['D'], 'cls': fr[0] if fr else cname, 'fld': fr[1] if fr else None}
            if not fr:
                exp['region'] = 'F54'
        elif junk[0] != 'D':
            # a non-dict value: a ParseError (never MissingData — that is for null only); the reference names the
            # holder; F24 (open) is only about WHICH class/field is named: the class being built and its first field
            exp = {'kinds': ['P'], 'cls': fr[0] if fr else cname, 'fld': fr[1] if fr else None, 'region': 'F24', 'f24_cls': cname}
        else:
            # a dict that is not a document of the class: required fields are missing (a required AliasPath
            # field: ParseError naming it); its keys are unknown keys for a class with v1_on_unknown_key='RAISE'
            cd = model['classes'][t['c']]
            exp = {'kinds': ['M'], 'cls': cname, 'alts': []}
            for f in cd['fields']:
                if f.get('path') and f['default'] is None:
                    exp['alts'].append({'kinds': ['P'], 'cls': cname, 'fld': f['name']})
            if (cd.get('meta') or {}).get('v1_on_unknown_key') == 'RAISE' and junk[2]:
                exp['alts'].append({'kinds': ['U'], 'cls': cname})
    elif fr is None:
        return None
    elif t['k'] == 'named':
        exp = {'kinds': ['P', 'D'], 'cls': fr[0], 'fld': fr[1], 'alt': {'kinds': ['M'], 'cls': G.nt_name(model, t['name'])}}
    else:
        exp = {'kinds': ['P', 'D'], 'cls': fr[0], 'fld': fr[1]}
    if pos.get('f50'):          # below a TypedDict every inner error is replaced (open F50)
        exp['region'] = 'F50'
        exp.pop('f24_cls', None)
    return exp


# ---------------------------------------------------------------------------------- models
LEAFY = ['int', 'str', 'float', 'bool', 'date', 'datetime', 'time', 'timedelta', 'uuid', 'decimal', 'bytes', 'enum:Color', 'enum:Num', 'path']


def leafy_type(r, mb):
    l = leaf(r.choice(LEAFY))
    c = r.choice(['id', 'id', 'id', 'list', 'dictv', 'opt', 'tup', 'set', 'lit', 'union', 'unionc', 'typed', 'named', 'deque'])
    if c == 'list':
        return seq('list', l)
    if c == 'deque':
        return seq('deque', l)
    if c == 'set':
        return seq('set', l)
    if c == 'dictv':
        return dct(leaf('str'), l)
    if c == 'opt':
        return opt(l)
    if c == 'tup':
        return tup(l, leaf('str'))
    if c == 'lit':
        return lit('a', 'b', 3)
    if c == 'union':
        return union(leaf('int'), leaf('str'))
    if c == 'unionc':      # F47: a container member next to `str`
        return union(seq('list', leaf('int')), leaf('str'))
    if c == 'typed':
        return mb.typed([('rk', l)], [('ok', leaf('int'))])
    if c == 'named':
        return mb.named([('aa', l), ('bb', leaf('int'))])
    return l


def nest_ctx(r, t, mb, allow_union=None, kind=None):
    """put a dataclass reference into a (possibly helper-compiled) position"""
    kinds = ['id', 'id', 'list', 'dictv', 'opt', 'tup', 'optlist', 'listlist',
             'nt', 'ntopt', 'ntlist', 'td', 'tdo', 'tdlist']
    if allow_union is not None:
        kinds += ['tagu', 'tagulist']
    c = kind or r.choice(kinds)
    if c == 'list':
        return seq('list', t)
    if c == 'dictv':
        return dct(leaf('str'), t)
    if c == 'opt':
        return opt(t)
    if c == 'tup':
        return tup(leaf('int'), t)
    if c == 'optlist':
        return opt(seq('list', t))
    if c == 'listlist':
        return seq('list', seq('list', t))
    if c in ('nt', 'ntopt', 'ntlist'):
        n = mb.named([('aa', leaf('int')), ('bb', t)])
        return n if c == 'nt' else opt(n) if c == 'ntopt' else seq('list', n)
    if c in ('td', 'tdlist'):
        d = mb.typed([('rk', t), ('nn', leaf('int'))], [])
        return d if c == 'td' else seq('list', d)
    if c == 'tdo':
        return mb.typed([('nn', leaf('int'))], [('ok', t)])
    if c in ('tagu', 'tagulist'):
        u = union(t, data(allow_union))
        return u if c == 'tagu' else seq('list', u)
    return t


def has_data_union(m):
    return any(s['k'] == 'union' and any(x['k'] == 'data' for x in s['ts'])
               for c in m['classes'] for f in c['fields'] for s in G.subtypes(f['ty'], m))


def build_models(ctx):
    r = ctx.sub_rng('models')
    n = 18 if ctx.tier == 'quick' else 54
    out = []
    for mi in range(1, n + 1):
        mb = C2.MB(mi)
        mb.m['key_case'] = KEY_CASES[mi % len(KEY_CASES)]
        mb.cls([])     # root B (index 0)

        def fields(k, extra):
            fs = [[G.FIELD_NAMES[j], leafy_type(r, mb)] for j in range(k)] + extra
            r.shuffle(fs)
            return fs

        cat = ((mi - 1) // len(KEY_CASES)) % 3        # 0: inside the Gallina model; 1: tagged Unions; 2: declaration styles + nested-only Meta
        with_union = (cat == 1)
        alt_idx = mb.cls([('other_str', leaf('str')), ('opt_num', leaf('int'), 'int0')], name='Alt%dE' % mi) if with_union else None
        d_idx = mb.cls(fields(r.choice([1, 2, 3]), []), name='Inner%dD' % mi)
        c_idx = mb.cls(fields(r.choice([1, 2]), [['my_dd', nest_ctx(r, data(d_idx), mb, alt_idx)]]), name='Mid%dC' % mi)
        bf = fields(r.choice([1, 2]), [['the_cc', nest_ctx(r, data(c_idx), mb, alt_idx)]])
        mb.m['classes'][0]['fields'] = [{'name': a, 'ty': b, 'default': None} for a, b in bf] + \
                                       [{'name': 'opt_num', 'ty': leaf('int'), 'default': 'int0'}]
        mb.m['classes'][d_idx]['fields'].append({'name': 'note', 'ty': leaf('str'), 'default': 'str0'})
        mb.m['classes'][0]['name'] = 'Root%dB' % mi
        if cat == 2:
            # declaration styles at depth >= 2: Alias / AliasPath fields, required and defaulted
            for idx in (d_idx, c_idx):
                fs = mb.m['classes'][idx]['fields']
                req = [f for f in fs if f['default'] is None]
                dfl = [f for f in fs if f['default'] is not None]
                req += [{'name': 'code_val', 'ty': leaf('str'), 'default': None, 'path': 'meta_x.code_val'},
                        {'name': 'num_val', 'ty': leaf('int'), 'default': None, 'alias': ['num', 'number_x']}]
                dfl += [{'name': 'opt_path', 'ty': leaf('int'), 'default': 'int0', 'path': 'opts_x.dd'},
                        {'name': 'ee_val', 'ty': leaf('str'), 'default': 'str0', 'alias': ['ee']}]
                r.shuffle(req)
                mb.m['classes'][idx]['fields'] = req + dfl
            # Meta set on NESTED classes only (the root has none of it)
            mb.m['classes'][d_idx]['meta'] = {'v1_on_unknown_key': r.choice(['RAISE', 'RAISE', 'WARN'])}
            if r.random() < 0.5:
                mb.m['classes'][c_idx]['meta'] = {'v1_on_unknown_key': r.choice(['RAISE', 'WARN'])}
            mb.m['no_model'] = True
        if has_data_union(mb.m):
            mb.m['load_meta'] = {'auto_assign_tags': True}
            mb.m['no_model'] = True
        out.append(mb)
    return out


def ascii_tree(t):
    """The model's strings are byte lists: iterating a str yields bytes, Python yields characters.
    Documents of the malformed stream (where strings do get iterated) are kept ASCII."""
    if isinstance(t, list):
        if len(t) == 2 and t[0] == 'S' and isinstance(t[1], str):
            return ['S', t[1].encode('ascii', 'replace').decode()]
        return [ascii_tree(x) for x in t]
    return t


RESOLVED = set()


def make_plan(ctx, mb, r):
    """-> (doc, plan) ; plan: list of (kind, pos, what, expectation, mutated document)"""
    quick = ctx.tier == 'quick'
    m = mb.m
    kc = m.get('key_case')
    inst = None
    for attempt in range(30):
        cand = ascii_tree(C2.gen_inst(ctx.sub_rng('inst', mb.mi, attempt), 0, m))
        doc = dump_doc(cand, data(0), m, ctx.sub_rng('keys', mb.mi, attempt))
        ps = []
        positions(data(0), doc, m, [], [], ps, 0)
        if max(p['depth'] for p in ps) >= 3:
            inst = cand
            break
    m['instances'] = []
    plan = []
    chosen = r.sample(ps, min(len(ps), 22 if quick else 30))
    dps = [p for p in ps if p['ty']['k'] in ('data', 'opt') and p['path'] and p not in chosen]
    chosen += r.sample(dps, min(len(dps), 4))       # dataclass-typed positions get the full junk matrix
    for pos in chosen:
        tt0 = pos['ty']
        while tt0['k'] == 'opt':
            tt0 = tt0['t']
        at_data = tt0['k'] == 'data' or (tt0['k'] == 'union' and any(x['k'] == 'data' for x in tt0['ts']))
        for junk in (JUNK if (not quick or at_data) else r.sample(JUNK, 5)):
            plan.append(('junk', pos, junk, expectation(pos, junk, m), mutate(doc, pos['path'], junk)))
        tt = pos['ty']
        while tt['k'] == 'opt':
            tt = tt['t']
        if tt['k'] in ('tuple', 'named'):      # wrong arity: one element short / one too many
            cur = node_at(doc, pos['path'])
            if cur[0] == 'L' and cur[1]:
                plan.append(('arity-', pos, ['L', cur[1][:-1]], expectation(pos, ['L', []], m), mutate(doc, pos['path'], ['L', cur[1][:-1]])))
                plan.append(('arity+', pos, ['L', cur[1] + [['I', '9']]], expectation(pos, ['L', []], m),
                             mutate(doc, pos['path'], ['L', cur[1] + [['I', '9']]])))
    # key-level mutations on every class document: removal, re-spelling, extra key
    for pos in ps:
        tt = pos['ty']
        while tt['k'] == 'opt':
            tt = tt['t']
        cur = node_at(doc, pos['path'])
        if tt['k'] == 'union' and cur[0] == 'D':
            tag = [x for kk, x in cur[2] if kk == ['S', TAG_KEY]]
            tt = ([x for x in tt['ts'] if x['k'] == 'data' and tag and ['S', m['classes'][x['c']]['name']] == tag[0]] or [tt])[0]
        if tt['k'] != 'data' or cur[0] != 'D':
            continue
        cd = m['classes'][tt['c']]
        reg = 'F50' if pos.get('f50') else None
        raises = (cd.get('meta') or {}).get('v1_on_unknown_key') == 'RAISE'
        for i, (kk, _) in enumerate(cur[2]):
            f = field_of_key(cd, kk[1])
            if f is None:
                continue
            # the field's value is absent: a required AliasPath field is a ParseError naming (class, field);
            # any other required field a MissingFields naming the class and the field
            if f.get('path'):
                exp_m = {'kinds': ['P'], 'cls': cd['name'], 'fld': f['name']}
            else:
                exp_m = {'kinds': ['M'], 'cls': cd['name'], 'names': [f['name']]}
            if reg:
                exp_m['region'] = reg
            if f['default'] is None and (not quick or r.random() < 0.5 or f.get('path') or f.get('alias')):
                plan.append(('delete', pos, f['name'], exp_m,
                             edit_keys(doc, pos['path'], lambda kvs, i=i: kvs.__delitem__(i))))
            if f.get('path'):
                e = None if f['default'] is not None else exp_m
                plan.append(('path-inner-absent', pos, f['name'], e,
                             edit_keys(doc, pos['path'], lambda kvs, i=i: kvs[i].__setitem__(1, ['D', None, []]))))
                continue
            if f.get('alias'):
                for a in f['alias'][1:]:
                    plan.append(('other-alias', pos, [f['name'], a], None,
                                 edit_keys(doc, pos['path'], lambda kvs, i=i, a=a: kvs[i].__setitem__(0, ['S', a]))))
                continue
            if raises:       # a re-spelled key is an unknown key for a class with v1_on_unknown_key='RAISE'
                exp_m = {'kinds': ['U', 'M'], 'cls': cd['name']}
                if reg:
                    exp_m['region'] = reg
            sp = spellings(f['name'])
            cands = sorted({sp[c] for c in ('SNAKE', 'CAMEL', 'PASCAL', 'KEBAB', 'SCREAMING')} | {kk[1] + 'x', kk[1].swapcase(), kk[1][:-1]})
            cands = [c for c in cands if c and c != kk[1] and field_of_key({'fields': [g for g in cd['fields'] if g is not f]}, c) is None]
            for newk in (cands if not quick else r.sample(cands, min(2, len(cands)))):
                # a re-spelled key: the field is absent unless the key case accepts the spelling
                e = None if f['default'] is not None else dict(exp_m)
                plan.append(('rekey', pos, [f['name'], kk[1], newk], e,
                             edit_keys(doc, pos['path'], lambda kvs, i=i, newk=newk: kvs[i].__setitem__(0, ['S', newk]))))
        if not quick or r.random() < 0.4 or cd.get('meta'):
            e_x = None
            if raises:       # an unknown key: UnknownKeysError naming THIS class
                e_x = {'kinds': ['U'], 'cls': cd['name']}
                if reg:
                    e_x['region'] = reg
            plan.append(('extra-key', pos, 'zzz_extra', e_x,
                         edit_keys(doc, pos['path'], lambda kvs: kvs.append([['S', 'zzz_extra'], ['I', '1']]))))
    m['docs'] = [doc] + [p[4] for p in plan]
    return doc, plan


def explicit_models():
    """direct-predicate-only inputs for defects outside the modelled configuration surface"""
    m = {'classes': [{'name': 'TaggedT', 'fields': [{'name': 'xval', 'ty': leaf('int'), 'default': 'int0'}]}],
         'named': {}, 'typed': {}, 'key_case': None, 'dump': None, 'root': 0, 'instances': [], 'json': False, 'no_model': True,
         'load_meta': {'tag': 'T', 'v1_on_unknown_key': 'RAISE'},
         'docs': [['N'], ['I', '5'], ['L', [['I', '1']]], ['D', None, [[['S', 'xval'], ['I', '1']]]]]}
    return [('F51', m)]


def run(ctx):
    # listed findings first: a resolved finding's region is checked like any other input and the
    # faithful-to-the-defect model is not compared inside it
    RESOLVED.clear()
    id_region = {v: k for k, v in REGION_ID.items()}
    for f in ctx.findings('open'):
        w = f.get('witness')
        if w and w.get('kind') == 'doc':
            fails = not replay(ctx, w, quiet=True)
            ctx.known_finding(f['id'], still_fails=fails)
            if not fails and f['id'] in id_region:
                RESOLVED.add(id_region[f['id']])
    mbs = build_models(ctx)
    r = ctx.sub_rng('docs')
    plans = [make_plan(ctx, mb, r) for mb in mbs]
    ex = explicit_models()
    impl = ctx.impl('c14', {'models': [mb.m for mb in mbs] + [m for _, m in ex]}, timeout=900)['models']
    impl, impl_ex = impl[:len(mbs)], impl[len(mbs):]

    # ---- explicit inputs (direct predicates only)
    for (reg, m), res in zip(ex, impl_ex):
        for d, out in zip(m['docs'], res.get('docs', [])):
            ctx.count(1, key='x:%s|%s' % (reg, json.dumps(d)), nontrivial=False)
            if 'err' in out:
                bad = check_error(out, None)
                if bad:
                    if reg not in RESOLVED and ctx.is_open_region(REGION_ID[reg]):
                        ctx.hist('known_region', reg)
                    else:
                        ctx.violation(bad, {'kind': 'doc', 'model': {**m, 'docs': [d]}, 'expect': None, 'what': 'explicit %s' % reg})

    # ---- model side: one prelude per model (class table + oracle table), documents in small shards
    model_ok, mres = True, {}
    try:
        shards, index = [], []
        for mi, (mb, res) in enumerate(zip(mbs, impl)):
            if res.get('setup_err') or res.get('gen_err') or mb.m.get('no_model'):
                continue
            try:
                pre = 'Definition ct : ctable := %s.\nDefinition tb : list oentry := %s.' % (
                    G.coq_ct(mb.m, res['keys']), G.coq_oracle([(l, o, v, a) for l, o, v, a in res['oracle']]))
            except ValueError:
                continue
            exs = ['case_load tb ct %d 0 %s' % (C2.BUDGET, G.coq_pv(d)) for d in mb.m['docs']]
            SH = 40
            for i in range(0, len(exs), SH):
                shards.append((pre, exs[i:i + SH]))
                index.append([(mi, di) for di in range(i, min(i + SH, len(exs)))])
        outs = G.coq_shards(os.path.join(ctx.workdir, 'cases'), C2.IMPORTS, shards,
                            jobs=8 if ctx.tier == 'quick' else 10, timeout=900)
        for idx, out in zip(index, outs):
            for (mi, di), o in zip(idx, out):
                parts = o.split('#')
                mres[(mi, di)] = {'code': G.parse_res(parts[0], mbs[mi].m), 'spec': G.parse_res(parts[1], mbs[mi].m),
                                  'loc': G.parse_attr(parts[2]), 'shape': parts[3] == 'shape'}
    except Exception as e:
        model_ok = False
        ctx.broken_tie('model evaluation failed: %s' % str(e)[:800])

    n_dis = 0
    for mi, (mb, res, (doc, plan)) in enumerate(zip(mbs, impl, plans)):
        m = mb.m
        ctx.hist('key_case', m.get('key_case'))
        if res.get('setup_err') or res.get('gen_err'):
            ctx.broken_tie('harness could not set up C14 model %d' % mi, res.get('setup_err') or res.get('gen_err'))
            continue
        # oracle audit: leaf conversions fail with ordinary exceptions (hypothesis of C14_innermost)
        for l, o, v, a in res['oracle']:
            if 'err' in a and a['err'] in ('ParseError', 'MissingFields', 'MissingData', 'UnknownKeysError'):
                ctx.broken_tie('oracle hypothesis violated: leaf loader %s raised a library error' % l, {'value': v, 'answer': a})
        base = res['docs'][0]
        if 'ok' not in base:
            ctx.violation('a well-typed document does not load: %s (%s)' % (base.get('err'), (base.get('msg') or '')[:200]),
                          {'kind': 'doc', 'model': {**m, 'docs': [doc], 'instances': []}, 'expect': None, 'what': 'well-typed document'})
        for pi, (kind, pos, what, exp, d) in enumerate(plan):
            di = pi + 1
            out = res['docs'][di]
            nontriv = pos['depth'] >= 2
            ctx.count(1, key='d:%d|%s|%s|%s' % (mi, json.dumps(pos['path']), kind, json.dumps(what)[:80]), nontrivial=nontriv)
            ctx.hist('mutation', kind if kind != 'junk' else 'junk:' + what[0] + (':' + str(what[1])[:6] if len(what) > 1 and what[0] in 'FB' else ''))
            ctx.hist('position_type', pos['ty']['k'])
            ctx.hist('depth', pos['depth'])
            rp = {'kind': 'doc', 'model': {**m, 'docs': [d], 'instances': []}, 'expect': exp,
                  'what': '%s %s at %s' % (kind, json.dumps(what)[:60], json.dumps(pos['path']))}
            if 'build_err' in out:
                ctx.broken_tie('harness could not build a document', out['build_err'])
                continue
            shaped = dc_shape(data(0), d, m)
            if 'ok' in out:
                ctx.hist('outcome', 'loads')
            else:
                ctx.hist('outcome', out['err'])
                bad = check_error(out, exp)
                if bad:
                    if excused(ctx, out, exp, shaped, m):
                        ctx.hist('known_region', excused(ctx, out, exp, shaped, m))
                    else:
                        ctx.violation('%s (%s %s at %s, key case %s)' % (bad, kind, json.dumps(what)[:60], json.dumps(pos['path']), m.get('key_case')), rp)
            # ---- correspondence
            if model_ok and (mi, di) in mres and not ('F24' in RESOLVED and not shaped) and not ('F50' in RESOLVED and pos.get('f50')):
                mr = mres[(mi, di)]
                ctx.traces_validated += 1
                if 'marker' in mr['code']:
                    ctx.broken_tie('model budget / oracle table exhausted', {'doc': d, 'model': mr['code']})
                elif not C2.same_outcome(mr['code'], out):
                    n_dis += 1
                    ctx.disagreements_checked += 1
                    if n_dis <= 5:
                        ctx.broken_tie('generated-code model and implementation disagree on a malformed document',
                                       {'model': mr['code'], 'impl': {k: v for k, v in out.items() if k not in ('msg', 'mro')}, 'doc': d})
                # the Coq locator agrees with the independent Python locator inside the proved region
                if 'lib' in mr['spec'] and mr['shape'] and shaped and exp and not exp.get('region') \
                        and mr['spec']['lib'] in ('P', 'D') and mr['loc'] is not None and exp['kinds'] != ['M']:
                    if [exp.get('cls'), exp.get('fld')] != mr['loc'] and not (exp.get('alt') and mr['loc'][0] == exp['alt']['cls']):
                        ctx.broken_tie('Coq locate and the Python reference locator disagree',
                                       {'coq': mr['loc'], 'python': [exp.get('cls'), exp.get('fld')], 'doc': d})
        if mi == 0:
            ctx.sample({'classes': [(c['name'], [(f['name'], G.py_ann(f['ty'], m)) for f in c['fields']]) for c in m['classes']],
                        'key_case': m.get('key_case'), 'document': doc,
                        'first_mutation': {'kind': plan[0][0], 'path': plan[0][1]['path'], 'what': plan[0][2], 'expect': plan[0][3],
                                           'impl': {k: v for k, v in res['docs'][1].items() if k in ('err', 'lib', 'cls', 'fld', 'renders')}}})

    # ---- call histories: shared function table, Meta bindings, recursive=False (V1ErrHist.v)
    run_histories(ctx)


def excused(ctx, out, exp, shaped, m):
    """a failing direct predicate inside a listed open region -> the region's name, else None"""
    reg = (exp or {}).get('region') or (None if shaped else 'F24')
    if reg == 'F24' and not (out.get('kind') == 'P' and out.get('cls') in
                             ([exp['f24_cls']] if exp and exp.get('f24_cls') else [c['name'] for c in m['classes']])):
        reg = None        # F24 covers only a ParseError naming the class being built: kind and class are checked
    if reg and reg not in RESOLVED and ctx.is_open_region(REGION_ID[reg]) and out.get('lib') and out.get('renders'):
        return reg
    return None


def check_error(out, exp):
    """direct predicate on a failing load; None if it holds"""
    if not out.get('lib'):
        return 'load raised %s, which is not a JSONWizardError (mro %s)' % (out['err'], out.get('mro'))
    if not out.get('renders'):
        return 'str(e) raised %s (error %s)' % (out.get('render_err'), out['err'])
    if exp is None:
        return None
    for e in [exp] + ([exp['alt']] if exp.get('alt') else []) + list(exp.get('alts') or []):
        if out.get('kind') in e['kinds']:
            if out.get('cls') != e.get('cls'):
                continue
            if out['kind'] in ('P', 'D') and out.get('fld') != e.get('fld'):
                continue
            if out['kind'] == 'M' and e.get('names') and not set(e['names']) <= set(out.get('names') or []):
                continue
            return None
    return 'error %s names (class %r, field %r, missing %r), expected %s (class %r, field %r, missing %r)' % (
        out['err'], out.get('cls'), out.get('fld'), out.get('names'), '/'.join(exp['kinds']), exp.get('cls'), exp.get('fld'),
        exp.get('names'))


# ====================================================================================== histories
# Region: what was loaded BEFORE (stand-alone loads of nested classes by either engine, loads under
# another root, a root used early / by the default engine) x Meta.recursive x nesting depth 1..3 x
# container position.  Model: coq/model/V1ErrHist.v.  Direct predicate: the failing v1 load after the
# history reports (library error, str(e) renders, kind, class_name, field_name, obj, missing names)
# exactly as the same load in a PRISTINE interpreter, and names the innermost frame of the
# independent locator.
HIST_IMPORTS = C2.IMPORTS + ['V1ErrHist', 'V1ErrShow']
HIST_POS = ['id', 'list', 'dictv', 'opt', 'tup', 'optlist', 'listlist', 'nt', 'ntlist', 'ntopt', 'td', 'tdlist', 'tdo']
V1R = {'v1': True, 'recursive': True}
V1N = {'v1': True, 'recursive': False}


def strip_opt(t):
    while t['k'] == 'opt':
        t = t['t']
    return t


def build_hist_models(ctx):
    """-> list of dict(mb, depth, nested=[class indices, outermost first], other=class index)"""
    r = ctx.sub_rng('hist-models')
    n = 5 if ctx.tier == 'quick' else 13
    off = r.randrange(len(HIST_POS))
    out = []
    for hm in range(n):
        mb = C2.MB(200 + hm)
        depth = 1 if hm % 5 == 4 else 2 if hm % 5 == 1 else 3
        mb.cls([])           # root, index 0

        def fields(k, extra):
            fs = [['alpha', leaf('int')]] + [[G.FIELD_NAMES[j + 1], leafy_type(r, mb)] for j in range(k)] + extra
            return fs
        k1, k2 = HIST_POS[(off + 2 * hm) % len(HIST_POS)], HIST_POS[(off + 2 * hm + 1 + hm // len(HIST_POS)) % len(HIST_POS)]
        nested = []
        if depth >= 2:
            inner = mb.cls(fields(r.choice([0, 1]), []), name='Inner%dD' % hm)
            mb.m['classes'][inner]['fields'].append({'name': 'note', 'ty': leaf('str'), 'default': 'str0'})
            top = inner
            nested = [inner]
            if depth == 3:
                top = mb.cls(fields(r.choice([0, 1]), [['my_dd', nest_ctx(r, data(inner), mb, kind=k2)]]), name='Mid%dC' % hm)
                nested = [top, inner]
            rf = fields(r.choice([0, 1]), [['the_cc', nest_ctx(r, data(top), mb, kind=k1)]])
            other = mb.cls([('mid_x', data(top)), ('opt_inn', opt(data(inner)), 'none')], name='Other%dR' % hm)
        else:
            rf = fields(2, [])
            other = mb.cls([('alpha', leaf('int'))], name='Other%dR' % hm)
        mb.m['classes'][0]['fields'] = [{'name': a, 'ty': b, 'default': None} for a, b in rf] + \
                                       [{'name': 'opt_num', 'ty': leaf('int'), 'default': 'int0'}]
        mb.m['classes'][0]['name'] = 'Root%dB' % hm
        mb.m['hist_pos'] = [k1, k2][:max(0, depth - 1)]
        out.append({'mb': mb, 'depth': depth, 'nested': nested, 'other': other})
    return out


def frame_path(ps, pos):
    """path of the VALUE of the field the innermost frame of `pos` names"""
    best = None
    for q in ps:
        if q['frames'] == pos['frames'] and q['path'] == pos['path'][:len(q['path'])]:
            if best is None or len(q['path']) < len(best):
                best = q['path']
    return best


def hist_plan(ctx, hmod, r):
    """good document, stand-alone documents of the nested classes and of the other root, mutated documents"""
    mb, depth = hmod['mb'], hmod['depth']
    m = mb.m
    doc = ps = None
    for attempt in range(60):
        cand = ascii_tree(C2.gen_inst(ctx.sub_rng('hist-inst', mb.mi, attempt), 0, m))
        d = dump_doc(cand, data(0), m, ctx.sub_rng('hist-keys', mb.mi, attempt))
        q = []
        positions(data(0), d, m, [], [], q, 0)
        subs = {}
        for x in q:
            t = strip_opt(x['ty'])
            if t['k'] == 'data' and x['path'] and node_at(d, x['path'])[0] == 'D':
                subs.setdefault(t['c'], node_at(d, x['path']))
        if max(x['depth'] for x in q) >= depth and all(c in subs for c in hmod['nested']):
            doc, ps = d, q
            break
    if doc is None:
        return None
    alone = {}
    for c in hmod['nested']:
        bad = copy.deepcopy(subs[c])
        for kv in bad[2]:
            if kv[0] == ['S', 'alpha']:
                kv[1] = ['S', 'junk']
        alone[c] = {'good': subs[c], 'bad': bad}
    if hmod['nested']:
        odoc = ['D', None, [[['S', 'mid_x'], subs[hmod['nested'][0]]]]]
    else:
        odoc = ['D', None, [[['S', 'alpha'], ['I', '3']]]]
    plan = []

    def junk_at(pos, junk):
        plan.append(('junk', pos, junk, expectation(pos, junk, m), mutate(doc, pos['path'], junk)))
    for level in range(1, depth + 1):
        here = [x for x in ps if len(x['frames']) == level]
        # the required int field of the class at this level, then other positions at this level
        direct = [x for x in here if x['frames'][-1][1] == 'alpha' and x['path'] == frame_path(ps, x)]
        for pos in direct[:2]:
            junk_at(pos, ['S', 'junk'])
            junk_at(pos, ['L', [['I', '1']]])
        others = [x for x in here if x not in direct]
        for pos in r.sample(others, min(len(others), 2 if ctx.tier == 'quick' else 5)):
            for junk in r.sample(JUNK, 2):
                junk_at(pos, junk)
    for pos in ps:
        t = strip_opt(pos['ty'])
        cur = node_at(doc, pos['path'])
        if t['k'] != 'data' or cur[0] != 'D':
            continue
        if pos['path']:          # dataclass-typed positions: null, non-dict values, a dict that is no document of the class
            for junk in (['N'], ['L', []], ['S', 'junk'], ['D', None, []]):
                junk_at(pos, junk)
        cd = m['classes'][t['c']]
        for i, (kk, _) in enumerate(cur[2]):
            if kk == ['S', 'alpha']:
                e = {'kinds': ['M'], 'cls': cd['name'], 'names': ['alpha']}
                if pos.get('f50'):
                    e['region'] = 'F50'
                plan.append(('delete', pos, 'alpha', e, edit_keys(doc, pos['path'], lambda kvs, i=i: kvs.__delitem__(i))))
    return {'doc': doc, 'ps': ps, 'alone': alone, 'other_doc': odoc, 'plan': plan}


def hist_prefixes(ctx, hmod, r):
    """systematic prefixes: each nested class (not loaded | alone by the default engine, good / failing document |
    bound to v1 and loaded alone | given a non-v1 Meta of its own) x the other root (not used | v1 recursive | v1
    recursive=False | default engine), in both orders; plus the root itself used early"""
    quick = ctx.tier == 'quick'
    nested, other = hmod['nested'], hmod['other']
    per_class = [None, ('alone', 'dflt', 'good'), ('alone', 'v1', 'good'), ('alone', 'dflt', 'bad'), ('alone', 'v1', 'bad'),
                 ('meta', {'v1': False, 'recursive': True})]
    others = [None, ('other', V1R), ('other', V1N), ('other', None)]
    combos = [[]]
    for c in reversed(nested):            # innermost first
        combos = [cb + ([(c,) + pc] if pc else []) for cb in combos for pc in per_class]
    out = []
    for cb in combos:
        for o in others:
            ops = cb + ([o] if o else [])
            out.append(ops)
            if len(ops) >= 2 and (not quick or r.random() < 0.34):
                out.append(list(reversed(ops)))
    for rec in (True, False):
        out.append([('root-early', {'v1': True, 'recursive': rec})])
        if nested:
            out.append([('root-early', {'v1': True, 'recursive': rec}), (nested[-1], 'alone', 'dflt', 'good')])
    out.append([('root-early', None)])        # the root compiled by the DEFAULT engine before it is bound to v1
    cap = 60 if quick else 100
    if len(out) > cap:
        keep = [x for x in out if len(x) <= 1]
        rest = [x for x in out if len(x) > 1]
        out = keep + r.sample(rest, cap - len(keep))
    return out


def hist_ops(hmod, hp, prefix, rec, docs):
    """concrete operations of one history"""
    ops = []
    for item in prefix:
        if item[0] == 'root-early':
            if item[1]:
                ops.append(['bind', 0, item[1]])
            ops.append(['load', 0, hp['doc']])
        elif item[0] == 'other':
            if item[1]:
                ops.append(['bind', hmod['other'], item[1]])
            ops.append(['load', hmod['other'], hp['other_doc']])
        elif item[1] == 'meta':
            ops.append(['bind', item[0], item[2]])
        else:
            c, _, eng, which = item
            if eng == 'v1':
                ops.append(['bind', c, V1R])
            ops.append(['load', c, hp['alone'][c][which]])
    ops.append(['bind', 0, {'v1': True, 'recursive': rec}])
    first = len(ops)
    for d in docs:
        ops.append(['load', 0, d])
    return ops, first


def prefix_label(prefix, hmod):
    def one(item):
        if item[0] in ('root-early', 'other'):
            return '%s:%s' % (item[0], 'dflt' if not item[1] else 'v1' + ('r' if item[1]['recursive'] else 'n'))
        lvl = 'L%d' % (hmod['nested'].index(item[0]) + 2)
        return '%s:%s' % (lvl, 'meta-nonv1' if item[1] == 'meta' else '%s-%s' % (item[2], item[3]))
    return '+'.join(one(x) for x in prefix) or 'none'


def coq_op(op):
    if op[0] == 'bind':
        return 'OBind %d {| m_v1 := %s; m_rec := %s |}' % (op[1], 'true' if op[2]['v1'] else 'false',
                                                         'true' if op[2]['recursive'] else 'false')
    return 'OLoad %d %s' % (op[1], G.coq_pv(op[2]))


def outcome_key(o):
    """what the pristine comparison compares (never messages / addresses)"""
    if 'ok' in o:
        return ['ok', G.norm(o['ok'])]
    return ['err', o.get('err'), bool(o.get('lib')), bool(o.get('renders')), o.get('kind'), o.get('cls'), o.get('fld'),
            sorted(o.get('names') or []) if isinstance(o.get('names'), list) else o.get('names'),
            G.norm(o['obj']) if isinstance(o.get('obj'), list) and o['obj'] and o['obj'][0] != 'X' else None]


def hist_check(ctx, m, ps, entry, out, ref, engine):
    """direct predicates on one final load after a history; -> (problem or None, region or None)"""
    kind, pos, what, exp, d = entry
    if engine != 'v1':
        return None, None            # executed by a default-engine function (root compiled before it was bound to v1)
    if ref is not None and 'build_err' not in ref and outcome_key(out) != outcome_key(ref):
        return ('the history changes the outcome of a v1 load: after the history %s, in a pristine interpreter %s' %
                (brief(out), brief(ref))), None
    if 'ok' in out:
        return None, None
    bad = check_error(out, exp)
    if not bad and exp and not exp.get('region') and kind == 'junk' and out.get('kind') == 'P' and pos['frames'] \
            and pos['path'] == frame_path(ps, pos) and isinstance(out.get('obj'), list):
        if G.norm(out['obj']) != G.norm(what):
            bad = 'ParseError.obj is %s, the offending value is %s' % (json.dumps(out['obj'])[:80], json.dumps(what)[:80])
    if bad:
        return bad, excused(ctx, out, exp, dc_shape(data(0), d, m), m)
    return None, None


def brief(o):
    if 'ok' in o:
        return 'loads'
    return '%s(class %r, field %r, obj %s)' % (o.get('err'), o.get('cls'), o.get('fld'), json.dumps(o.get('obj'))[:60])


def run_histories(ctx):
    import concurrent.futures as cf
    quick = ctx.tier == 'quick'
    hmods = build_hist_models(ctx)
    r = ctx.sub_rng('hist')
    work = []
    for hmod in hmods:
        hp = hist_plan(ctx, hmod, r)
        if hp is None:
            ctx.broken_tie('harness could not generate a history model document', {'model': hmod['mb'].mi})
            continue
        docs = [e[4] for e in hp['plan']]
        hists = []
        for prefix in hist_prefixes(ctx, hmod, r):
            for rec in (True, False):
                ops, first = hist_ops(hmod, hp, prefix, rec, docs)
                hists.append({'prefix': prefix, 'rec': rec, 'ops': ops, 'first': first})
        work.append((hmod, hp, hists))

    def call(args):
        hmod, hp, hists = args
        m = hmod['mb'].m
        docs = [e[4] for e in hp['plan']]
        pr = ctx.impl('c14x', {'items': [{'model': m, 'oracle': False, 'histories': [
            {'ops': hist_ops(hmod, hp, [], rec, docs)[0], 'suffix': '_p%d' % i} for i, rec in enumerate((True, False))]}]}, timeout=900)
        hs = ctx.impl('c14x', {'items': [{'model': m, 'oracle': True,
                                          'histories': [{'ops': h['ops']} for h in hists]}]}, timeout=900)
        return pr['items'][0], hs['items'][0]
    with cf.ThreadPoolExecutor(max_workers=4) as ex:
        results = list(ex.map(call, work))

    # ---- model side: the history machine of V1ErrHist.v on every history (on the first 5 / 6 documents of every history)
    mres, model_ok = {}, True
    try:
        shards, index = [], []
        for wi, ((hmod, hp, hists), (pr, hs)) in enumerate(zip(work, results)):
            m = hmod['mb'].m
            if hs.get('setup_err'):
                continue
            pre = 'Definition ct : ctable := %s.\nDefinition tb : list oentry := %s.' % (
                G.coq_ct(m, hs['keys']), G.coq_oracle([(l, o, v, a) for l, o, v, a in hs['oracle']]))
            exs = []
            for h in hists:
                k = h['first'] + (5 if quick else 6)
                exs.append('case_hist tb ct %d [%s]' % (C2.BUDGET, '; '.join(coq_op(op) for op in h['ops'][:k])))
            SH = 24
            for i in range(0, len(exs), SH):
                shards.append((pre, exs[i:i + SH]))
                index.append([(wi, hi) for hi in range(i, min(i + SH, len(exs)))])
        outs = G.coq_shards(os.path.join(ctx.workdir, 'hist_cases'), HIST_IMPORTS, shards, jobs=8 if quick else 10, timeout=900)
        for idx, out in zip(index, outs):
            for (wi, hi), o in zip(idx, out):
                mres[(wi, hi)] = o.split('#')
    except Exception as e:
        model_ok = False
        ctx.broken_tie('history model evaluation failed: %s' % str(e)[:800])

    n_dis = 0
    n_vio = [0]

    def violation(what, rp):
        # one defect shows on hundreds of (history, document) pairs: keep the first few replays
        n_vio[0] += 1
        if n_vio[0] <= 6:
            ctx.violation(what, rp)
        else:
            ctx.hist('hist_further_violations', 'not written')
    for wi, ((hmod, hp, hists), (pr, hs)) in enumerate(zip(work, results)):
        m, ps, plan = hmod['mb'].m, hp['ps'], hp['plan']
        if pr.get('setup_err') or hs.get('setup_err'):
            ctx.broken_tie('harness could not set up history model %d' % wi, pr.get('setup_err') or hs.get('setup_err'))
            continue
        for l, o, v, a in hs['oracle']:
            if 'err' in a and a['err'] in ('ParseError', 'MissingFields', 'MissingData', 'UnknownKeysError'):
                ctx.broken_tie('oracle hypothesis violated: leaf loader %s raised a library error' % l, {'value': v, 'answer': a})
        ctx.hist('hist_depth', hmod['depth'])
        for k in m.get('hist_pos') or ['-']:
            ctx.hist('hist_position', k)
        # pristine references, and the direct predicates on them as well (prefix 'none')
        refs = {}
        for i, rec in enumerate((True, False)):
            pro = pr['histories'][i]
            if pro.get('setup_err'):
                ctx.broken_tie('harness could not set up the pristine reference', pro['setup_err'])
                continue
            refs[rec] = pro['ops'][1:]
        for hi, h in enumerate(hists):
            res = hs['histories'][hi]
            label = prefix_label(h['prefix'], hmod)
            if res.get('setup_err'):
                ctx.broken_tie('harness could not set up a history', res['setup_err'])
                continue
            ctx.hist('hist_prefix_len', len(h['prefix']))
            for item in h['prefix']:
                ctx.hist('hist_prefix_op', prefix_label([item], hmod))
            ops_out = res['ops']
            mod_out = mres.get((wi, hi)) if model_ok else None
            for oi, (op, out) in enumerate(zip(h['ops'], ops_out)):
                if op[0] != 'load':
                    continue
                if 'build_err' in out or 'op_err' in out:
                    ctx.broken_tie('harness could not run a history operation', out)
                    continue
                final = oi >= h['first']
                rp = {'kind': 'hist', 'model': {k: v for k, v in m.items() if k not in ('docs', 'instances')},
                      'ops': h['ops'][:h['first']] + [op] if final else h['ops'][:oi + 1], 'rec': h['rec'],
                      'expect': plan[oi - h['first']][3] if final else None,
                      'what': 'after history [%s], recursive=%s: %s' % (label, h['rec'], (
                          '%s %s at %s' % (plan[oi - h['first']][0], json.dumps(plan[oi - h['first']][2])[:60],
                                           json.dumps(plan[oi - h['first']][1]['path'])) if final else 'stand-alone load'))}
                if final:
                    entry = plan[oi - h['first']]
                    ctx.count(1, key='h:%d|%s|%s|%d' % (wi, label, h['rec'], oi - h['first']), nontrivial=len(h['prefix']) > 0 and entry[1]['depth'] >= 2)
                    ref = (refs.get(h['rec']) or [None] * len(plan))[oi - h['first']]
                    bad, reg = hist_check(ctx, m, ps, entry, out, ref, out.get('engine'))
                    ctx.hist('hist_outcome', 'loads' if 'ok' in out else out.get('err') if out.get('engine') == 'v1' else 'default-engine')
                    if bad and reg:
                        ctx.hist('known_region', reg)
                    elif bad:
                        violation('%s (%s)' % (bad, rp['what']), rp)
                elif out.get('engine') == 'v1' and 'err' in out and not (out.get('lib') and out.get('renders')):
                    ctx.count(1, key='hp:%d|%s|%d' % (wi, label, oi), nontrivial=False)
                    violation('%s (%s)' % (check_error(out, None), rp['what']), rp)
                # ---- correspondence: engine and, for v1-compiled functions, the outcome
                if mod_out is not None and oi < len(mod_out):
                    tok = mod_out[oi]
                    ctx.traces_validated += 1
                    meng = 'v1' if tok.startswith('v1 ') else 'dflt' if tok == 'dflt' else tok
                    same = meng == out.get('engine')
                    if same and meng == 'v1':
                        mr = G.parse_res(tok[3:], m)
                        if 'marker' in mr:
                            ctx.broken_tie('history model: budget / oracle table exhausted', {'op': op, 'model': mr})
                            continue
                        same = C2.same_outcome(mr, out)
                    if not same:
                        n_dis += 1
                        ctx.disagreements_checked += 1
                        if n_dis <= 5:
                            ctx.broken_tie('history model (V1ErrHist) and implementation disagree',
                                           {'history': label, 'recursive': h['rec'], 'op': oi, 'model': tok[:300],
                                            'impl': {k: v for k, v in out.items() if k not in ('msg', 'mro')}, 'doc': op[2]})
        if wi == 0 and hists:
            ctx.sample({'history_model': [(c['name'], [(f['name'], G.py_ann(f['ty'], m)) for f in c['fields']]) for c in m['classes']],
                        'histories': len(hists), 'documents_per_history': len(plan),
                        'example_prefix': prefix_label(hists[min(7, len(hists) - 1)]['prefix'], hmod)})


def replay_hist(ctx, obj, quiet=False):
    m = obj['model']
    ops = obj['ops']
    last = ops[-1]
    pr_ops = [['bind', last[1], {'v1': True, 'recursive': obj.get('rec', True)}], last] if last[1] == 0 else None
    items = [{'model': m, 'oracle': False, 'histories': [{'ops': ops}]}]
    res = ctx.impl('c14x', {'items': items})['items'][0]
    out = (res.get('histories') or [{}])[0]
    if res.get('setup_err') or out.get('setup_err') or not out.get('ops'):
        if not quiet:
            print('setup error: %s' % (res.get('setup_err') or out.get('setup_err')))
        return False
    o = out['ops'][-1]
    ok, msgs = True, []
    if o.get('engine') == 'v1':
        if pr_ops:
            ref = ctx.impl('c14x', {'items': [{'model': m, 'oracle': False, 'histories': [{'ops': pr_ops, 'suffix': '_p'}]}]})['items'][0]['histories'][0]['ops'][-1]
            if outcome_key(ref) != outcome_key(o):
                ok = False
                msgs.append('after the history %s, in a pristine interpreter %s' % (brief(o), brief(ref)))
        if 'err' in o:
            bad = check_error(o, obj.get('expect'))
            reg = bad and last[1] == 0 and excused(ctx, o, obj.get('expect'), dc_shape(data(0), last[2], m), m)
            if bad and reg:
                msgs.append('%s — inside the listed open region %s' % (bad, REGION_ID[reg]))
            elif bad:
                ok = False
                msgs.append(bad)
    if not quiet:
        print('%s: %s' % (obj.get('what', 'history'), '; '.join(msgs) or ('%s as in the pristine interpreter' % brief(o))))
    return ok


def replay(ctx, obj, quiet=False):
    if obj.get('kind') == 'hist':
        return replay_hist(ctx, obj, quiet)
    if obj.get('kind') != 'doc':
        print('replay object names a broken tie, not an input: %s' % json.dumps(obj)[:1500])
        return False
    res = ctx.impl('c14', {'models': [obj['model']]})['models'][0]
    if res.get('setup_err'):
        if not quiet:
            print('setup error: %s' % res['setup_err'])
        return False
    ok = True
    for d, out in zip(obj['model']['docs'], res['docs']):
        if 'ok' in out:
            msg = 'loads'
        else:
            bad = check_error(out, obj.get('expect'))
            msg = bad or 'raises %s naming (%r, %r) as expected' % (out['err'], out.get('cls'), out.get('fld'))
            if bad:
                ok = False
        if not quiet:
            print('%s: %s' % (obj.get('what', 'document'), msg))
    return ok
