"""C08 — every documented key spelling, alias or path reaches its field, both ways.

Theorems: coq/props/C08.v.  Correspondence: the StrConv model (all six
functions + possible_json_keys + default-engine key resolution) against
dataclass_wizard.utils.string_conv and real loads/dumps.  Direct predicates:
end-to-end loads under every casing (default engine, v1 explicit key case, v1
AUTO) and dumps under every key transform, for generated canonical names.
"""
import itertools, json, string
from lib.coqrun import coq_str, coq_list

META = {
    'id': 'C08',
    'title': 'Every documented key spelling, alias or path reaches its field, both ways',
    'level': 'proof',
    'technique': 'Coq proof (induction over word lists / scanner invariants) on a hand-written Gallina model + differential correspondence with the implementation',
    'design_ref': 'DESIGN.md section 4 C08',
    'theorems': ['C08_casing_roundtrip', 'C08_casing_resolves', 'C08_snake_fixed', 'C08_letter_case_table', 'C08_auto_keys_cover', 'C08_auto_keys_source_tie', 'C08_auto_keys_cover_src',
                 'C08_path_roundtrip', 'C08_path_int_component', 'C08_path_tables', 'C08_path_source_tie', 'C08_path_roundtrip_src', 'C08_alias_spliced_literally'],
    'tables': ['LetterCase', 'ObjPath', 'ObjPathAlg', 'AutoKeysAlg'],
    'level_text': ('Theorems proved in Coq for ALL canonical snake_case names (any number of words, any length) and all six '
                   'documented casings, about an executable model of utils/string_conv.py and the default-engine key '
                   'resolution; the model is re-validated against the implementation on every run (exhaustive small-alphabet '
                   'sweep + random strings), and the end-to-end statement is also tested directly on fromdict/asdict.'),
    'level_note': ('Trusted: Coq kernel + vm_compute; the hand-written model (ASCII only for case-sensitive functions); the '
                   'correspondence harness. Regex engine, dict semantics and dataclasses are exercised, not proved.'),
    'rule': ('strings: exhaustive over alphabet {a,b,B,1,_,-,space,A} up to length L (quick 4, thorough 5) + random printable-ASCII '
             'strings + canonical names and all their casings; e2e: random classes of 1-5 canonical field names x casings x engines. '
             'A case is non-trivial when the string contains a separator or a case change (strings) or the class has >=2 fields (e2e); '
             'distinct = distinct input string / distinct (fields, engine, casing, op).'),
    'trusted_base': ['model coq/model/StrConv.v transcribes re.sub scans as single-pass scanners (validated by correspondence)'],
    'assumptions': ['field names and keys are ASCII in the case-sensitive functions (non-ASCII letters are outside the model)'],
}

# --- lead: algorithm-level source tie mentioned in the technique (kept separate so the builder's text stays intact)
META['technique'] = META['technique'] + ' + translation of object_path.split_object_path and string_conv.possible_json_keys / normalize from the current source text into Gallina, proved equal to the hand-written model on every run (tie T for algorithms)'

ALPHA = 'abB1_- A'
CASINGS = ['Camel', 'Pascal', 'Kebab', 'UpperKebab', 'UpperSnake', 'Screaming']


def ref_casing(name, c):
    """Independent reference: the documented spellings of a canonical snake_case name."""
    ws = name.split('_')
    cap = [w[0].upper() + w[1:] for w in ws]
    return {'Camel': ws[0] + ''.join(cap[1:]), 'Pascal': ''.join(cap), 'Kebab': '-'.join(ws),
            'UpperKebab': '-'.join(cap), 'UpperSnake': '_'.join(cap), 'Screaming': name.upper(),
            'Snake': name}[c]


def gen_word(r):
    return ''.join(r.choice(string.ascii_lowercase) for _ in range(r.choice([2, 2, 3, 4, 6]))) + \
           ''.join(r.choice(string.digits) for _ in range(r.choice([0, 0, 0, 1, 2])))


def gen_name(r):
    return '_'.join(gen_word(r) for _ in range(r.choice([1, 2, 2, 3, 4])))


RESERVED = {'o', 'cls', 'field', 'fields', 'i', 'e', 'v1', 'tp', 'result', 'config', 'hooks', 'exclude'}


def gen_fields(r, k):
    out = []
    while len(out) < k:
        n = gen_name(r)
        if n not in out and n not in RESERVED and not __import__('keyword').iskeyword(n):
            out.append(n)
    return out


PRELUDE = '''
Definition o (x : option pstr) : pstr := match x with Some y => S "S" ++ hex y | None => S "N" end.
Definition show_sc (s : pstr) : pstr :=
  join (S ",") [hex (to_snake s); hex (to_lisp s); o (to_camel s); o (to_pascal s); hex (normalize s);
                match possible_json_keys s with Some l => S "S" ++ join (S "+") (map hex l) | None => S "N" end].
Definition show_res (fs : list pstr) (k : pstr) : pstr := o (resolve_key_v0 fs k).
'''


def enc_opt(x):
    return 'N' if x is None else 'S' + x.encode().hex()


def impl_show_sc(d):
    return ','.join([d['snake'].encode().hex(), d['lisp'].encode().hex(), enc_opt(d['camel']), enc_opt(d['pascal']),
                     d['normalize'].encode().hex(),
                     'N' if d['pjk'] is None else 'S' + '+'.join(k.encode().hex() for k in d['pjk'])])


def nontrivial_string(s):
    return any(c in s for c in '_- ') or (s.lower() != s and s.upper() != s)


def string_cases(ctx):
    L = 4 if ctx.tier == 'quick' else 5
    cases = [''.join(t) for n in range(0, L + 1) for t in itertools.product(ALPHA, repeat=n)]
    r = ctx.sub_rng('strings')
    pool = string.ascii_letters + string.digits + '_- ' + "._-'\"\\[]{}$\n\t"
    for _ in range(600 if ctx.tier == 'quick' else 6000):
        n = r.choice([1, 2, 3, 5, 8, 13, 21])
        cases.append(''.join(r.choice(pool if r.random() < 0.3 else string.ascii_letters + string.digits + '_-') for _ in range(n)))
    names = [gen_name(r) for _ in range(150 if ctx.tier == 'quick' else 1500)]
    canon = []
    for nm in names:
        canon.append(nm)
        for c in CASINGS:
            canon.append(ref_casing(nm, c))
    return cases, names, canon


def e2e_tasks(ctx):
    r = ctx.sub_rng('e2e')
    tasks = []
    n_cls = 25 if ctx.tier == 'quick' else 250
    for ci in range(n_cls):
        fields = gen_fields(r, r.choice([1, 2, 3, 4, 5]))
        vals = list(range(1, len(fields) + 1))
        for c in CASINGS + ['Snake']:
            doc = {ref_casing(f, c): v for f, v in zip(fields, vals)}
            tasks.append({'kind': 'load', 'engine': 'v0', 'fields': fields, 'op': 'load', 'doc': doc, 'casing': c,
                          'expect': dict(zip(fields, vals))})
        for kc, c in [('CAMEL', 'Camel'), ('PASCAL', 'Pascal'), ('KEBAB', 'Kebab'), ('SNAKE', 'Snake')]:
            doc = {ref_casing(f, c): v for f, v in zip(fields, vals)}
            tasks.append({'kind': 'load', 'engine': 'v1', 'fields': fields, 'op': 'load', 'doc': doc, 'casing': c,
                          'meta': {'load': {'v1_key_case': kc}}, 'expect': dict(zip(fields, vals))})
        for c in ['Camel', 'Pascal', 'Kebab', 'UpperKebab', 'UpperSnake', 'Snake']:
            doc = {ref_casing(f, c): v for f, v in zip(fields, vals)}
            tasks.append({'kind': 'load', 'engine': 'v1', 'fields': fields, 'op': 'load', 'doc': doc, 'casing': 'AUTO/' + c,
                          'meta': {'load': {'v1_key_case': 'AUTO'}}, 'expect': dict(zip(fields, vals))})
        for tr, c in [('CAMEL', 'Camel'), ('PASCAL', 'Pascal'), ('LISP', 'Kebab'), ('SNAKE', 'Snake'), ('NONE', 'Snake')]:
            tasks.append({'kind': 'dump', 'engine': 'v0', 'fields': fields, 'op': 'dump', 'values': vals, 'casing': tr,
                          'meta': {'dump': {'key_transform': tr}},
                          'expect': {ref_casing(f, c): v for f, v in zip(fields, vals)}})
        tasks.append({'kind': 'dump', 'engine': 'v0', 'fields': fields, 'op': 'dump', 'values': vals, 'casing': 'default',
                      'expect': {ref_casing(f, 'Camel'): v for f, v in zip(fields, vals)}})
    return tasks


def check_e2e(t, res):
    """Direct predicate on the implementation's outcome. Returns None if it holds, else a description."""
    if 'err' in res:
        return 'raised %s: %s' % (res['err'], res.get('msg'))
    if t['op'] == 'load':
        got = {k: (v or {}).get('int') for k, v in res['ok']['fields'].items()}
        exp = {k: str(v) for k, v in t['expect'].items()}
        if got != exp:
            return 'loaded %r, expected %r' % (got, exp)
        if not res.get('repeat_same', True):
            return 'second identical load differs from the first'
    else:
        items = res['ok'].get('dict')
        got = {k['str']: v.get('int') for k, v in items}
        exp = {k: str(v) for k, v in t['expect'].items()}
        if got != exp or [k['str'] for k, _ in items] != list(t['expect']):
            return 'dumped %r, expected %r' % (got, exp)
    return None


def resolve_cases(ctx, names):
    """(fields, key) pairs for the key-resolution model, incl. near-miss keys."""
    r = ctx.sub_rng('resolve')
    out = []
    for _ in range(120 if ctx.tier == 'quick' else 1500):
        fields = gen_fields(r, r.choice([1, 2, 3, 4]))
        f = r.choice(fields)
        k = ref_casing(f, r.choice(CASINGS + ['Snake']))
        m = r.random()
        if m < 0.25:      # near miss: edit one character
            i = r.randrange(len(k)); k = k[:i] + r.choice('xX_-9') + k[i + 1:]
        elif m < 0.35:
            k = k + r.choice(['_', 'x', '1', '-'])
        elif m < 0.45:
            k = k.swapcase()
        out.append((fields, k))
    return out


def run(ctx):
    run_paths_and_aliases(ctx)
    cases, names, canon = string_cases(ctx)
    allstr = list(dict.fromkeys(cases + canon))
    ascii_only = [s for s in allstr if all(ord(c) < 128 for c in s)]
    res_cases = resolve_cases(ctx, names)
    tasks = e2e_tasks(ctx)
    # resolution is observed on the implementation by loading {key: 7} into a class whose fields default to 0
    impl = ctx.impl('c08', {'strings': ascii_only, 'e2e': tasks,
                            'resolve': [{'fields': f, 'key': k} for f, k in res_cases]})
    impl_res = {'cases': impl['resolve']}

    # ---- model side ----
    model_ok = True
    try:
        exprs = ['show_sc %s' % coq_str(s) for s in ascii_only]
        exprs += ['show_res %s %s' % (coq_list([coq_str(f) for f in fs]), coq_str(k)) for fs, k in res_cases]
        model = ctx.coq(exprs, ['StrConv'], prelude=PRELUDE)
    except Exception as e:
        model_ok = False
        model = None
        ctx.broken_tie('model evaluation failed: %s' % str(e)[:500])

    # ---- correspondence: strings ----
    canon_set = {}
    for nm in names:
        for c in CASINGS + ['Snake']:
            canon_set.setdefault(ref_casing(nm, c), nm)
    n_dis = 0
    for i, s in enumerate(ascii_only):
        ctx.count(1, key='s:' + s, nontrivial=nontrivial_string(s))
        got = impl['strings'][i]
        # direct predicate: a documented casing of a canonical name snake-cases back to the name
        if s in canon_set and got['snake'] != canon_set[s]:
            ctx.violation('to_snake_case(%r) = %r, expected %r (documented casing of a canonical field name)' % (s, got['snake'], canon_set[s]),
                          {'kind': 'string', 'string': s, 'expected_snake': canon_set[s]})
        if model_ok and impl_show_sc(got) != model[i]:
            n_dis += 1
            ctx.disagreements_checked += 1
            if n_dis <= 5:
                ctx.broken_tie('StrConv model and implementation disagree on %r' % s,
                               {'string': s, 'impl': impl_show_sc(got), 'model': model[i]})
    ctx.hist('strings', 'ascii=%d canonical_spellings=%d' % (len(ascii_only), len(canon_set)))
    if ctx.samples == []:
        ctx.sample({'string': canon[1] if len(canon) > 1 else '', 'impl': impl['strings'][ascii_only.index(canon[1])] if len(canon) > 1 else None})

    # ---- correspondence: key resolution ----
    off = len(ascii_only)
    for j, (fs, k) in enumerate(res_cases):
        ctx.count(1, key='r:%s|%s' % (','.join(fs), k), nontrivial=len(fs) >= 2)
        got = impl_res['cases'][j]          # field name that received the value, or None
        ctx.hist('resolve_outcome', 'hit' if got else 'miss')
        if model_ok:
            exp = model[off + j]
            if enc_opt(got) != exp:
                ctx.disagreements_checked += 1
                ctx.broken_tie('key-resolution model and implementation disagree',
                               {'fields': fs, 'key': k, 'impl': got, 'model': exp})
        ctx.traces_validated += 1

    # ---- direct end-to-end predicates ----
    for t, res in zip(tasks, impl['e2e']):
        ctx.count(1, key='e:%s|%s|%s|%s' % (','.join(t['fields']), t['engine'], t['casing'], t['op']), nontrivial=len(t['fields']) >= 2)
        ctx.hist('e2e', '%s/%s/%s' % (t['engine'], t['op'], t['casing']))
        bad = check_e2e(t, res)
        if bad:
            ctx.violation('%s engine %s with %s keys: %s' % (t['engine'], t['op'], t['casing'], bad),
                          {'kind': 'e2e', 'task': t})
    ctx.sample({'e2e_task': tasks[7], 'impl_outcome': impl['e2e'][7]})
    ctx.sample({'resolve_case': {'fields': res_cases[0][0], 'key': res_cases[0][1]}, 'impl': impl_res['cases'][0]})


# ---------------------------------------------------------------------------
# object paths and aliases
PATH_ALPHA = 'a1.[]"\'\\-T'
PATH_PRELUDE = '''
Definition show_tok (t : tok) : pstr := match t with TStr s => S "s" ++ hex s | TNum s => S "n" ++ hex s | TBool true => S "b1" | TBool false => S "b0" end.
Definition show_path (s : pstr) : pstr := join (S ",") (map show_tok (split_object_path s)).
'''
ALIAS_POOL = ["it's", 'a"b', 'c\\d', 'x\ny', '{z}', 'é.ü', 'tab\there', "'", '"', '\\', "mixed'\"q", 'a.b[0]', '{0!r}', '%s',
              'key with space', 'ünï-cødé', '$ref', 'a\\', "\\'", 'null', 'True', '0', ' lead', 'trail ', 'a\x00b', '日本']


UNICODE_CLASS_REPS = [0x01, 0x1f, 0x7f, 0x85, 0xa0, 0xad, 0x301, 0x200b, 0x200d, 0x200f, 0x2028, 0x2029, 0xfeff, 0xe000,
                      0xfffd, 0x4e2d, 0xffff, 0x10000, 0x1f511, 0x1f600, 0x20000, 0x1d4b3, 0xe0001, 0x10ffff]


def conv_num(tok):
    try:
        return int(tok)
    except ValueError:
        try:
            return float(tok)
        except ValueError:
            return tok


def decode_model_path(m):
    out = []
    if m == '':
        return out
    for t in m.split(','):
        if t[0] == 's':
            out.append(bytes.fromhex(t[1:]).decode('utf-8', 'surrogateescape'))
        elif t[0] == 'n':
            out.append(conv_num(bytes.fromhex(t[1:]).decode('utf-8', 'surrogateescape')))
        else:
            out.append(t == 'b1')
    return out


def canon_py(x):
    import math
    if isinstance(x, bool):
        return {'bool': x}
    if isinstance(x, int):
        return {'int': str(x)}
    if isinstance(x, float):
        return {'float': x.hex() if math.isfinite(x) else repr(x)}
    return {'str': x}


def render_comp(c):
    """Python twin of ObjPathProofs.render_comp."""
    if isinstance(c, bool):
        return '[True]' if c else '[False]'
    if isinstance(c, (int, float)):
        return '[%r]' % c
    if c.isidentifier() and c.isascii() and c not in ('true', 'false', 'True', 'False'):
        return '.' + c
    return '["%s"]' % c.replace('"', '\\"')


def gen_comp(r):
    k = r.random()
    if k < 0.3:
        return ''.join(r.choice('abcxyz_') for _ in range(r.choice([1, 2, 5])))
    if k < 0.55:
        pool = 'ab.[]\'" -_/{}:,é1'
        return ''.join(r.choice(pool) for _ in range(r.choice([1, 2, 3, 6])))
    if k < 0.8:
        return r.choice([0, 1, -1, 7, -12, 10 ** 12, r.randrange(-1000, 1000)])
    if k < 0.92:
        return r.choice([1.5, -0.25, 1e300, 2.0, r.random() * 100])
    return r.choice([True, False])


def run_paths_and_aliases(ctx):
    import itertools
    r = ctx.sub_rng('paths')
    L = 4 if ctx.tier == 'quick' else 5
    raw = [''.join(t) for n in range(0, L + 1) for t in itertools.product(PATH_ALPHA, repeat=n)]
    if ctx.tier == 'quick':
        raw = [s for s in raw if len(s) <= 3] + r.sample([s for s in raw if len(s) == 4], 2500)
    pool2 = 'abnT01.[]"\'\\-+ _e'
    for _ in range(1500 if ctx.tier == 'quick' else 15000):
        raw.append(''.join(r.choice(pool2 if r.random() < 0.7 else 'xyz_.[]"\\ntr\'/{}9') for _ in range(r.choice([3, 5, 8, 13]))))
    raw = list(dict.fromkeys(raw))
    comp_lists = [[gen_comp(r) for _ in range(r.choice([1, 2, 3, 4]))] for _ in range(200 if ctx.tier == 'quick' else 2000)]
    rendered = [''.join(render_comp(c) for c in cl) for cl in comp_lists]
    allp = raw + rendered
    # e2e path tasks
    path_tasks = []
    for cl, ps in list(zip(comp_lists, rendered))[:40 if ctx.tier == 'quick' else 300]:
        variants = [(cl, ps)]
        # the path's head key may coincide with the field's own name (the loader must not treat
        # that top-level key as the field itself)
        own = ['f'] + list(cl)
        variants.append((own, ''.join(render_comp(c) for c in own)))
        for cl2, ps2 in variants:
            for eng, style in [('v0', 'path_field'), ('v0', 'KeyPath'), ('v1', 'AliasPath')]:
                path_tasks.append({'engine': eng, 'style': style, 'path': ps2, 'value': r.randrange(2, 99),
                                   'comps': [[k, v] for c in cl2 for k, v in canon_py(c).items()]})
    # alias tasks
    alias_tasks = []
    pool = list(ALIAS_POOL)
    # one representative per character class of "all printable characters ... unicode" and of the
    # classes Python's repr / str.isprintable / JSON escaping treat differently: C0/C1 controls, NBSP,
    # line/paragraph separators, combining marks, zero-width / bidi marks, BOM, private use, BMP CJK,
    # and NON-BMP planes (emoji, CJK ext-B, mathematical letters) where UTF-16 based escaping
    # (json.dumps surrogate pairs) differs from Python string literals
    for cp in UNICODE_CLASS_REPS:
        c = chr(cp)
        pool.extend([c, 'a' + c + 'b'])
    uni = [chr(cp) for cp in UNICODE_CLASS_REPS]
    for _ in range(12 if ctx.tier == 'quick' else 120):
        pool.append(''.join(r.choice(uni + list('ab\'"\\')) for _ in range(r.choice([2, 3, 5]))))
    for _ in range(30 if ctx.tier == 'quick' else 300):
        pool.append(''.join(r.choice('ab\'"\\\n{}.[] é$%') for _ in range(r.choice([1, 2, 4, 7]))))
    for i in range(110 if ctx.tier == 'quick' else 900):
        k = r.choice([1, 1, 2, 3])
        al = []
        while len(al) < k:
            a = r.choice(pool)
            if a not in al and a not in ('f', 'g') and a != '__all__':
                al.append(a)
        eng, style = r.choice([('v0', 'json_field'), ('v0', 'json_key'), ('v0', 'meta_map'), ('v1', 'v1_alias'), ('v1', 'v1_meta')])
        t = {'engine': eng, 'style': style, 'aliases': al, 'all': r.random() < 0.6, 'dump': True, 'value': r.randrange(2, 50)}
        if style in ('json_field', 'json_key', 'v1_alias') and r.random() < 0.15:
            t['dump'] = False
        if style == 'v1_alias' and t['dump'] and r.random() < 0.15:
            t['load_only'] = True
        alias_tasks.append(t)
    impl = ctx.impl('c08_paths', {'split': allp, 'alias': alias_tasks, 'path': path_tasks})
    model = None
    try:
        ascii_paths = [(i, p_) for i, p_ in enumerate(allp)]
        model = ctx.coq(['show_path %s' % coq_str(p_) for p_ in allp], ['ObjPath'], prelude=PATH_PRELUDE, tag='paths')
    except Exception as e:
        ctx.broken_tie('ObjPath model evaluation failed: %s' % str(e)[:400])
    # tokenizer: model vs implementation, and round trip of rendered component lists
    for i, p_ in enumerate(allp):
        ctx.count(1, key='p:' + p_, nontrivial=any(ch in p_ for ch in '.[]"\''))
        got = impl['split'][i]
        if i >= len(raw):
            cl = comp_lists[i - len(raw)]
            exp = [canon_py(c) for c in cl]
            if got.get('ok') != exp:
                ctx.violation('split_object_path(%r) = %r, expected the components %r it was rendered from' % (p_, got, cl),
                              {'kind': 'path_split', 'path': p_, 'expected': exp})
        if model is not None and all(ord(ch) < 128 for ch in p_):
            if 'ok' not in got or [canon_py(x) for x in decode_model_path(model[i])] != got['ok']:
                ctx.disagreements_checked += 1
                ctx.broken_tie('ObjPath model and implementation disagree on %r' % p_, {'path': p_, 'impl': got, 'model': model[i]})
    ctx.hist('paths', 'raw=%d rendered=%d' % (len(raw), len(rendered)))
    ctx.sample({'path': rendered[0], 'components': [canon_py(c) for c in comp_lists[0]], 'impl': impl['split'][len(raw)]})
    # e2e paths
    for t, res in zip(path_tasks, impl['path']):
        ctx.count(1, key='pe:%s|%s' % (t['style'], t['path']), nontrivial=len(t['comps']) >= 2)
        bad = check_path_e2e(t, res)
        if bad:
            ctx.violation('%s %s with path %r: %s' % (t['engine'], t['style'], t['path'], bad), {'kind': 'path_e2e', 'task': t})
    # aliases
    for t, res in zip(alias_tasks, impl['alias']):
        ctx.count(1, key='a:%s|%s|%s|%s' % (t['style'], '|'.join(t['aliases']), t['all'], t['dump']), nontrivial=True)
        ctx.hist('alias_style', t['style'])
        bad = check_alias(t, res)
        if bad:
            ctx.violation('%s alias %r (%s, all=%s, dump=%s): %s' % (t['engine'], t['aliases'], t['style'], t['all'], t['dump'], bad),
                          {'kind': 'alias', 'task': t})
    ctx.sample({'alias_task': alias_tasks[0], 'impl': impl['alias'][0]})


def check_path_e2e(t, res):
    if 'err' in res:
        return 'class definition failed: %s %s' % (res['err'], res.get('msg'))
    ld = res['load']
    if 'err' in ld:
        return 'load raised %s: %s' % (ld['err'], ld.get('msg'))
    if (ld['ok']['fields']['f'] or {}).get('int') != str(t['value']):
        return 'load read %r, expected %d' % (ld['ok']['fields']['f'], t['value'])
    if res.get('dump_at_path') != {'int': str(t['value'])}:
        return 'dump did not place the value at the path: %r' % (res.get('dump_at_path'),)
    return None


def check_alias(t, res):
    if 'err' in res:
        return 'class definition failed: %s %s' % (res['err'], res.get('msg'))
    v = str(t['value'])
    for a, ld in zip(t['aliases'], res['loads']):
        if 'err' in ld:
            return 'load under alias %r raised %s: %s' % (a, ld['err'], ld.get('msg'))
        f = ld['ok']['fields']
        if (f['f'] or {}).get('int') != v or (f['g'] or {}).get('int') != '1':
            return 'load under alias %r gave %r' % (a, f)
    if t['engine'] == 'v1' and res.get('both') is not None:
        b = res['both']
        if 'err' in b:
            return 'load with all aliases present raised %s: %s' % (b['err'], b.get('msg'))
        if (b['ok']['fields']['f'] or {}).get('int') != v:
            return 'several aliases present: first listed did not win: %r' % (b['ok']['fields'],)
    d = res['dump']
    if d is None or 'err' in d:
        return 'dump raised %r' % (d,)
    keys = {k['str']: w.get('int') for k, w in d['ok']['dict']}
    st = t['style']
    if t['dump'] is False:
        exp_key = None
    elif st in ('json_field', 'json_key', 'meta_map'):
        exp_key = t['aliases'][0] if t['all'] else 'f'
    elif st == 'v1_alias':
        exp_key = 'f' if t.get('load_only') else t['aliases'][0]
    else:
        exp_key = t['aliases'][0]
    exp = {'g': '1'}
    if exp_key is not None:
        exp[exp_key] = v
    if keys != exp:
        return 'dumped %r, expected %r' % (keys, exp)
    if res.get('dump2') != d:
        return 'second dump differs from the first'
    return None


def replay(ctx, obj):
    if obj.get('kind') == 'path_split':
        got = ctx.impl('c08_paths', {'split': [obj['path']]})['split'][0]
        print('split_object_path(%r) = %r (expected %r)' % (obj['path'], got, obj['expected']))
        return got.get('ok') == obj['expected']
    if obj.get('kind') == 'path_e2e':
        res = ctx.impl('c08_paths', {'path': [obj['task']]})['path'][0]
        bad = check_path_e2e(obj['task'], res)
        print('outcome: %s' % (bad or 'as expected'))
        return bad is None
    if obj.get('kind') == 'alias':
        res = ctx.impl('c08_paths', {'alias': [obj['task']]})['alias'][0]
        bad = check_alias(obj['task'], res)
        print('outcome: %s' % (bad or 'as expected'))
        return bad is None
    if obj.get('kind') == 'string':
        got = ctx.impl('c08', {'strings': [obj['string']], 'e2e': []})['strings'][0]
        print('to_snake_case(%r) = %r (expected %r)' % (obj['string'], got['snake'], obj['expected_snake']))
        return got['snake'] == obj['expected_snake']
    if obj.get('kind') == 'e2e':
        res = ctx.impl('c08', {'strings': [], 'e2e': [obj['task']]})['e2e'][0]
        bad = check_e2e(obj['task'], res)
        print('outcome: %s' % (bad or 'as expected'))
        return bad is None
    print('replay object names a broken tie, not an input: %s' % json.dumps(obj)[:1000])
    return False
