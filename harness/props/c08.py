"""C08 — every documented key spelling, alias or path reaches its field, both ways.

Theorems: coq/props/C08.v.  Correspondence: the StrConv model (all six
functions + possible_json_keys + default-engine key resolution) against
dataclass_wizard.utils.string_conv and real loads/dumps.  Direct predicates:
end-to-end loads under every casing (default engine, v1 explicit key case, v1
AUTO) and dumps under every key transform, for generated canonical names.
"""
import itertools, json, string
from lib.coqrun import coq_str, coq_list

META = {
    'id': 'C08',
    'title': 'Every documented key spelling, alias or path reaches its field, both ways',
    'level': 'proof',
    'technique': 'Coq proof (induction over word lists / scanner invariants) on a hand-written Gallina model + differential correspondence with the implementation',
    'design_ref': 'DESIGN.md section 4 C08',
    'theorems': ['C08_casing_roundtrip', 'C08_casing_resolves', 'C08_snake_fixed', 'C08_letter_case_table'],
    'tables': ['LetterCase'],
    'level_text': ('Theorems proved in Coq for ALL canonical snake_case names (any number of words, any length) and all six '
                   'documented casings, about an executable model of utils/string_conv.py and the default-engine key '
                   'resolution; the model is re-validated against the implementation on every run (exhaustive small-alphabet '
                   'sweep + random strings), and the end-to-end statement is also tested directly on fromdict/asdict.'),
    'level_note': ('Trusted: Coq kernel + vm_compute; the hand-written model (ASCII only for case-sensitive functions); the '
                   'correspondence harness. Regex engine, dict semantics and dataclasses are exercised, not proved.'),
    'rule': ('strings: exhaustive over alphabet {a,b,B,1,_,-,space,A} up to length L (quick 4, thorough 5) + random printable-ASCII '
             'strings + canonical names and all their casings; e2e: random classes of 1-5 canonical field names x casings x engines. '
             'A case is non-trivial when the string contains a separator or a case change (strings) or the class has >=2 fields (e2e); '
             'distinct = distinct input string / distinct (fields, engine, casing, op).'),
    'trusted_base': ['model coq/model/StrConv.v transcribes re.sub scans as single-pass scanners (validated by correspondence)'],
    'assumptions': ['field names and keys are ASCII in the case-sensitive functions (non-ASCII letters are outside the model)'],
}

ALPHA = 'abB1_- A'
CASINGS = ['Camel', 'Pascal', 'Kebab', 'UpperKebab', 'UpperSnake', 'Screaming']


def ref_casing(name, c):
    """Independent reference: the documented spellings of a canonical snake_case name."""
    ws = name.split('_')
    cap = [w[0].upper() + w[1:] for w in ws]
    return {'Camel': ws[0] + ''.join(cap[1:]), 'Pascal': ''.join(cap), 'Kebab': '-'.join(ws),
            'UpperKebab': '-'.join(cap), 'UpperSnake': '_'.join(cap), 'Screaming': name.upper(),
            'Snake': name}[c]


def gen_word(r):
    return ''.join(r.choice(string.ascii_lowercase) for _ in range(r.choice([2, 2, 3, 4, 6]))) + \
           ''.join(r.choice(string.digits) for _ in range(r.choice([0, 0, 0, 1, 2])))


def gen_name(r):
    return '_'.join(gen_word(r) for _ in range(r.choice([1, 2, 2, 3, 4])))


RESERVED = {'o', 'cls', 'field', 'fields', 'i', 'e', 'v1', 'tp', 'result', 'config', 'hooks', 'exclude'}


def gen_fields(r, k):
    out = []
    while len(out) < k:
        n = gen_name(r)
        if n not in out and n not in RESERVED and not __import__('keyword').iskeyword(n):
            out.append(n)
    return out


PRELUDE = '''
Definition o (x : option pstr) : pstr := match x with Some y => S "S" ++ hex y | None => S "N" end.
Definition show_sc (s : pstr) : pstr :=
  join (S ",") [hex (to_snake s); hex (to_lisp s); o (to_camel s); o (to_pascal s); hex (normalize s);
                match possible_json_keys s with Some l => S "S" ++ join (S "+") (map hex l) | None => S "N" end].
Definition show_res (fs : list pstr) (k : pstr) : pstr := o (resolve_key_v0 fs k).
'''


def enc_opt(x):
    return 'N' if x is None else 'S' + x.encode().hex()


def impl_show_sc(d):
    return ','.join([d['snake'].encode().hex(), d['lisp'].encode().hex(), enc_opt(d['camel']), enc_opt(d['pascal']),
                     d['normalize'].encode().hex(),
                     'N' if d['pjk'] is None else 'S' + '+'.join(k.encode().hex() for k in d['pjk'])])


def nontrivial_string(s):
    return any(c in s for c in '_- ') or (s.lower() != s and s.upper() != s)


def string_cases(ctx):
    L = 4 if ctx.tier == 'quick' else 5
    cases = [''.join(t) for n in range(0, L + 1) for t in itertools.product(ALPHA, repeat=n)]
    r = ctx.sub_rng('strings')
    pool = string.ascii_letters + string.digits + '_- ' + "._-'\"\\[]{}$\n\t"
    for _ in range(600 if ctx.tier == 'quick' else 6000):
        n = r.choice([1, 2, 3, 5, 8, 13, 21])
        cases.append(''.join(r.choice(pool if r.random() < 0.3 else string.ascii_letters + string.digits + '_-') for _ in range(n)))
    names = [gen_name(r) for _ in range(150 if ctx.tier == 'quick' else 1500)]
    canon = []
    for nm in names:
        canon.append(nm)
        for c in CASINGS:
            canon.append(ref_casing(nm, c))
    return cases, names, canon


def e2e_tasks(ctx):
    r = ctx.sub_rng('e2e')
    tasks = []
    n_cls = 25 if ctx.tier == 'quick' else 250
    for ci in range(n_cls):
        fields = gen_fields(r, r.choice([1, 2, 3, 4, 5]))
        vals = list(range(1, len(fields) + 1))
        for c in CASINGS + ['Snake']:
            doc = {ref_casing(f, c): v for f, v in zip(fields, vals)}
            tasks.append({'kind': 'load', 'engine': 'v0', 'fields': fields, 'op': 'load', 'doc': doc, 'casing': c,
                          'expect': dict(zip(fields, vals))})
        for kc, c in [('CAMEL', 'Camel'), ('PASCAL', 'Pascal'), ('KEBAB', 'Kebab'), ('SNAKE', 'Snake')]:
            doc = {ref_casing(f, c): v for f, v in zip(fields, vals)}
            tasks.append({'kind': 'load', 'engine': 'v1', 'fields': fields, 'op': 'load', 'doc': doc, 'casing': c,
                          'meta': {'load': {'v1_key_case': kc}}, 'expect': dict(zip(fields, vals))})
        for c in ['Camel', 'Pascal', 'Kebab', 'UpperKebab', 'UpperSnake', 'Snake']:
            doc = {ref_casing(f, c): v for f, v in zip(fields, vals)}
            tasks.append({'kind': 'load', 'engine': 'v1', 'fields': fields, 'op': 'load', 'doc': doc, 'casing': 'AUTO/' + c,
                          'meta': {'load': {'v1_key_case': 'AUTO'}}, 'expect': dict(zip(fields, vals))})
        for tr, c in [('CAMEL', 'Camel'), ('PASCAL', 'Pascal'), ('LISP', 'Kebab'), ('SNAKE', 'Snake'), ('NONE', 'Snake')]:
            tasks.append({'kind': 'dump', 'engine': 'v0', 'fields': fields, 'op': 'dump', 'values': vals, 'casing': tr,
                          'meta': {'dump': {'key_transform': tr}},
                          'expect': {ref_casing(f, c): v for f, v in zip(fields, vals)}})
        tasks.append({'kind': 'dump', 'engine': 'v0', 'fields': fields, 'op': 'dump', 'values': vals, 'casing': 'default',
                      'expect': {ref_casing(f, 'Camel'): v for f, v in zip(fields, vals)}})
    return tasks


def check_e2e(t, res):
    """Direct predicate on the implementation's outcome. Returns None if it holds, else a description."""
    if 'err' in res:
        return 'raised %s: %s' % (res['err'], res.get('msg'))
    if t['op'] == 'load':
        got = {k: (v or {}).get('int') for k, v in res['ok']['fields'].items()}
        exp = {k: str(v) for k, v in t['expect'].items()}
        if got != exp:
            return 'loaded %r, expected %r' % (got, exp)
        if not res.get('repeat_same', True):
            return 'second identical load differs from the first'
    else:
        items = res['ok'].get('dict')
        got = {k['str']: v.get('int') for k, v in items}
        exp = {k: str(v) for k, v in t['expect'].items()}
        if got != exp or [k['str'] for k, _ in items] != list(t['expect']):
            return 'dumped %r, expected %r' % (got, exp)
    return None


def resolve_cases(ctx, names):
    """(fields, key) pairs for the key-resolution model, incl. near-miss keys."""
    r = ctx.sub_rng('resolve')
    out = []
    for _ in range(120 if ctx.tier == 'quick' else 1500):
        fields = gen_fields(r, r.choice([1, 2, 3, 4]))
        f = r.choice(fields)
        k = ref_casing(f, r.choice(CASINGS + ['Snake']))
        m = r.random()
        if m < 0.25:      # near miss: edit one character
            i = r.randrange(len(k)); k = k[:i] + r.choice('xX_-9') + k[i + 1:]
        elif m < 0.35:
            k = k + r.choice(['_', 'x', '1', '-'])
        elif m < 0.45:
            k = k.swapcase()
        out.append((fields, k))
    return out


def run(ctx):
    cases, names, canon = string_cases(ctx)
    allstr = list(dict.fromkeys(cases + canon))
    ascii_only = [s for s in allstr if all(ord(c) < 128 for c in s)]
    res_cases = resolve_cases(ctx, names)
    tasks = e2e_tasks(ctx)
    # resolution is observed on the implementation by loading {key: 7} into a class whose fields default to 0
    impl = ctx.impl('c08', {'strings': ascii_only, 'e2e': tasks,
                            'resolve': [{'fields': f, 'key': k} for f, k in res_cases]})
    impl_res = {'cases': impl['resolve']}

    # ---- model side ----
    model_ok = True
    try:
        exprs = ['show_sc %s' % coq_str(s) for s in ascii_only]
        exprs += ['show_res %s %s' % (coq_list([coq_str(f) for f in fs]), coq_str(k)) for fs, k in res_cases]
        model = ctx.coq(exprs, ['StrConv'], prelude=PRELUDE)
    except Exception as e:
        model_ok = False
        model = None
        ctx.broken_tie('model evaluation failed: %s' % str(e)[:500])

    # ---- correspondence: strings ----
    canon_set = {}
    for nm in names:
        for c in CASINGS + ['Snake']:
            canon_set.setdefault(ref_casing(nm, c), nm)
    n_dis = 0
    for i, s in enumerate(ascii_only):
        ctx.count(1, key='s:' + s, nontrivial=nontrivial_string(s))
        got = impl['strings'][i]
        # direct predicate: a documented casing of a canonical name snake-cases back to the name
        if s in canon_set and got['snake'] != canon_set[s]:
            ctx.violation('to_snake_case(%r) = %r, expected %r (documented casing of a canonical field name)' % (s, got['snake'], canon_set[s]),
                          {'kind': 'string', 'string': s, 'expected_snake': canon_set[s]})
        if model_ok and impl_show_sc(got) != model[i]:
            n_dis += 1
            ctx.disagreements_checked += 1
            if n_dis <= 5:
                ctx.broken_tie('StrConv model and implementation disagree on %r' % s,
                               {'string': s, 'impl': impl_show_sc(got), 'model': model[i]})
    ctx.hist('strings', 'ascii=%d canonical_spellings=%d' % (len(ascii_only), len(canon_set)))
    if ctx.samples == []:
        ctx.sample({'string': canon[1] if len(canon) > 1 else '', 'impl': impl['strings'][ascii_only.index(canon[1])] if len(canon) > 1 else None})

    # ---- correspondence: key resolution ----
    off = len(ascii_only)
    for j, (fs, k) in enumerate(res_cases):
        ctx.count(1, key='r:%s|%s' % (','.join(fs), k), nontrivial=len(fs) >= 2)
        got = impl_res['cases'][j]          # field name that received the value, or None
        ctx.hist('resolve_outcome', 'hit' if got else 'miss')
        if model_ok:
            exp = model[off + j]
            if enc_opt(got) != exp:
                ctx.disagreements_checked += 1
                ctx.broken_tie('key-resolution model and implementation disagree',
                               {'fields': fs, 'key': k, 'impl': got, 'model': exp})
        ctx.traces_validated += 1

    # ---- direct end-to-end predicates ----
    for t, res in zip(tasks, impl['e2e']):
        ctx.count(1, key='e:%s|%s|%s|%s' % (','.join(t['fields']), t['engine'], t['casing'], t['op']), nontrivial=len(t['fields']) >= 2)
        ctx.hist('e2e', '%s/%s/%s' % (t['engine'], t['op'], t['casing']))
        bad = check_e2e(t, res)
        if bad:
            ctx.violation('%s engine %s with %s keys: %s' % (t['engine'], t['op'], t['casing'], bad),
                          {'kind': 'e2e', 'task': t})
    ctx.sample({'e2e_task': tasks[7], 'impl_outcome': impl['e2e'][7]})
    ctx.sample({'resolve_case': {'fields': res_cases[0][0], 'key': res_cases[0][1]}, 'impl': impl_res['cases'][0]})


def replay(ctx, obj):
    if obj.get('kind') == 'string':
        got = ctx.impl('c08', {'strings': [obj['string']], 'e2e': []})['strings'][0]
        print('to_snake_case(%r) = %r (expected %r)' % (obj['string'], got['snake'], obj['expected_snake']))
        return got['snake'] == obj['expected_snake']
    if obj.get('kind') == 'e2e':
        res = ctx.impl('c08', {'strings': [], 'e2e': [obj['task']]})['e2e'][0]
        bad = check_e2e(obj['task'], res)
        print('outcome: %s' % (bad or 'as expected'))
        return bad is None
    print('replay object names a broken tie, not an input: %s' % json.dumps(obj)[:1000])
    return False
