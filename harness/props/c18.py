"""C18 — EnvWizard resolves fields by documented precedence; os.environ stays untouched.

Theorems: coq/props/C18.v (model coq/model/EnvModel.v, lemmas coq/proofs/EnvProofs.v).

Two case streams, all environment variables set only inside child interpreters:
 (A) HISTORIES: several EnvWizard classes, instantiations (with and without _reload, _env_file,
     _env_prefix, _secrets_dir, keyword subsets) interleaved with os.environ edits, one interpreter
     per history; the whole trace is compared with the Coq model's trace (sources per field,
     lookups.environ, os.environ); the final `_reload=True` instantiation is replayed in a pristine
     interpreter with the same final environment.
 (B) PURE: many (environment, class, arguments) cases with `_reload=True` executed back to back in
     a few long-lived interpreters (each case therefore also has a long unrelated history); the
     model evaluates each case from the initial state.
Direct predicates on the implementation, evaluated for EVERY `_reload=True` instantiation,
independent of the model: outcome is admissible for `ref_resolve` (written from the documentation,
docs/env_magic.rst, README, the Meta attribute comments and the docstrings of the lookup
priorities) on the current os.environ + secret dirs + dotenv files; MissingVars lists exactly ALL
sourceless required fields; os.environ is identical before/after every library call; history
replay == pristine replay.
"""
import json, re, datetime, concurrent.futures as cf
import os
from lib import coqrun
from lib.coqrun import coq_str, coq_list, coq_bool, coq_opt
from props import c18init

META = {
    'id': 'C18',
    'title': 'EnvWizard resolves fields by documented precedence; os.environ stays untouched',
    'level': 'proof',
    'technique': ('Coq proof (cache invariant preserved by every operation, induction over operation histories; '
                  'refinement of the cached stateful lookups by a pure specification) on a hand-written Gallina '
                  'model of environ/lookups.py and the generated EnvWizard.__init__ + differential correspondence '
                  'of whole operation traces with the implementation + direct predicates'),
    'design_ref': 'DESIGN.md section 4 C18',
    'theorems': ['C18_pure', 'C18_deterministic_region', 'C18_invariant', 'C18_reload', 'C18_overlay_value', 'C18_missing_all',
                 'C18_environ_untouched', 'C18_priority_table', 'C18_lookup_source_tie',
                 'C18_overlay_order_table', 'C18_field_decision_table', 'C18_kwarg_wins', 'C18_arg_overrides_meta',
                 'C18_secret_values', 'C18_secrets_fs', 'C18_factory_fresh'],
    'tables': ['LetterCase', 'EnvLookupAlg', 'EnvInitOrderAlg'],
    'level_text': ('Proved in Coq for ALL operation histories (instantiations of arbitrary classes with arbitrary '
                   'arguments, Env.reload at class creation, os.environ edits) over arbitrary environments: the cache '
                   'invariant holds in every reachable state, hence an instantiation with _reload=True resolves every '
                   'field to a source admitted by the pure documented-precedence specification on the current '
                   'os.environ overlaid with secrets and dotenv values (equal to it wherever the specification admits '
                   'one source; "one of" where several variables clean to the same key), reports all sourceless '
                   'required fields together, and no library operation changes os.environ. Also proved: the ORDER of the '
                   'generated __init__ (Env.reload/load_environ, secrets, Meta dotenv values, _env_file; per field keyword > '
                   'lookup > default > default_factory() > missing) is read from the current source text of '
                   'environ/wizard.py and lookups.py into tables, and interpreting the decoded tables IS the model '
                   '(C18_overlay_order_table, C18_field_decision_table); keyword arguments win in every state without any '
                   'lookup; _env_prefix/_secrets_dir/_env_file arguments replace the Meta settings completely; '
                   'Env.secret_values over the file system (file name = variable, content verbatim, later directory wins, '
                   'non-files and absent directories ignored, a file path -> ValueError with os.environ untouched); no two '
                   'attributes in any history ever share a default_factory result. Proved about an executable '
                   'model that is re-validated against the implementation on every run (whole traces).'),
    'level_note': ('Trusted: Coq kernel; the hand-written model (ASCII names; conversion by type, python-dotenv parsing, '
                   'directory listing / is_file / read_text themselves are outside the model and exercised by the harness '
                   'only; what Env.secret_values does with their answers IS modelled); the harness. '
                   'F13, F21, F34, F37 are repaired in /repo; the theorems are unconditional.'),
    'rule': ('histories: random universes of 2-4 field base names with typed values, 1-3 classes (all four '
             'key_lookup_with_load settings, prefixes, env_field/json_field/field_to_env_var mappings with 1-3 candidate '
             'names, Meta env_file/secrets_dir), 5-14 operations, F13-shaped delete-the-winner sequences injected; pure: one '
             'instantiate per random (environment, class, arguments). A case is non-trivial when at least one field is '
             'resolved from a variable or the environment contains a near-miss/colliding name; distinct = distinct '
             '(class, arguments, environment) of an instantiate.'),
    'trusted_base': ['model coq/model/EnvModel.v (set iteration order abstracted: list order in the model, hash order in Python; '
                     'compared as "one of" where it matters)',
                     'python-dotenv parsing and the pathlib primitives (iterdir, is_file, is_dir, exists, read_text) are exercised, '
                     'not modelled; the logic of Env.secret_values over their answers is modelled (coq/model/EnvInit.v)',
                     'decoders decode_preamble / decode_field of coq/model/EnvInit.v (generated line text -> step) and the '
                     'translator harness/tables/EnvInitOrderAlg.py (fail-closed on any unexpected statement shape)',
                     'default_factory stamps are an allocation count of the model; a ParseError that aborts the field loop '
                     'midway (conversion, outside the model) is not generated in the stamp-compared stream'],
    'assumptions': ['variable and field names are ASCII (str.upper/lower are modelled on ASCII)',
                    'a field with an explicit mapping is looked up under its mapped name(s) only (reading of the documentation chosen by the check)',
                    'precedence between a secrets file and a dotenv entry of the same name is not documented: either is accepted by the direct predicate (the model pins dotenv-over-secrets, the current behaviour)'],
}

# --- lead: algorithm-level source tie mentioned in the technique (kept separate so the builder's text stays intact)
META['technique'] = META['technique'] + ' + translation of the lookup tiers of environ/lookups.py from the current source text into Gallina, proved equal to the hand-written model on every run (tie T for algorithms)'

# ----------------------------------------------------------------------------------------------
# independent reference (from the documentation)
# ----------------------------------------------------------------------------------------------
TRUTHY = {'true', 't', 'yes', 'y', 'on', '1'}


def ref_clean(s):
    """'any variable equal to it after removing "_" and "-" and lowering case'"""
    return ''.join(c for c in s if c not in '_-').lower()


def ref_snake(s):
    """'myEnvVar' -> 'my_env_var' for the simple names the generator produces."""
    s = s.replace('-', '_')
    out = []
    for i, c in enumerate(s):
        if c.isupper() and i > 0 and s[i - 1] != '_' and (
                s[i - 1].islower() or s[i - 1].isdigit() or (i + 1 < len(s) and s[i + 1].islower())):
            out.append('_')
        out.append(c.lower())
    return ''.join(out)


SIMPLE_KEY = re.compile(r'^([A-Z][A-Z0-9]*_|[a-z][a-z0-9]*_)?([A-Za-z][a-z0-9]+([A-Z][a-z0-9]+)*|[a-z0-9]+(_[a-z0-9]+)*)$')


def ref_environment(os_env, secret_dirs, dotenv_files):
    """Secrets and dotenv values overlay the process environment, later files overriding earlier
    ones.  Returns (environment, names whose value is ambiguous: defined differently by a secrets
    file and a dotenv file -> {name: [values]})."""
    sec, dot = {}, {}
    for d in secret_dirs:
        sec.update(dict(d))
    for f in dotenv_files:
        for k, v in f:
            dot[k] = v
    env = dict(os_env)
    env.update(sec)
    env.update(dot)
    amb = {k: [sec[k], dot[k]] for k in sec if k in dot and sec[k] != dot[k]}
    return env, amb


def ref_lookup(env, prio, key):
    """Admissible variable names for `key` under a LetterCasePriority (list; [] = none)."""
    if prio in (None, 'SCREAMING_SNAKE'):
        exact = [key.upper(), key]
    elif prio == 'SNAKE':
        exact = [key, key.upper()]
    else:  # CAMEL / PASCAL: as written, then SCREAMING_SNAKE, then snake_case
        sn = ref_snake(key)
        exact = [key, sn.upper(), sn]
    for n in exact:
        if n in env:
            return [n]
    ck = ref_clean(key)
    return sorted(v for v in env if ref_clean(v) == ck)


def eff(cls, inst):
    prefix = inst['prefix'] if 'prefix' in inst else cls.get('prefix')
    return prefix or ''


def ref_field(env, cls, inst, f):
    """('K',) | ('E', [names]) | ('D',) | ('M',)"""
    if f['name'] in inst.get('kwargs', {}):
        return ('K',)
    prefix = eff(cls, inst)
    ex = f.get('explicit')
    if ex:
        names = [ex] if isinstance(ex, str) else list(ex)
        for n in names:
            if prefix + n in env:
                return ('E', [prefix + n])
        cands = []
    else:
        cands = ref_lookup(env, cls.get('prio'), prefix + f['name'])
    if cands:
        return ('E', cands)
    return ('D',) if 'default' in f else ('M',)


# ---- conversion "like a JSON value (with comma/equals splitting for collections)" --------------
def c_int(v):
    return {'int': str(v)}


def conv(tp, raw):
    """canonical (harness/impl/_util.canon) form of the value a field of type tp gets from raw
    (a str from the environment, or an already typed keyword value)."""
    if tp == 'str':
        return {'str': raw}
    if tp in ('int', 'Optional[int]'):
        if raw is None and tp == 'Optional[int]':
            return None
        if isinstance(raw, int):
            return c_int(raw)
        return c_int(int(raw))
    if tp == 'float':
        return {'float': float(raw).hex()}
    if tp == 'bool':
        if isinstance(raw, bool):
            return {'bool': raw}
        return {'bool': raw.lower() in TRUTHY}
    if tp == 'list[int]':
        if isinstance(raw, str):
            items = json.loads(raw) if raw.lstrip().startswith('[') else [x.strip() for x in raw.split(',')]
        else:
            items = raw
        return {'list': [c_int(int(x)) for x in items]}
    if tp == 'list[str]':
        # comma splitting keeps EVERY segment (stripped): 'a,,b' -> ['a', '', 'b'], 'x,' -> ['x', ''], '' -> ['']
        if isinstance(raw, str):
            items = json.loads(raw) if raw.lstrip().startswith('[') else [x.strip() for x in raw.split(',')]
        else:
            items = raw
        return {'list': [{'str': x} for x in items]}
    if tp in ('dict[str,int]', 'dict[str,str]'):
        # shorthand: pairs separated by ',', key and value by the FIRST '=' of the pair, both stripped
        if isinstance(raw, str):
            if raw.lstrip().startswith('{'):
                d = json.loads(raw)
            else:
                d = {}
                for pair in raw.split(','):
                    k, v = pair.split('=', 1)
                    d[k.strip()] = v.strip()
        else:
            d = raw
        if tp == 'dict[str,str]':
            return {'dict': sorted([[{'str': k}, {'str': v}] for k, v in d.items()], key=json.dumps)}
        return {'dict': sorted([[{'str': k}, c_int(int(v))] for k, v in d.items()], key=json.dumps)}
    if tp == 'datetime':
        if isinstance(raw, dict):
            return {'datetime': datetime.datetime.fromisoformat(raw['dt']).isoformat()}
        if raw.replace('.', '', 1).isdigit():
            return {'datetime': datetime.datetime.fromtimestamp(float(raw), tz=datetime.timezone.utc).isoformat()}
        return {'datetime': datetime.datetime.fromisoformat(raw.replace('Z', '+00:00', 1)).isoformat()}
    raise ValueError(tp)


def canon_default(tp, spec):
    if 'dt' in spec:
        return {'datetime': datetime.datetime.fromisoformat(spec['dt']).isoformat()}
    v = spec['py']
    if v is None:
        return None
    if tp == 'str':
        return {'str': v}
    return conv(tp, v)


def norm(c):
    """order-insensitive dict items"""
    if isinstance(c, dict) and 'dict' in c:
        return {'dict': sorted(c['dict'], key=json.dumps)}
    return c


def admissible(env, amb, cls, inst):
    """Per field: ('M',) or ('V', [canonical values]); plus the list of ref sources."""
    out = []
    for f in cls['fields']:
        r = ref_field(env, cls, inst, f)
        if r[0] == 'K':
            spec = inst['kwargs'][f['name']]
            raw = spec if 'dt' in spec else spec['py']
            out.append(('V', [conv(f['type'], raw)], r))
        elif r[0] == 'E':
            vals = []
            for n in r[1]:
                for raw in ([env[n]] + [x for x in amb.get(n, []) if x != env[n]]):
                    vals.append(conv(f['type'], raw))
            out.append(('V', vals, r))
        elif r[0] == 'D':
            out.append(('V', [canon_default(f['type'], f['default'])], r))
        else:
            out.append(('M', [], r))
    return out


def check_outcome(res, env, amb, cls, inst):
    """Direct predicate. None if the implementation's outcome `res` is admissible, else a description.
    Also returns whether the expectation was deterministic."""
    adm = admissible(env, amb, cls, inst)
    missing = [f['name'] for f, a in zip(cls['fields'], adm) if a[0] == 'M']
    det = all(a[0] == 'M' or len({json.dumps(v, sort_keys=True) for v in a[1]}) == 1 for a in adm)
    if missing:
        if res.get('err') != 'MissingVars':
            return 'expected MissingVars%r, got %s' % (missing, short(res)), det
        if res.get('missing') != missing:
            return 'MissingVars lists %r, expected all of %r' % (res.get('missing'), missing), det
        return None, det
    if 'ok' not in res:
        return 'expected an instance, got %s' % short(res), det
    got = res['ok'].get('fields', {})
    for f, a in zip(cls['fields'], adm):
        g = norm(got.get(f['name'], '<absent>'))
        if not any(g == norm(v) for v in a[1]):
            return 'field %s = %s, admissible %s (ref source %r)' % (
                f['name'], json.dumps(g), json.dumps(a[1][:4]), a[2]), det
    return None, det


def short(res):
    if isinstance(res.get('ok'), dict):
        return 'instance %s' % json.dumps(res['ok'].get('fields'))[:300]
    if 'ok' in res and 'err' not in res:
        return 'ok=%r' % res['ok']
    return '%s %s' % (res.get('err'), res.get('missing') or (res.get('msg') or '')[:120])


def in_f22_region(cls, inst):
    """F37 region (non-empty prefix and a field mapped to SEVERAL candidate names); only used with
    ctx.is_open_region, i.e. ignored now that F37 is recorded as fixed."""
    return bool(eff(cls, inst)) and any(isinstance(f.get('explicit'), list) and len(f['explicit']) >= 2
                                        and f['name'] not in inst.get('kwargs', {}) for f in cls['fields'])


# ----------------------------------------------------------------------------------------------
# generators
# ----------------------------------------------------------------------------------------------
WORDS = ['my', 'var', 'name', 'conn', 'debug', 'mode', 'host', 'port', 'key', 'api', 'time', 'out', 'user',
         'limit', 'level', 'path', 'flag', 'count', 'size', 'zone', 'id2', 'v1x']
PFX = ['PFX_', 'pfx_', 'SVC_', 'cfg_']
PFX_FREE = ['Pfx-', 'svc', 'Cfg_x-', 'PFX']           # only for SCREAMING_SNAKE / SNAKE classes
TYPES = ['int', 'int', 'bool', 'str', 'str', 'list[int]', 'list[str]', 'list[str]', 'dict[str,int]', 'dict[str,str]', 'dict[str,str]', 'Optional[int]', 'Optional[int]', 'datetime', 'float']
PRIOS = [None, 'SCREAMING_SNAKE', 'SNAKE', 'CAMEL', 'PASCAL']


# values no documented conversion accepts for the type (non-empty: '' means "use the default" for numbers)
JUNK = {'int': ['abc', '1x', '12 34', 'one'], 'Optional[int]': ['abc', '--1'], 'float': ['abc', '1.2.3'],
        'list[int]': ['x,y', '1,two', '[1, "z"]'], 'dict[str,int]': ['novalue', 'a=b', 'a=1,b'],
        'datetime': ['garbage', '2022-13-45', 'yesterday']}


def cap(w):
    return w[0].upper() + w[1:]


def style(words, st):
    if st == 'snake':
        return '_'.join(words)
    if st == 'camel':
        return words[0] + ''.join(cap(w) for w in words[1:])
    return ''.join(cap(w) for w in words)


def spellings(prefix, fname, words):
    """variable names that documented lookups may or may not reach for field `fname` under `prefix`."""
    pw = [w for w in re.split(r'[_-]', prefix) if w]
    W = [w.lower() for w in pw] + list(words)
    aw = prefix + fname
    return list(dict.fromkeys([
        '_'.join(W).upper(), '_'.join(W), ''.join(cap(w) for w in W), W[0] + ''.join(cap(w) for w in W[1:]),
        '-'.join(W), '-'.join(cap(w) for w in W), ''.join(W), ''.join(W).upper(), '_'.join(cap(w) for w in W),
        aw, aw.upper(), ref_snake(aw) if SIMPLE_KEY.match(aw) else aw.lower(), '-'.join(W).upper(),
        '_' + '_'.join(W), '_'.join(W) + '_', '__'.join(W).upper()]))


class Universe:
    def __init__(self, r):
        self.r = r
        self.n = r.randrange(1, 50)
        nb = r.choice([2, 3, 3, 4])
        self.bases = []
        seen = set()
        while len(self.bases) < nb:
            w = tuple(r.sample(WORDS, r.choice([1, 2, 2, 3])))
            c = ''.join(w)
            if c in seen or any(c.startswith(p.lower().strip('_-')) for p in PFX + PFX_FREE):
                continue
            seen.add(c)
            self.bases.append(w)
        self.types = {b: r.choice(TYPES) for b in self.bases}
        self.alts = {b: ['ALT%d_%s' % (i, '_'.join(b).upper()) if i != 1 else 'alt%d%s' % (i, style(b, 'pascal'))
                         for i in range(3)] + ['Alt-9-%s' % '-'.join(b), 'Q"%s{0}' % style(b, 'pascal')]
                     for b in self.bases}
        self.files, self.dirs = {}, {}
        self.used = []            # (name, base) already placed in os.environ / a file: reused to create overlaps

    def value(self, tp, as_kw=False):
        """raw string for the environment (or a keyword spec) of a unique, valid value of type tp"""
        r = self.r
        self.n += 1
        n = self.n
        if as_kw and r.random() < (0.5 if tp == 'Optional[int]' else 0.25):
            # present-but-falsy keyword values: the keyword still wins
            falsy = {'int': 0, 'Optional[int]': r.choice([None, None, 0]), 'float': 0.0, 'bool': False, 'str': '',
                     'list[int]': [], 'list[str]': [], 'dict[str,int]': {}, 'dict[str,str]': {}}
            if tp in falsy:
                return {'py': falsy[tp]}
        if tp in ('int', 'Optional[int]'):
            s = str(n) if r.random() < 0.85 else str(-n)
            return ({'py': int(s)} if r.random() < 0.5 else {'py': s}) if as_kw else s
        if tp == 'float':
            s = '%d.%d' % (n, r.choice([0, 25, 5]))
            return ({'py': float(s)} if r.random() < 0.5 else {'py': s}) if as_kw else s
        if tp == 'bool':
            s = r.choice(['true', 'TRUE', 'T', 'yes', 'Y', 'on', '1', 'false', '0', 'no', 'off', 'N', 'nope', 'True', 'False'])
            return ({'py': s.lower() in TRUTHY} if r.random() < 0.5 else {'py': s}) if as_kw else s
        if tp == 'str':
            s = r.choice(['v%d', 'val %d', 'a,b=%d', '  pad%d', 'x-%d_y', '{"k": %d}', '[%d]', 'MiXed%d']) % n
            return {'py': s} if as_kw else s
        if tp == 'list[int]':
            xs = [n, n + 100, r.randrange(10)][:r.choice([1, 2, 3])]
            if as_kw and r.random() < 0.5:
                return {'py': xs}
            s = r.choice([','.join(map(str, xs)), ' , '.join(map(str, xs)), json.dumps(xs), ' ' + json.dumps(xs)])
            return {'py': s} if as_kw else s
        if tp == 'list[str]':
            # segments may be empty: doubled / leading / trailing separators, a present-but-empty variable
            k = r.choice([0, 1, 2, 3, 4])
            xs = [r.choice(['', '', 'u%d' % n, 'w %d' % (n + j), 'x-%d' % j]) for j in range(k)] if k else ['']
            if as_kw and r.random() < 0.5:
                return {'py': xs}
            sep = r.choice([',', ',', ' , ', ', '])
            s = r.choice([sep.join(xs), sep.join(xs), json.dumps(xs)]) if xs != [''] or r.random() < 0.7 else json.dumps(xs)
            return {'py': s} if as_kw else s
        if tp == 'dict[str,int]':
            d = {'a': n, 'k%d' % r.randrange(3): r.randrange(10)}
            if as_kw and r.random() < 0.5:
                return {'py': d}
            s = r.choice([','.join('%s=%d' % kv for kv in d.items()), ' , '.join('%s = %d' % kv for kv in d.items()),
                          json.dumps(d)])
            return {'py': s} if as_kw else s
        if tp == 'dict[str,str]':
            # values (and keys) may contain '=', ':', spaces; values may be empty; never a ',' in shorthand
            keys = r.sample(['a', 'url', 'my key', 'k:1', 'b-%d' % n, 'Tok', 'x.y'], r.choice([1, 2, 3]))
            d = {k: r.choice(['v%d', 'a=b=%d', 'http://h/p?x=%d&y=2', 'YWJj%d==', 'k:%d', 'two words %d', '=%d', '']).replace('%d', str(n + j))
                 for j, k in enumerate(keys)}
            if as_kw and r.random() < 0.5:
                return {'py': d}
            eq, sep = r.choice(['=', '=', ' = ', '= ']), r.choice([',', ',', ' , ', ', '])
            s = r.choice([sep.join(k + eq + v for k, v in d.items())] * 3 + [json.dumps(d)])
            return {'py': s} if as_kw else s
        if tp == 'datetime':
            base = datetime.datetime(2022, 4, 27, 12, 30, 45) + datetime.timedelta(seconds=n * 61)
            if as_kw and r.random() < 0.5:
                return {'dt': base.isoformat()}
            s = r.choice([base.isoformat(), base.isoformat() + 'Z', base.isoformat() + '+02:00',
                          str(1651077045 + n), '%d.5' % (1651077045 + n)])
            return {'py': s} if as_kw else s
        raise ValueError(tp)

    def default(self, tp):
        r = self.r
        if tp == 'Optional[int]' and r.random() < 0.6:
            return {'py': None}
        if tp == 'datetime':
            return {'dt': datetime.datetime(2020, 1, 2, 3, 4, 5).isoformat()}
        v = self.value(tp, as_kw=True)
        # typed default (never a string for non-str types: the default is used as is)
        if 'dt' in v:
            return v
        c = conv(tp, v['py'])
        return {'py': decanon(c)}


def decanon(c):
    if c is None:
        return None
    (k, v), = c.items()
    if k == 'int':
        return int(v)
    if k == 'float':
        return float.fromhex(v)
    if k in ('bool', 'str'):
        return v
    if k == 'list':
        return [decanon(x) for x in v]
    if k == 'dict':
        return {decanon(a): decanon(b) for a, b in v}
    raise ValueError(c)


def gen_class(U, name):
    r = U.r
    prio = r.choice(PRIOS)
    camelish = prio in ('CAMEL', 'PASCAL')
    prefix = None
    if r.random() < 0.45:
        prefix = r.choice(PFX if camelish or r.random() < 0.6 else PFX_FREE)
    bases = r.sample(U.bases, r.randrange(1, len(U.bases) + 1))
    fields = []
    st_cls = r.choice(['camel', 'pascal']) if camelish and r.random() < 0.8 else r.choice(['snake', 'snake', 'snake', 'camel', 'pascal'])
    for b in bases:
        st = st_cls if r.random() < 0.85 else r.choice(['snake', 'camel', 'pascal'])
        f = {'name': style(b, st), 'type': U.types[b], 'base': list(b)}
        if r.random() < 0.5:
            f['default'] = U.default(U.types[b])
        x = r.random()
        if x < 0.3:
            pool = U.alts[b] + [n for n in spellings('', f['name'], b) if SAFE.match(n)][:6]
            k = r.choice([1, 2, 2, 3])
            names = r.sample(pool, k)
            if k >= 2 and names == sorted(names) and r.random() < 0.8:
                names.reverse()                       # declared order differs from alphabetical order
            via = r.choice(['env_field', 'json_field', 'meta'])
            f['explicit'] = names[0] if k == 1 else names
            f['via'] = via
        fields.append(f)
    c = {'name': name, 'fields': fields, 'prio': prio, 'prio_as_enum': r.random() < 0.3, 'prefix': prefix,
         'single_as_str': r.random() < 0.5}
    if r.random() < 0.12:
        c['reload_env'] = True
    return c


SAFE = re.compile(r'^[A-Za-z0-9_.:+-]+$')         # usable as dotenv key / secrets file name
ENV_OK = re.compile(r'^[A-Za-z0-9_"{}.:/+ -]+$')    # usable as os.environ name (no quote ', backslash, =)


def near_misses(prefix, fname, words):
    """names the documented rule (remove '_' and '-', lower-case) does NOT equate with prefix + fname: other
    punctuation between the words, an extra prefix / suffix, a digit moved, a letter dropped."""
    pw = [w for w in re.split(r'[_-]', prefix) if w]
    W = [w.lower() for w in pw] + list(words)
    sn = '_'.join(W)
    out = ['.'.join(W), ':'.join(W).upper(), ' '.join(W), '/'.join(W), '+'.join(W), '.'.join(cap(w) for w in W),
           'x' + sn, sn + '2', sn.upper() + '_X', 'X_' + sn.upper(), sn[:-1], sn.upper()[1:], '_'.join(W) + '.',
           '7'.join(W), sn.replace('2', '') + '2' if '2' in sn else sn + '0', ' ' + sn.upper()]
    key = ref_clean(prefix + fname)
    return [n for n in dict.fromkeys(out) if n and ref_clean(n) != key and ENV_OK.match(n)]


def candidate_names(U, classes, extra_prefixes=()):
    """(name, base) pairs that are relevant for the classes of a history."""
    r = U.r
    out, near, keys = [], [], set()
    for c in classes:
        prefixes = {c.get('prefix') or ''} | set(extra_prefixes) | {''} | set(PFX + PFX_FREE)
        for f in c['fields']:
            for p in prefixes:
                keys.add(ref_clean(p + f['name']))
    for c in classes:
        prefixes = {c.get('prefix') or ''} | set(extra_prefixes) | {''}
        for f in c['fields']:
            b = tuple(f['base'])
            for p in prefixes:
                for n in spellings(p, f['name'], b):
                    out.append((n, b))
                near += [(n, b) for n in near_misses(p, f['name'], b)]
                ex = f.get('explicit')
                for n in ([ex] if isinstance(ex, str) else (ex or [])):
                    out.append((p + n, b))
            for n in U.alts[b]:
                out.append((n, b))
    # a near-miss of one field must not be a documented spelling of another one
    out += [(n, b) for n, b in near if ref_clean(n) not in keys]
    seen, uniq = set(), []
    for n, b in out:
        if n not in seen and ENV_OK.match(n):
            seen.add(n)
            uniq.append((n, b))
    return uniq


def gen_env(U, cands, density):
    r = U.r
    env = {}
    for n, b in cands:
        if r.random() < density:
            env[n] = U.value(U.types[b])
            U.used.append((n, b))
    for i in range(r.choice([0, 1, 2])):
        env['NOISE_%d' % i] = 'zz%d' % i
    return env


def tier_names(prio, key):
    """the exact spellings a priority tries, in order (deduplicated), or None outside the reference's domain"""
    if prio in (None, 'SCREAMING_SNAKE'):
        names = [key.upper(), key]
    elif prio == 'SNAKE':
        names = [key, key.upper()]
    else:
        if not SIMPLE_KEY.match(key):
            return None
        names = [key, ref_snake(key).upper(), ref_snake(key)]
    return list(dict.fromkeys(names))


def tier_combo(U, c, env, p_field=0.6):
    """For fields looked up by name: make a random SUBSET of {each exact tier spelling, two spellings only the
    cleaned tier reaches} coexist with different values and remove the rest, so that over many cases every
    combination of present / absent tiers occurs."""
    r = U.r
    prefix = c.get('prefix') or ''
    for f in c['fields']:
        if f.get('explicit') or r.random() > p_field:
            continue
        b = tuple(f['base'])
        key = prefix + f['name']
        exact = tier_names(c.get('prio'), key)
        if exact is None or not all(SAFE.match(n) for n in exact):
            continue
        reach = [n for n in spellings(prefix, f['name'], b)
                 if SAFE.match(n) and n not in exact and ref_clean(n) == ref_clean(key)]
        slots = exact + r.sample(reach, min(len(reach), r.choice([0, 1, 2])))
        mask = [r.random() < 0.5 for _ in slots]
        if r.random() < 0.3:
            mask = [False] * len(slots)          # no documented source at all ...
            reach_all = True
        else:
            reach_all = False
            if not any(mask):
                mask[r.randrange(len(mask))] = True
        if reach_all or r.random() < 0.4:        # ... but near-miss names are around
            own = {ref_clean((p or '') + g['name']) for g in c['fields'] for p in [''] + PFX + PFX_FREE}
            nm = [n for n in near_misses(prefix, f['name'], b) if ref_clean(n) not in own]
            for n in r.sample(nm, min(len(nm), r.choice([1, 2, 3]))):
                env[n] = U.value(U.types[b])
                U.used.append((n, b))
        for n, m in zip(slots, mask):
            if m:
                env[n] = U.value(U.types[b])
                U.used.append((n, b))
            else:
                env.pop(n, None)
        for n in reach:
            if n not in slots and (reach_all or r.random() < 0.7):
                env.pop(n, None)


def explicit_combo(U, c, env, p_field=0.7):
    """For explicitly mapped fields: a random non-empty subset of the (prefixed) candidate names is present, with
    different values, mostly two or more of them; the other candidates are removed."""
    r = U.r
    prefix = c.get('prefix') or ''
    for f in c['fields']:
        ex = f.get('explicit')
        if not ex or r.random() > p_field:
            continue
        names = [prefix + n for n in ([ex] if isinstance(ex, str) else ex)]
        if not all(ENV_OK.match(n) for n in names):
            continue
        b = tuple(f['base'])
        mask = [r.random() < 0.7 for _ in names]
        if not any(mask):
            mask[r.randrange(len(mask))] = True
        for n, m in zip(names, mask):
            if m:
                env[n] = U.value(U.types[b])
                U.used.append((n, b))
            else:
                env.pop(n, None)


def gen_files(U, cands, kind, k, env=None):
    """k dotenv files / secret directories for ONE overlay, with overlapping names: one or two "hot" names (preferably
    already set in os.environ) get a different value in most members of the group."""
    r = U.r
    safe = [x for x in cands if SAFE.match(x[0])]
    live = [x for x in safe if env is not None and x[0] in env]
    hot = [r.choice(live) if live and r.random() < 0.6 else r.choice(safe) for _ in range(r.choice([1, 1, 2]))]
    ids = []
    for _ in range(k):
        i = gen_file(U, cands, kind)
        store = U.dirs if kind == 'dir' else U.files
        content = store[str(i)]
        for n, b in hot:
            if r.random() < 0.75:
                content = [kv for kv in content if kv[0] != n]
                content.insert(r.randrange(len(content) + 1), [n, U.value(U.types[b])])
                U.used.append((n, b))
        store[str(i)] = content
        ids.append(i)
    return ids


def gen_file(U, cands, kind):
    r = U.r
    k = r.choice([1, 2, 2, 3, 4])
    used = [x for x in U.used if SAFE.match(x[0])]
    safe = [x for x in cands if SAFE.match(x[0])]
    picks = [r.choice(used) if used and r.random() < 0.5 else r.choice(safe) for _ in range(k)]
    U.used.extend(picks)
    content = [[n, U.value(U.types[b])] for n, b in picks]
    if kind == 'dir':
        d = {}
        for n, v in content:
            d[n] = v
        content = [[n, v] for n, v in d.items()]
        i = str(len(U.dirs))
        U.dirs[i] = content
    else:
        i = str(len(U.files))
        U.files[i] = content
    return int(i)


def gen_inst(U, ci, c, cands, reload, env=None):
    r = U.r
    o = {'op': 'inst', 'cls': ci, 'reload': reload, 'kwargs': {}}
    for f in c['fields']:
        if r.random() < (0.35 if f['type'] == 'Optional[int]' else 0.2):
            o['kwargs'][f['name']] = U.value(f['type'], as_kw=True)
    x = r.random()
    if x < 0.2:
        o['env_file'] = gen_files(U, cands, 'file', r.choice([1, 2, 2, 3]), env)
    elif x < 0.27:
        o['env_file'] = False
    if r.random() < 0.15:
        camelish = c.get('prio') in ('CAMEL', 'PASCAL')
        o['prefix'] = r.choice([None, ''] + (PFX if camelish else PFX + PFX_FREE))
    if r.random() < 0.18:
        o['secrets'] = gen_files(U, cands, 'dir', r.choice([1, 2, 2, 3]), env)
    return o


def gen_history(r, hid, long=False):
    U = Universe(r)
    ncls = r.choice([1, 2, 2, 3])
    classes = [gen_class(U, 'H%sC%d' % (hid, k)) for k in range(ncls)]
    cands = candidate_names(U, classes, extra_prefixes=[r.choice(PFX)])
    for c in classes:
        if r.random() < 0.2:
            c['env_file'] = gen_files(U, cands, 'file', r.choice([1, 2, 3]))
        if r.random() < 0.12:
            c['secrets'] = gen_files(U, cands, 'dir', r.choice([1, 2, 2]))
    os0 = gen_env(U, cands, r.choice([0.03, 0.08, 0.15]))
    if r.random() < 0.6:
        tier_combo(U, r.choice(classes), os0)
    if r.random() < 0.6:
        explicit_combo(U, r.choice(classes), os0)
    cur = dict(os0)
    ops, defined = [], set()

    def ensure(ci):
        if ci not in defined:
            defined.add(ci)
            ops.append({'op': 'class', 'id': ci, 'cls': classes[ci]})

    def do_set():
        n, b = r.choice(U.used) if U.used and r.random() < 0.3 else r.choice(cands)
        U.used.append((n, b))
        v = U.value(U.types[b])
        ops.append({'op': 'set', 'k': n, 'v': v}); cur[n] = v

    def do_del():
        if cur and r.random() < 0.85:
            n = r.choice(sorted(cur))
        else:
            n = r.choice(cands)[0]
        ops.append({'op': 'del', 'k': n}); cur.pop(n, None)

    curf = {'file': {}, 'dir': {}}            # contents after 'write' ops (U.files / U.dirs keep the initial ones)

    def do_write():
        """rewrite a dotenv file / a secrets directory that already exists: drop, change and add variables"""
        kind = r.choice(['file', 'file', 'dir'])
        store = U.files if kind == 'file' else U.dirs
        if not store:
            return None
        fid = r.choice(sorted(store))
        old = curf[kind].get(fid, store[fid])
        new = []
        for n, v in old:
            x = r.random()
            if x < 0.3:
                continue                                            # variable removed
            b = next((bb for nn, bb in cands if nn == n), None)
            new.append([n, U.value(U.types[b]) if b is not None and x < 0.8 else v])   # value changed / kept
        safe = [x for x in cands if SAFE.match(x[0])]
        for _ in range(r.choice([0, 1, 2])):
            n, b = r.choice(safe)
            if all(n != k for k, _ in new):
                new.append([n, U.value(U.types[b])]); U.used.append((n, b))
        if not new:
            n, b = r.choice(safe); new.append([n, U.value(U.types[b])])
        curf[kind][fid] = new
        ops.append({'op': 'write', 'kind': kind, 'id': int(fid), 'content': new})
        return kind, int(fid)

    def do_rename():
        """delete A and add B (the number of variables is unchanged), A preferably a variable a field can reach"""
        names = [n for n, _ in cands]
        live = [n for n in cur if n in names] or sorted(cur)
        fresh = [(n, b) for n, b in cands if n not in cur]
        if not live or not fresh:
            return do_set()
        a = r.choice(sorted(live))
        n, b = r.choice(fresh)
        v = U.value(U.types[b])
        ops.append({'op': 'del', 'k': a}); cur.pop(a, None)
        ops.append({'op': 'set', 'k': n, 'v': v}); cur[n] = v
        U.used.append((n, b))

    if r.random() < 0.4:
        # F13 shape: two names that only the cleaned tier reaches, the winner is deleted afterwards
        ci = r.randrange(ncls)
        c = classes[ci]
        plain = [f for f in c['fields'] if not f.get('explicit')]
        if plain:
            f = r.choice(plain)
            b = tuple(f['base'])
            p = c.get('prefix') or ''
            key = p + f['name']
            reach = [n for n in spellings(p, f['name'], b)
                     if SAFE.match(n) and n not in (key, key.upper(), ref_snake(key), ref_snake(key).upper())
                     and ref_clean(n) == ref_clean(key)]
            if len(reach) >= 2:
                a, bb = r.sample(reach, 2)
                for n in (a, bb):
                    v = U.value(U.types[b]); ops.append({'op': 'set', 'k': n, 'v': v}); cur[n] = v
                ensure(ci)
                ops.append({'op': 'inst', 'cls': ci, 'reload': True, 'kwargs': {}})
                ops.append({'op': 'del', 'k': r.choice([a, bb])}); cur.pop(ops[-1]['k'], None)
                ops.append({'op': 'inst', 'cls': ci, 'reload': True, 'kwargs': {}})
    n_ops = r.choice([3, 5, 7, 9, 11] if not long else [14, 20, 28])
    for _ in range(n_ops):
        x = r.random()
        if x < 0.25:
            do_set()
        elif x < 0.37:
            do_del()
        elif x < 0.5 and defined and (U.files or U.dirs):
            w = do_write()
            if w and r.random() < 0.8:
                ci = r.choice(sorted(defined))
                o = gen_inst(U, ci, classes[ci], cands, reload=True, env=cur)
                if w[0] == 'file':
                    o['env_file'] = [w[1]] + ([x for x in o['env_file'] if x != w[1]] if isinstance(o.get('env_file'), list) and r.random() < 0.5 else [])
                else:
                    o['secrets'] = [w[1]] + ([x for x in o['secrets'] if x != w[1]] if 'secrets' in o and r.random() < 0.5 else [])
                ops.append(o)
        elif x < 0.62 and defined:
            do_rename()
            if r.random() < 0.7:
                ci = r.choice(sorted(defined))
                ops.append(gen_inst(U, ci, classes[ci], cands, reload=True, env=cur))
        else:
            ci = r.randrange(ncls)
            ensure(ci)
            ops.append(gen_inst(U, ci, classes[ci], cands, reload=r.random() < 0.6, env=cur))
    ci = r.randrange(ncls)
    ensure(ci)
    ops.append(gen_inst(U, ci, classes[ci], cands, reload=True, env=cur))
    return {'id': hid, 'os0': os0, 'files': U.files, 'dirs': U.dirs, 'ops': ops}


def gen_pure(r, pid):
    """one (environment, class, arguments) case; returned as a one-instantiate history"""
    U = Universe(r)
    c = gen_class(U, 'P%s' % pid)
    c.pop('reload_env', None)
    cands = candidate_names(U, [c], extra_prefixes=[r.choice(PFX)])
    if r.random() < 0.15:
        c['env_file'] = gen_files(U, cands, 'file', r.choice([1, 2, 3]))
    if r.random() < 0.1:
        c['secrets'] = gen_files(U, cands, 'dir', r.choice([1, 2, 2]))
    os0 = gen_env(U, cands, r.choice([0.02, 0.05, 0.1, 0.2]))
    if r.random() < 0.6:
        tier_combo(U, c, os0)
    if r.random() < 0.7:
        explicit_combo(U, c, os0)
    inst = gen_inst(U, 0, c, cands, reload=True, env=os0)
    p = {'id': pid, 'os0': os0, 'files': U.files, 'dirs': U.dirs,
         'ops': [{'op': 'class', 'id': 0, 'cls': c}, inst]}
    if r.random() < 0.08:
        # malformed stream: the variable the reference selects for one typed field holds junk
        sec, dot = inst_files(p, c, inst)
        env, amb = ref_environment(os0, sec, dot)
        pick = []
        for f in c['fields']:
            rf = ref_field(env, c, inst, f)
            if rf[0] == 'E' and len(rf[1]) == 1 and f['type'] in JUNK and rf[1][0] in os0 and not f22_field(c, inst, f) \
                    and not any(rf[1][0] == k for fl in sec + dot for k, _ in fl):
                pick.append((f, rf[1][0]))
        if pick:
            f, var = r.choice(pick)
            os0[var] = r.choice(JUNK[f['type']])
            p['malformed'] = {'field': f['name'], 'var': var}
    return p


# ----------------------------------------------------------------------------------------------
# Coq terms
# ----------------------------------------------------------------------------------------------
def coq_env(pairs):
    return coq_list(['(%s, %s)' % (coq_str(k), coq_str(v)) for k, v in pairs])


def coq_cls(c, h):
    fs = []
    for f in c['fields']:
        ex = f.get('explicit')
        if ex is None:
            e = 'ExNone'
        elif isinstance(ex, str):
            e = '(ExStr %s)' % coq_str(ex)
        else:
            e = '(ExTuple %s)' % coq_list([coq_str(x) for x in ex])
        fs.append('(mkField %s %s %s)' % (coq_str(f['name']), e, coq_bool('default' in f)))
    prio = {None: 'PScreaming', 'SCREAMING_SNAKE': 'PScreaming', 'SNAKE': 'PSnake', 'CAMEL': 'PCamel', 'PASCAL': 'PPascal'}[c.get('prio')]
    envfile = coq_list([coq_env(h['files'][str(i)]) for i in (c.get('env_file') or [])])
    secrets = coq_list([coq_env(h['dirs'][str(i)]) for i in (c.get('secrets') or [])])
    return '(mkCls %s %s %s %s %s)' % (coq_list(fs), prio, coq_str(c.get('prefix') or ''), envfile, secrets)


def coq_args(o, h):
    kw = coq_list([coq_str(k) for k in o.get('kwargs', {})])
    if 'env_file' not in o:
        ef = 'EFDefault'
    elif o['env_file'] is False:
        ef = 'EFOff'
    else:
        ef = '(EFFiles %s)' % coq_list([coq_env(h['files'][str(i)]) for i in o['env_file']])
    pf = coq_opt(coq_str(o['prefix'] or '')) if 'prefix' in o else 'None'
    sec = coq_opt(coq_list([coq_env(h['dirs'][str(i)]) for i in o['secrets']])) if 'secrets' in o else 'None'
    return '(mkArgs %s %s %s %s %s)' % (kw, coq_bool(bool(o.get('reload'))), ef, pf, sec)


def coq_history(h):
    """Gallina term (pstr): the encoded trace of the history from the initial state."""
    lets, ops = [], []
    T = fs_timeline(h)
    classes = {o['id']: o['cls'] for o in h['ops'] if o['op'] == 'class'}
    for i, o in enumerate(h['ops']):
        if o['op'] == 'write':
            continue
        if o['op'] == 'class':
            lets.append('let c%d := %s in' % (o['id'], coq_cls(o['cls'], T[i])))
            if o['cls'].get('reload_env'):
                ops.append('OpReloadEnv')
        elif o['op'] == 'set':
            ops.append('OpSet %s %s' % (coq_str(o['k']), coq_str(o['v'])))
        elif o['op'] == 'del':
            ops.append('OpDel %s' % coq_str(o['k']))
        else:
            cdef = classes[o['cls']]
            if 'secrets' not in o and cdef.get('secrets'):
                # Meta.secrets_dir is the default of _secrets_dir and is READ at instantiation: current contents
                o = dict(o, secrets=cdef['secrets'])
            ops.append('OpInst c%d %s' % (o['cls'], coq_args(o, T[i])))
    return '(%s show_history %s %s)' % (' '.join(lets), coq_env(sorted(h['os0'].items())), coq_list(ops))


def parse_env(s):
    if s == '':
        return {}
    d = {}
    for item in s.split('\x02'):
        k, v = item.split('\x01')
        if k not in d:
            d[k] = v
    return d


def parse_trace(s):
    """model trace -> (steps, final os_env); a step is {'out': None | ('I', [src...]) | ('M', [names]) | ('C',),
    'environ': dict|None}"""
    steps = []
    parts = s.split('\x04')
    for st in parts[:-1]:
        if st == '-':
            steps.append({'out': None, 'environ': None})
            continue
        o, envs = st.split('\x03')
        if o[0] == 'I':
            srcs = []
            for x in (o[1:].split('\x02') if len(o) > 1 else []):
                if x[0] == 'E':
                    var, val = x[1:].split('\x01')
                    srcs.append(('E', var, val))
                else:
                    srcs.append((x[0],))
            out = ('I', srcs)
        elif o[0] == 'M':
            out = ('M', o[1:].split('\x02'))
        else:
            out = ('C',)
        steps.append({'out': out, 'environ': None if envs == '?' else parse_env(envs)})
    return steps, parse_env(parts[-1])


# ----------------------------------------------------------------------------------------------
# running and checking
# ----------------------------------------------------------------------------------------------
def strip_history(h):
    d = {'os0': h['os0'], 'files': h['files'], 'dirs': h['dirs'], 'ops': h['ops']}
    if h.get('malformed'):
        d['malformed'] = h['malformed']
    return d


def model_ops(h):
    """indices of model trace steps per harness op (class ops produce a step only with reload_env)."""
    idx, k = [], 0
    for o in h['ops']:
        if o['op'] == 'write':
            idx.append(None)
        elif o['op'] == 'class':
            if o['cls'].get('reload_env'):
                idx.append(k); k += 1
            else:
                idx.append(None)
        else:
            idx.append(k); k += 1
    return idx


def os_timeline(h):
    cur = dict(h['os0'])
    out = []
    for o in h['ops']:
        if o['op'] == 'set':
            cur[o['k']] = o['v']
        elif o['op'] == 'del':
            cur.pop(o['k'], None)
        out.append(dict(cur))
    return out


def fs_timeline(h):
    """Per op index: contents of the dotenv files / secret dirs as seen by that op ('write' ops rewrite them), and
    per class the file contents at its class statement (Meta.env_file is read when the class is created)."""
    files, dirs, cls_files, out = dict(h['files']), dict(h['dirs']), {}, []
    for o in h['ops']:
        if o['op'] == 'write':
            (files if o['kind'] == 'file' else dirs)[str(o['id'])] = o['content']
        elif o['op'] == 'class':
            cls_files[o['id']] = dict(files)
        out.append({'files': dict(files), 'dirs': dict(dirs), 'cls_files': dict(cls_files)})
    return out


def inst_files(h, cls, o, i=None):
    """(secret dir contents, dotenv file contents) in effect for instantiate op o of history h"""
    if i is None:
        i = next(k for k, x in enumerate(h['ops']) if x is o)
    v = fs_timeline(h)[i]
    secrets = o['secrets'] if 'secrets' in o else (cls.get('secrets') or [])
    if 'env_file' not in o:
        src, dot = v['cls_files'][o['cls']], cls.get('env_file') or []
    elif o['env_file'] is False:
        src, dot = v['files'], []
    else:
        src, dot = v['files'], o['env_file']
    return [v['dirs'][str(k)] for k in secrets], [src[str(k)] for k in dot]


def f22_field(cls, o, f):
    """region of F37 while it was open (prefix + several candidate names); repaired by 466ac1d: no exemption"""
    return False


def model_check(model_step, res, cls, o):
    """tie: the implementation's outcome against the model's outcome (value level), and the model's
    sources against the reference on the MODEL's environ. None or a description."""
    env = model_step['environ']
    mo = model_step['out']
    if env is None:
        return 'model has no environ after an instantiate'
    if mo[0] == 'C':
        return 'model crashed (KeyError)'
    refs = [ref_field(env, cls, o, f) for f in cls['fields']]
    if mo[0] == 'M':
        if res.get('err') != 'MissingVars' or res.get('missing') != mo[1]:
            return 'model MissingVars%r, implementation %s' % (mo[1], short(res))
        exp = [f['name'] for f, r in zip(cls['fields'], refs) if r[0] == 'M' or (f22_field(cls, o, f) and f['name'] in mo[1])]
        if exp != mo[1]:
            return 'model MissingVars%r, reference on the model environ %r' % (mo[1], exp)
        return None
    if not isinstance(res.get('ok'), dict):
        return 'model instance, implementation %s' % short(res)
    for f, s, r in zip(cls['fields'], mo[1], refs):
        g = norm(res['ok']['fields'].get(f['name'], '<absent>'))
        if s[0] == 'K':
            spec = o['kwargs'][f['name']]
            exp = conv(f['type'], spec if 'dt' in spec else spec['py'])
        elif s[0] == 'E':
            exp = conv(f['type'], s[2])
        elif s[0] == 'D':
            exp = canon_default(f['type'], f['default'])
        else:
            return 'field %s: model source %r inside an instance' % (f['name'], s)
        if g != norm(exp):
            one_of = (r[0] == 'E' and len(r[1]) > 1 and s[0] == 'E' and s[1] in r[1]
                      and any(g == norm(conv(f['type'], env[n])) for n in r[1]))
            if not one_of:
                return 'field %s: model source %r gives %s, implementation has %s' % (
                    f['name'], s, json.dumps(exp), json.dumps(g))
        if f22_field(cls, o, f):
            continue
        ok = s[0] == r[0] and (s[0] != 'E' or (s[1] in r[1] and env.get(s[1]) == s[2]))
        if not ok:
            return 'field %s: model source %r, reference on the model environ %r' % (f['name'], s, r)
    return None


def model_sources(model_step, cls, o):
    """source-level tie only (used where values are deliberately unparseable)."""
    env, mo = model_step['environ'], model_step['out']
    if env is None or mo[0] == 'C':
        return 'model crashed / has no environ'
    refs = [ref_field(env, cls, o, f) for f in cls['fields']]
    if mo[0] == 'M':
        exp = [f['name'] for f, r in zip(cls['fields'], refs) if r[0] == 'M' or (f22_field(cls, o, f) and f['name'] in mo[1])]
        return None if exp == mo[1] else 'model MissingVars%r, reference on the model environ %r' % (mo[1], exp)
    for f, s, r in zip(cls['fields'], mo[1], refs):
        if f22_field(cls, o, f):
            continue
        if not (s[0] == r[0] and (s[0] != 'E' or (s[1] in r[1] and env.get(s[1]) == s[2]))):
            return 'field %s: model source %r, reference on the model environ %r' % (f['name'], s, r)
    return None


def run_payloads(ctx, payloads, workers=8):
    with cf.ThreadPoolExecutor(max_workers=workers) as ex:
        return list(ex.map(lambda p: ctx.impl('c18', p, timeout=300), payloads))


def check_history(ctx, h, impl, trace, pristine=None, stream='history'):
    """All ties and direct predicates of one history. trace may be None (model unavailable)."""
    res = impl['results']
    malformed = h.get('malformed')
    if impl.get('leftover'):
        ctx.violation('temporary directory not removed', {'kind': 'history', 'history': strip_history(h)}, no_input=True)
    classes = {o['id']: o['cls'] for o in h['ops'] if o['op'] == 'class'}
    timeline = os_timeline(h)
    midx = model_ops(h)
    if trace is not None and trace[1] != timeline[-1]:
        ctx.disagreements_checked += 1
        ctx.broken_tie('model os_env differs from os.environ at the end of the history', {'history': strip_history(h)})
    last_inst = max(i for i, o in enumerate(h['ops']) if o['op'] == 'inst')
    for i, (o, r) in enumerate(zip(h['ops'], res)):
        if o['op'] in ('set', 'del', 'write'):
            continue
        where = {'kind': 'history', 'history': strip_history(h), 'op_index': i}
        if o['op'] == 'class':
            if not r.get('ok'):
                ctx.violation('class statement failed: %s' % short(r), where)
            if not r.get('environ_same'):
                ctx.violation('os.environ changed by an EnvWizard class statement', where)
            continue
        cls = classes[o['cls']]
        key = json.dumps([cls, {k: v for k, v in o.items() if k != 'cls'}, sorted(timeline[i].items())], sort_keys=True)
        # --- direct predicate: os.environ untouched
        if not r.get('environ_same'):
            ctx.violation('os.environ changed by instantiating %s' % cls['name'], where)
        if r.get('os') != timeline[i]:
            ctx.violation('os.environ inside the child is not what the history prescribes (harness)', where, no_input=True)
        # --- direct predicate: documented precedence on the current environment (reload only)
        nontriv = False
        if malformed:
            # malformed stream: the junk value must not be turned into an instance
            ctx.hist('malformed', r.get('err') or 'ACCEPTED')
            if 'ok' in r:
                ctx.violation('%s: variable %s=%r selected for field %s was accepted: %s' % (
                    cls['name'], malformed['var'], timeline[i][malformed['var']], malformed['field'], short(r)), where)
            ctx.count(1, key=key, nontrivial=True)
            if trace is not None and midx[i] is not None:
                bad = model_sources(trace[0][midx[i]], cls, o)
                if bad:
                    ctx.disagreements_checked += 1
                    ctx.broken_tie('%s (malformed): %s' % (stream, bad), {'history': strip_history(h), 'op_index': i})
            continue
        if o.get('reload'):
            sec, dot = inst_files(h, cls, o)
            env, amb = ref_environment(timeline[i], sec, dot)
            bad, det = check_outcome(r, env, amb, cls, o)
            srcs = [ref_field(env, cls, o, f) for f in cls['fields']]
            nontriv = any(s[0] == 'E' for s in srcs)
            for s in srcs:
                ctx.hist('ref_source', s[0] if s[0] != 'E' else ('E' if len(s[1]) == 1 else 'E-one-of'))
            ctx.hist('prio', str(cls.get('prio')))
            ctx.hist('prefix', 'yes' if eff(cls, o) else 'no')
            ctx.hist('overlay', ('secrets+' if sec else '') + ('dotenv' if dot else '') or 'none')
            ctx.hist('outcome', 'MissingVars' if r.get('err') == 'MissingVars' else ('instance' if 'ok' in r else str(r.get('err'))))
            if bad:
                if in_f22_region(cls, o) and ctx.is_open_region(F22_ID):
                    ctx.hist('known_region', F22_ID)
                else:
                    ctx.violation('%s(_reload=True): %s' % (cls['name'], bad), where)
            if i == last_inst and pristine is not None and pristine_comparable(h):
                pr = pristine['results'][-1]
                same = {k: v for k, v in pr.items() if k != 'op'} == {k: v for k, v in r.items() if k != 'op'}
                if not same:
                    pbad, _ = check_outcome(pr, env, amb, cls, o)
                    if det or pbad:
                        if in_f22_region(cls, o) and ctx.is_open_region(F22_ID) and not det:
                            ctx.hist('known_region', F22_ID)
                        else:
                            ctx.violation('history-dependent result: after the history %s, in a pristine interpreter with the '
                                          'same environment %s' % (short(r), short(pr)), where)
                    else:
                        ctx.hist('one_of_region', 'history/pristine differ admissibly')
                ctx.extra_cov['pristine_replays_compared'] = ctx.extra_cov.get('pristine_replays_compared', 0) + 1
        ctx.count(1, key=key, nontrivial=nontriv or not o.get('reload'))
        # --- tie: model trace
        if trace is not None and midx[i] is not None:
            ms = trace[0][midx[i]]
            bad = model_check(ms, r, cls, o)
            ctx.traces_validated += 1
            if bad:
                ctx.disagreements_checked += 1
                ctx.broken_tie('%s: model and implementation disagree: %s' % (stream, bad),
                               {'history': strip_history(h), 'op_index': i, 'model': ms['out'], 'impl': short(r)})


def pristine_payload(h):
    """class statement + final instantiate in a fresh interpreter with the final environment."""
    timeline = os_timeline(h)
    last = max(i for i, o in enumerate(h['ops']) if o['op'] == 'inst')
    o = h['ops'][last]
    cdef = [x for x in h['ops'] if x['op'] == 'class' and x['id'] == o['cls']][0]
    v = fs_timeline(h)[last]
    return {'os0': timeline[last], 'files': v['files'], 'dirs': v['dirs'], 'ops': [cdef, o]}


def pristine_comparable(h):
    """False when the final class's Meta.env_file content was rewritten after the class statement (a class created
    afresh reads the new content; the old class keeps what it read - not a history effect of the Env caches)."""
    last = max(i for i, o in enumerate(h['ops']) if o['op'] == 'inst')
    o = h['ops'][last]
    cdef = [x for x in h['ops'] if x['op'] == 'class' and x['id'] == o['cls']][0]['cls']
    v = fs_timeline(h)[last]
    return all(v['cls_files'][o['cls']][str(k)] == v['files'][str(k)] for k in (cdef.get('env_file') or []))


F22_ID = 'F37-env-prefix-tuple-names'

F21_WITNESS = {'os0': {'a"b': 'found'}, 'files': {}, 'dirs': {}, 'ops': [
    {'op': 'class', 'id': 0, 'cls': {'name': 'F21W', 'fields': [
        {'name': 'x', 'type': 'str', 'explicit': 'a"b', 'via': 'env_field', 'default': {'py': 'dflt'}}]}},
    {'op': 'inst', 'cls': 0, 'reload': True, 'kwargs': {}}]}

F22_WITNESS = {'os0': {'P_A': '1', 'P_B': '2', 'A': '10'}, 'files': {}, 'dirs': {}, 'ops': [
    {'op': 'class', 'id': 0, 'cls': {'name': 'F22W', 'prefix': 'P_', 'fields': [
        {'name': 'x', 'type': 'int', 'explicit': ['Q', 'A', 'B'], 'via': 'env_field', 'default': {'py': 0}}]}},
    {'op': 'inst', 'cls': 0, 'reload': True, 'kwargs': {}}]}


F13_WITNESS = {'os0': {}, 'files': {}, 'dirs': {}, 'ops': [
    {'op': 'set', 'k': 'My-Var', 'v': 'A'}, {'op': 'set', 'k': 'myvar', 'v': 'B'},
    {'op': 'class', 'id': 0, 'cls': {'name': 'F13W', 'fields': [{'name': 'my_var', 'type': 'str', 'default': {'py': 'dflt'}}]}},
    {'op': 'inst', 'cls': 0, 'reload': True, 'kwargs': {}}]}


def witness_fails(ctx, w):
    """True iff the single-instantiate witness history violates the direct predicate."""
    impl = ctx.impl('c18', w)
    res = impl['results']
    cdef = w['ops'][0]['cls']
    if not res[0].get('ok'):
        return True, 'class statement failed: %s' % short(res[0])
    o = w['ops'][-1]
    sec, dot = inst_files(w, cdef, o)
    env, amb = ref_environment(os_timeline(w)[-1], sec, dot)
    bad, _ = check_outcome(res[-1], env, amb, cdef, o)
    return bool(bad), bad


def run(ctx):
    quick = ctx.tier == 'quick'
    # ---- listed findings ---------------------------------------------------------------------
    # witnesses of the repaired defects F21 / F37: replayed on every run; failing again = violation
    for fid, w in (('F21', F21_WITNESS), (F22_ID, F22_WITNESS)):
        fails, what = witness_fails(ctx, w)
        ctx.count(1, key='witness:' + fid)
        if fails:
            ctx.violation('repaired defect %s has returned: %s' % (fid, what), {'finding': fid})
    # ---- generate --------------------------------------------------------------------------------
    rh = ctx.sub_rng('histories')
    hists = [gen_history(rh, 'h%d' % i, long=(not quick and i % 10 == 0)) for i in range(60 if quick else 500)]
    rp = ctx.sub_rng('pure')
    pures = [gen_pure(rp, 'p%d' % i) for i in range(360 if quick else 3500)]
    # pure cases run back to back in few interpreters: one long history per chunk
    chunk = 120 if quick else 250
    batches = []
    for k in range(0, len(pures), chunk):
        files, dirs, ops = {}, {}, []
        for j, p in enumerate(pures[k:k + chunk]):
            fm = {i: '%d_%s' % (j, i) for i in p['files']}
            dm = {i: '%d_%s' % (j, i) for i in p['dirs']}
            for i, c in p['files'].items():
                files[fm[i]] = c
            for i, c in p['dirs'].items():
                dirs[dm[i]] = c
            ops.append({'op': 'reset', 'env': p['os0']})
            cdef = json.loads(json.dumps(p['ops'][0])); cdef['id'] = j
            inst = json.loads(json.dumps(p['ops'][1])); inst['cls'] = j
            for obj, m, fld in ((cdef['cls'], fm, 'env_file'), (cdef['cls'], dm, 'secrets'), (inst, fm, 'env_file'), (inst, dm, 'secrets')):
                if isinstance(obj.get(fld), list):
                    obj[fld] = [m[str(i)] for i in obj[fld]]
            ops += [cdef, inst]
        batches.append({'os0': {}, 'files': files, 'dirs': dirs, 'ops': ops})
    # ---- implementation ---------------------------------------------------------------------------
    payloads = [strip_history(h) for h in hists] + [pristine_payload(h) for h in hists] + batches
    results = run_payloads(ctx, payloads, workers=8 if quick else 14)
    impl_h = results[:len(hists)]
    impl_p = results[len(hists):2 * len(hists)]
    impl_b = results[2 * len(hists):]
    # ---- model ----------------------------------------------------------------------------------------
    traces = None
    try:
        exprs = [coq_history(h) for h in hists] + [coq_history(p) for p in pures]
        outs = coqrun.coq_eval(exprs, ['EnvModel'], os.path.join(ctx.workdir, 'c18'), jobs=8 if quick else 14,
                               timeout=900, shard=25)
        traces = [parse_trace(s) for s in outs]
    except Exception as e:
        ctx.broken_tie('model evaluation failed: %s' % str(e)[:800])
    # ---- check ----------------------------------------------------------------------------------------
    for k, h in enumerate(hists):
        ctx.hist('history_ops', len(h['ops']))
        check_history(ctx, h, impl_h[k], traces[k] if traces else None, pristine=impl_p[k])
    for k, p in enumerate(pures):
        b, j = divmod(k, chunk)
        rs = impl_b[b]['results'][3 * j + 1: 3 * j + 3]      # class, inst (after the reset)
        check_history(ctx, p, {'results': rs}, traces[len(hists) + k] if traces else None, stream='pure')
    run_init_stream(ctx, quick)
    for b in impl_b + impl_h + impl_p:
        if b.get('leftover'):
            ctx.violation('temporary directory left behind by the runner', {'kind': 'harness'}, no_input=True)
    ctx.sample({'history': strip_history(hists[0]), 'impl_last': short(impl_h[0]['results'][-1])})
    ctx.sample({'pure': strip_history(pures[0]), 'impl': short(impl_b[0]['results'][2])})
    ctx.extra_cov.setdefault('streams', {}).update({'histories': len(hists), 'pristine_replays': len(hists),
                                                    'pure_cases': len(pures), 'pure_interpreters': len(batches)})


def run_init_stream(ctx, quick):
    """Stream C (props/c18init.py): secrets directories on the file system, argument-vs-Meta overrides, prefix
    argument, default / default_factory; model coq/model/EnvInit.v."""
    ri = ctx.sub_rng('init')
    cases = [c18init.gen_case(ri, 'i%d' % i) for i in range(70 if quick else 600)]
    with cf.ThreadPoolExecutor(max_workers=8 if quick else 14) as ex:
        impls = list(ex.map(lambda h: ctx.impl('c18init', h, timeout=300), cases))
    models = None
    try:
        outs = coqrun.coq_eval([c18init.coq_case(h) for h in cases], ['EnvInit'], os.path.join(ctx.workdir, 'c18init'),
                               jobs=8 if quick else 14, timeout=900, shard=25)
        models = [c18init.parse_case(s, parse_trace) for s in outs]
    except Exception as e:
        ctx.broken_tie('model evaluation failed (init stream): %s' % str(e)[:800])
    for k, h in enumerate(cases):
        ctx.hist('init_ops', len(h['ops']))
        c18init.check_case(ctx, h, impls[k], models[k] if models else None)
    ctx.sample({'init': cases[0], 'impl_last': c18init.short(impls[0]['results'][-1])})
    ctx.extra_cov.setdefault('streams', {})['init_histories'] = len(cases)


def replay(ctx, obj):
    if obj.get('kind') == 'init':
        return c18init.replay_case(ctx, obj)
    if obj.get('kind') == 'history' or 'history' in obj:
        h = obj['history']
        impl = ctx.impl('c18', h)
        classes = {o['id']: o['cls'] for o in h['ops'] if o['op'] == 'class'}
        timeline = os_timeline(h)
        ok = True
        for i, (o, r) in enumerate(zip(h['ops'], impl['results'])):
            if o['op'] == 'class':
                print('op %d class %s: %s' % (i, o['cls']['name'], 'ok' if r.get('ok') else short(r)))
                ok = ok and r.get('ok') and r.get('environ_same')
            elif o['op'] == 'inst':
                cls = classes[o['cls']]
                line = 'op %d %s(%s): %s' % (i, cls['name'], 'reload' if o.get('reload') else 'no reload', short(r))
                if not r.get('environ_same'):
                    line += '  [os.environ CHANGED]'; ok = False
                if h.get('malformed'):
                    if 'ok' in r:
                        line += '  [junk value %r accepted]' % (h['malformed'],); ok = False
                elif o.get('reload'):
                    sec, dot = inst_files(h, cls, o)
                    env, amb = ref_environment(timeline[i], sec, dot)
                    bad, _ = check_outcome(r, env, amb, cls, o)
                    if bad:
                        line += '  [NOT admissible: %s]' % bad
                        if 'op_index' not in obj or obj['op_index'] == i:
                            ok = False
                print(line)
            else:
                print('op %d %s %s' % (i, o['op'], o.get('k')))
        if 'op_index' in obj and h['ops'][obj['op_index']]['op'] == 'inst' and h['ops'][obj['op_index']].get('reload'):
            sub = dict(h); sub['ops'] = h['ops'][:obj['op_index'] + 1]
            pr = ctx.impl('c18', pristine_payload(sub))['results'][-1]
            print('pristine replay of op %d: %s' % (obj['op_index'], short(pr)))
        return bool(ok)
    if obj.get('finding') in (F22_ID, 'F21', 'F37'):
        # F21 (fixed by daee07e): the class statement must succeed and the variable be found
        fails, what = witness_fails(ctx, F21_WITNESS if obj['finding'] == 'F21' else F22_WITNESS)
        print('witness %s: %s' % (obj['finding'], what or 'behaves as documented'))
        return not fails
    if obj.get('finding') == 'F13':
        # delete whichever variable won the first time; the survivor must be found
        first = ctx.impl('c18', F13_WITNESS)['results'][-1]
        won = (first.get('ok') or {}).get('fields', {}).get('my_var', {}).get('str')
        loser = {'A': 'My-Var', 'B': 'myvar'}.get(won)
        if loser is None:
            print('first instantiate: %s' % short(first))
            return False
        h = json.loads(json.dumps(F13_WITNESS))
        h['ops'] += [{'op': 'del', 'k': loser}, {'op': 'inst', 'cls': 0, 'reload': True, 'kwargs': {}}]
        return replay(ctx, {'kind': 'history', 'history': h})
    print('replay object names a broken tie, not an input: %s' % json.dumps(obj)[:1500])
    return False
