"""C04 — loading applies the documented coercions, and only those (default engine, v1, EnvWizard).

Theorems: coq/props/C04.v (model coq/model/CoerceModel.v, reference coq/model/CoerceRef.v).
Correspondence (tie C): every generated (type, value, engine) is loaded by the implementation
(fresh interpreter, TZ pinned) and by the Coq model (standard-library calls answered from oracle
tables computed by the real functions); outcomes are compared.  Direct predicate: on the
DOCUMENTED coercible domain the implementation's outcome must equal `ref_coerce` below, an
independent Python transcription of docs/overview.rst "Special Cases", docs/env_magic.rst and
the README v1 notes.  Outside the documented domain only model == implementation is required
(a difference there is a broken tie, not a violation).
"""
import json, math, re, datetime, decimal, base64, enum
from fractions import Fraction
from lib.coqrun import coq_str, coq_list
import os as _os, sys as _sys
_sys.path.insert(0, _os.path.join(_os.path.dirname(_os.path.dirname(_os.path.abspath(__file__))), 'impl'))
import c04_types          # the annotation zoo (pure stdlib classes); the reference only calls the classes themselves

META = {
    'id': 'C04',
    'title': 'Loading applies the documented coercions, and only those',
    'level': 'proof',
    'technique': 'Coq proof (case analysis on values, induction on container contexts and on digit lists, arithmetic of half-even rounding and of '
                 'binary64 correct rounding) about a '
                 'hand-written Gallina model + differential correspondence with the implementation and a docs-derived reference oracle',
    'design_ref': 'DESIGN.md section 4 C04',
    'theorems': ['C04_truthy_is_documented', 'C04_dispatch_source_tie', 'C04_bool', 'C04_bool_v1', 'C04_round_half_even', 'C04_round_unique',
                 'C04_int_of_str_shape', 'C04_scalar_ref', 'C04_int_v0', 'C04_int_v1', 'C04_str',
                 'C04_datetime_z_suffix', 'C04_datetime_numeric_utc', 'C04_datetime_numeric_v1',
                 'C04_datetime_env_numeric_string', 'C04_timedelta_dispatch',
                 'C04_enum', 'C04_decimal', 'C04_everywhere', 'C04_everywhere_ref', 'C04_dict_key_ref',
                 'C04_env_split', 'C04_env_split_dict', 'C04_env_tuple_refuted',
                 'C04_int_string_exact', 'C04_int_string_everywhere', 'C04_int_string_dict_key', 'C04_int_string_no_float_route',
                 'C04_int_point_zero_exact', 'C04_int_point_zero_is_a_float', 'C04_float_nearest', 'C04_float_exact'],
    'tables': ['Truthy', 'CoerceDispatchAlg'],
    'level_text': ('Theorems proved in Coq for ALL JSON-ish inputs (unbounded ints, exact dyadic floats, arbitrary ASCII strings, '
                   'nested lists/dicts), all three engines and all container contexts, about an executable model of type_conv.py '
                   'and the scalar/container load hooks; int(str), float(str), float(int), round(), is_integer() are concrete in the model '
                   '(floats are exact dyadics, float() is the correctly rounded binary64 conversion), so which strings take the detour through '
                   'float and what precision that costs is proved, for integer strings of unbounded size (induction over digit lists); the other '
                   'standard-library functions the library only calls are universally '
                   'quantified oracle parameters.  The model is re-validated against the implementation on every run, and the '
                   'documented behaviour is also tested directly on the implementation against a reference written from the docs.'),
    'level_note': ('Trusted: Coq kernel + vm_compute; the hand-written model (ASCII strings; -0.0 identified with 0.0); the '
                   'correspondence harness; the oracle tables (real str(float)/fromisoformat/fromtimestamp/pytimeparse/Decimal/'
                   'b64decode/json.loads answers); float() of the model is compared with Python float() on every run.  Python >= 3.11 assumed for v1 ISO parsing (hypothesis iso_z_native).'),
    'rule': ('per scalar type a fixed list of boundary spellings (sign, exponent, whitespace, underscores, case, Z vs offset, '
             'bool-vs-int, huge ints, negative timestamps, 1.0/1.5/1e3, empty string, None) plus random ints/dyadic floats/'
             'numeric strings/case-mangled truthy words; numerals systematically: sign {none,-,+} x magnitude class {small, 2**53+-k, 2**63+-1, '
             '2**64+-1, 10**30, random 54..130 bits} x spelling {plain, blanks left/right/both, underscore groups, leading zeros} as integer strings, '
             'the same magnitudes with suffixes .0 . .000 .5 .25 .50 .75 .0e0 e0 .5e1 E2 as float strings, as JSON ints and JSON floats, and floats with '
             'a fraction next to 2**51 / 2**52, at int, float, Decimal, str, bool, timedelta, datetime and int-subclass positions (2**53+1 and 10**30+1 '
             'at EVERY position kind incl. dict int keys and EnvWizard shorthand / JSON strings); per type a few core values (None, empty string, one coercible and one rejected spelling) at '
             'EVERY position kind (incl. dict keys of every hashable scalar type, defaultdict/OrderedDict, set/frozenset/deque/Sequence, TypedDict '
             'total/partial/Required/NotRequired, NamedTuple, nested dataclass, Annotated, Union members; those outside the Coq type grammar by the '
             'direct predicate only), the rest at top level and in sampled container contexts (list, dict value, '
             'int-keyed dict, tuple[t,...], fixed tuple, Optional, two-level nestings), for v0, v1 and Env (Env strings through '
             'os.environ incl. comma/equals shorthand and JSON forms).  Non-trivial = value is not already of the annotated type; '
             'distinct = distinct (type, value, engine).'),
    'trusted_base': ['model coq/model/CoerceModel.v: code-shaped transcription of type_conv.py and the load hooks (validated by correspondence)',
                     'model coq/model/CoerceFloat.v: float(str) / float(int) / round() / is_integer() on exact dyadics (validated against Python on every run; '
                     'correct rounding proved: C04_float_nearest)',
                     'oracle tables harness/impl/c04_oracle.py: answers of the real stdlib / pytimeparse functions for the generated cases'],
    'assumptions': ['strings are ASCII in the model; the harness feeds ASCII only',
                    'Python >= 3.11 (v1 passes ISO strings to fromisoformat without the Z rewrite)',
                    'TZ of the implementation run is pinned (UTC, and America/New_York for the timestamp cases)'],
}

# --- lead: algorithm-level source tie mentioned in the technique (kept separate so the builder's text stays intact)
META['technique'] = META['technique'] + ' + translation of type_conv.as_bool / as_int / as_int_v1 (exact-type dispatch) from the current source text into Gallina, proved equal to the hand-written model on every run (tie T for algorithms)'

# ----------------------------------------------------------------------------------------------
# type descriptors and values -> Coq
SCALARS = ['str', 'int', 'float', 'bool', 'bytes', 'datetime', 'date', 'time', 'timedelta', 'decimal',
           'enum:Color', 'enum:Num', 'enum:SColor', 'enum:Mode', 'uuid',
           # type zoo (direct predicate + reference only): user subclasses of the leaf types, kinds of Enum
           'sub:datetime', 'sub:date', 'sub:time', 'sub:timedelta', 'sub:decimal', 'sub:str', 'sub:int', 'sub:float',
           'enum:Prio', 'enum:Perm', 'enum:IPerm', 'enum:Fuzzy', 'enum:Boxed', 'enum:Alias', 'enum:Auto']
# enum:SColor is a `class SColor(str, Enum)`, enum:Mode an `enum.StrEnum`: members compare equal to their
# values, so only the concrete type of the loaded object tells whether they were loaded by value
ENUMS = {'enum:Color': [('red', 'RED'), ('Blue', 'BLUE'), ('', 'EMPTY')],
         'enum:Num': [(0, 'ZERO'), (1, 'ONE'), (2, 'TWO')],
         'enum:SColor': [('red', 'SRED'), ('Blue', 'SBLUE')],
         'enum:Mode': [('fast', 'FAST'), ('Slow', 'SLOW')]}
ENUM_COQ = {k: k.split(':')[1].lower() + '_members' for k in ENUMS}
# scalar annotations the Coq model knows ('uuid' is covered by the direct predicate only)
COQ_SCALAR = {'str': 'SStr', 'int': 'SInt', 'float': 'SFloat', 'bool': 'SBool', 'bytes': 'SBytes',
              'datetime': 'SDateTime', 'date': 'SDate', 'time': 'STime', 'timedelta': 'STimedelta',
              'decimal': 'SDecimal'}
STR_ENUMS = ('enum:SColor', 'enum:Mode')
COQ_SCALAR.update({k: '(%s %s)' % ('SStrEnum' if k in STR_ENUMS else 'SEnum', v) for k, v in ENUM_COQ.items()})
COQ_KEY = {'str': 'KStr', 'int': 'KInt'}
COQ_KEY.update({k: '(%s %s)' % ('KStrEnum' if k in STR_ENUMS else 'KEnum', v) for k, v in ENUM_COQ.items()})
ENGINES = ['v1', 'v0', 'env']      # v1 first: by-value lookups of composite Flag values must not be pre-materialised by another engine
COQ_ENGINE = {'v0': 'V0', 'v1': 'V1', 'env': 'Env'}


def coq_ty(d):
    if isinstance(d, str):
        return '(TS %s)' % COQ_SCALAR[d]
    k = d[0]
    if k == 'opt':
        return '(TOpt %s)' % coq_ty(d[1])
    if k == 'list':
        return '(TList %s)' % coq_ty(d[1])
    if k == 'tupv':
        return '(TTupV %s)' % coq_ty(d[1])
    if k == 'tup':
        return '(TTup %s)' % coq_list([coq_ty(x) for x in d[1]])
    if k == 'dict':
        return '(TDict %s %s)' % (COQ_KEY[d[1]], coq_ty(d[2]))
    raise ValueError(d)


def modelled_ty(d):
    """is the annotation inside the type grammar of CoerceModel.v?"""
    if isinstance(d, str):
        return d in COQ_SCALAR
    k = d[0]
    if k in ('opt', 'list', 'tupv'):
        return modelled_ty(d[1])
    if k == 'tup':
        return all(modelled_ty(x) for x in d[1])
    if k == 'dict':
        return d[1] in COQ_KEY and modelled_ty(d[2])
    return False


def plain_json(v):
    if isinstance(v, list):
        return all(plain_json(x) for x in v)
    if isinstance(v, dict):
        return '__pairs__' not in v and all(plain_json(x) for x in v.values())
    return True


def modelled(case):
    return modelled_ty(case['ty']) and plain_json(case['val'])


def decode_val(v):
    """{'__pairs__': [[k, v]...]} -> dict with arbitrarily typed keys (from_dict input that is not JSON)"""
    if isinstance(v, list):
        return [decode_val(x) for x in v]
    if isinstance(v, dict):
        if set(v) == {'__pairs__'}:
            return {k: decode_val(x) for k, x in v['__pairs__']}
        return {k: decode_val(x) for k, x in v.items()}
    return v


def fl_parts(f):
    n, d = f.as_integer_ratio()
    e = -(d.bit_length() - 1)
    if n == 0:
        return 0, 0
    while n % 2 == 0:
        n //= 2
        e += 1
    return n, e


def coq_fl(f):
    if f != f:
        return 'FNan'
    if math.isinf(f):
        return '(FInf %s)' % ('true' if f < 0 else 'false')
    m, e = fl_parts(f)
    return '(FDy (%d)%%Z (%d)%%Z)' % (m, e)


def coq_jv(v):
    if v is None:
        return 'JNone'
    if isinstance(v, bool):
        return '(JBool %s)' % ('true' if v else 'false')
    if isinstance(v, int):
        return '(JInt (%d)%%Z)' % v
    if isinstance(v, float):
        return '(JFloat %s)' % coq_fl(v)
    if isinstance(v, str):
        return '(JStr %s)' % coq_str(v)
    if isinstance(v, list):
        return '(JList %s)' % coq_list([coq_jv(x) for x in v])
    if isinstance(v, dict):
        return '(JDict %s)' % coq_list(['(%s, %s)' % (coq_str(k), coq_jv(x)) for k, x in v.items()])
    raise TypeError(type(v))


def coq_num(x):
    return '(NInt (%d)%%Z)' % x if isinstance(x, int) else '(NFloat %s)' % coq_fl(x)


# oracle runner encodings -> Coq
def coq_fl_enc(t):
    if t[0] == 'nan':
        return 'FNan'
    if t[0] == 'inf':
        return '(FInf %s)' % ('true' if t[1] else 'false')
    return '(FDy (%s)%%Z (%s)%%Z)' % (t[1], t[2])


def coq_jenc(t):
    k = t[0]
    if k == 'none':
        return 'JNone'
    if k == 'bool':
        return '(JBool %s)' % ('true' if t[1] else 'false')
    if k == 'int':
        return '(JInt (%s)%%Z)' % t[1]
    if k == 'float':
        return '(JFloat %s)' % coq_fl_enc(t[1])
    if k == 'str':
        return '(JStr %s)' % coq_str(t[1])
    if k == 'list':
        return '(JList %s)' % coq_list([coq_jenc(x) for x in t[1]])
    if k == 'dict':
        return '(JDict %s)' % coq_list(['(%s, %s)' % (coq_str(a), coq_jenc(b)) for a, b in t[1]])
    raise ValueError(t)


def coq_res(r, okf):
    return '(Ok %s)' % okf(r[1]) if r[0] == 'ok' else '(Err %s)' % {'ET': 'EType', 'EV': 'EValue', 'EO': 'EOverflow', 'EX': 'EOther'}[r[1]]


def coq_numenc(t):
    if t is None:
        return 'None'
    return '(Some (NInt (%s)%%Z))' % t[1] if t[0] == 'int' else '(Some (NFloat %s))' % coq_fl_enc(t[1])


# ----------------------------------------------------------------------------------------------
# canonical encoding of Python values (same alphabet as CoerceModel.show_res)
def hx(s):
    return (s.encode('utf-8') if isinstance(s, str) else bytes(s)).hex()


def enc_float(f):
    if f != f:
        return 'nan'
    if math.isinf(f):
        return 'inf' if f > 0 else '-inf'
    return '%dp%d' % fl_parts(f)


class SubVal:
    """instance of a user subclass: class name + the value as the base type sees it"""
    def __init__(self, cls_name, value):
        self.cls_name, self.value = cls_name, value

    def __eq__(self, other):
        return type(other) is SubVal and (other.cls_name, other.value) == (self.cls_name, self.value)

    def __hash__(self):
        return hash((self.cls_name, self.value))


class NTVal:
    def __init__(self, items):
        self.items = items


class DCVal:
    def __init__(self, items):
        self.items = items


def enc(v, sort=False):
    import collections, uuid
    t = type(v)
    if v is None:
        return 'N'
    if t is bool:
        return 'B1' if v else 'B0'
    if t is int:
        return 'I%d;' % v
    if t is float:
        return 'F%s;' % enc_float(v)
    if t is str:
        return 'S%s;' % hx(v)
    if t is bytes:
        return 'Y%s;' % hx(v)
    if t is list:
        return 'L[%s]' % ''.join(enc(x, sort) for x in v)
    if t is tuple:
        return 'T[%s]' % ''.join(enc(x, sort) for x in v)
    if t in (dict, collections.defaultdict, collections.OrderedDict):
        items = [enc(k, sort) + enc(x, sort) for k, x in v.items()]
        tag = {dict: 'D', collections.defaultdict: 'DD', collections.OrderedDict: 'OD'}[t]
        return '%s[%s]' % (tag, ''.join(sorted(items) if sort else items))
    if t in (set, frozenset):
        return '%s{%s}' % ('Z' if t is set else 'FZ', ''.join(sorted(enc(x, sort) for x in v)))
    if t is collections.deque:
        return 'Q[%s]' % ''.join(enc(x, sort) for x in v)
    if t is datetime.datetime:
        return 'Pdt%s;' % hx(v.isoformat())
    if t is datetime.date:
        return 'Pd%s;' % hx(v.isoformat())
    if t is datetime.time:
        return 'Pt%s;' % hx(v.isoformat())
    if t is datetime.timedelta:
        return 'Ptd%s;' % hx('%d,%d,%d' % (v.days, v.seconds, v.microseconds))
    if t is decimal.Decimal:
        return 'Pdec%s;' % hx(str(v))
    if t is uuid.UUID:
        return 'Pu%s;' % hx(str(v))
    if t is EnumName:
        return 'M%s;' % hx(v.name)
    if t is SubVal:
        return 'X%s:%s' % (hx(v.cls_name), enc(v.value, sort))
    if t is NTVal:
        return 'NT[%s]' % ''.join(enc(x, sort) for x in v.items)
    if t is DCVal:
        return 'DC[%s]' % ''.join(enc(x, sort) for x in v.items)
    raise TypeError(t)


class EnumName:
    def __init__(self, name):
        self.name = name

    def __eq__(self, other):
        return type(other) is EnumName and other.name == self.name

    def __hash__(self):
        return hash(('EnumName', self.name))


# ----------------------------------------------------------------------------------------------
# the reference: an independent transcription of the documentation
UNDOC = ('undoc',)
REJECT = ('reject',)
TRUTHY_DOC = ('TRUE', 'T', 'YES', 'Y', 'ON', '1')           # docs/overview.rst, "bool"
INT_STR = re.compile(r'^[ \t\n\r\f\v]*[+-]?[0-9]+(_[0-9]+)*[ \t\n\r\f\v]*$')
POINT_STR = re.compile(r'^[ \t\n\r\f\v]*[+-]?([0-9]+\.[0-9]*|\.[0-9]+)[ \t\n\r\f\v]*$')
NUMERIC_FORM = re.compile(r'^([0-9]+\.?[0-9]*|\.[0-9]+)$')    # "a numeric form like '1.23'"
B64_STRICT = re.compile(r'^(?:[A-Za-z0-9+/]{4})*(?:[A-Za-z0-9+/]{2}==|[A-Za-z0-9+/]{3}=)?$')
UTC = datetime.timezone.utc


def round_half_even(x):
    """nearest integer of an exact rational, ties to the even one (independent of round())."""
    fr = Fraction(x)
    lo = fr.numerator // fr.denominator
    rest = fr - lo
    if rest < Fraction(1, 2):
        return lo
    if rest > Fraction(1, 2):
        return lo + 1
    return lo if lo % 2 == 0 else lo + 1


def is_num(v):
    return isinstance(v, (int, float)) and not isinstance(v, bool)


def ok(v):
    return ('ok', v)


def ref_scalar(t, v, eng):
    """('ok', value) | REJECT | UNDOC for scalar annotation t and JSON value v."""
    if t == 'str':
        if v is None:
            return ok('')
        if isinstance(v, str):
            return ok(v)
        return ok(str(v))                       # "converted to their string representation"
    if t == 'bool':
        if isinstance(v, bool):
            return ok(v)
        if isinstance(v, str):
            return ok(v.upper() in TRUTHY_DOC) if v.isascii() else UNDOC
        if isinstance(v, int):
            return ok(str(v) in TRUTHY_DOC)
        if isinstance(v, float):
            return ok(v == 1)                   # property text: "or == 1"
        return UNDOC
    if t == 'int':
        if isinstance(v, bool):
            return REJECT
        if isinstance(v, int):
            return ok(v)
        if isinstance(v, float):
            if not math.isfinite(v):
                return UNDOC
            if eng == 'v1':
                return ok(int(v)) if v == int(v) else REJECT
            return ok(round_half_even(v))
        if v is None:
            return REJECT if eng == 'v1' else ok(0)
        if isinstance(v, str):
            if v == '':
                return UNDOC if eng == 'v1' else ok(0)
            if INT_STR.match(v):
                digits = ''.join(c for c in v if c.isdigit())
                n = 0
                for c in digits:
                    n = n * 10 + (ord(c) - 48)
                return ok(-n if '-' in v else n)
            if POINT_STR.match(v):
                f = float(v)
                if eng == 'v1':
                    return ok(int(f)) if f == int(f) else REJECT
                return ok(round_half_even(f))
            return UNDOC
        return UNDOC
    if t == 'float':
        if is_num(v) and (isinstance(v, float) or abs(v) <= 2 ** 53):
            return ok(float(v))
        if isinstance(v, str) and (INT_STR.match(v) or POINT_STR.match(v)) and '_' not in v:
            return ok(float(v))
        return UNDOC
    if t in ('datetime', 'time', 'date'):
        cls = {'datetime': datetime.datetime, 'time': datetime.time, 'date': datetime.date}[t]
        if isinstance(v, str):
            if eng == 'env' and t == 'datetime' and NUMERIC_FORM.match(v):
                # docs/env_magic.rst: SOME_DT_VAL='1651077045'
                try:
                    return ok(datetime.datetime.fromtimestamp(float(v), tz=UTC))
                except (OverflowError, OSError, ValueError):
                    return UNDOC
            s = v
            if eng == 'env' and NUMERIC_FORM.match(v):
                return UNDOC                    # all-digit ISO basic dates collide with the Env timestamp rule
            if t != 'date' and s.endswith('Z'):
                s = s[:-1] + '+00:00'           # "a suffix of Z ... is first replaced with +00:00"
                if 'Z' in s:
                    return UNDOC
                try:                            # only where the builtin itself reads both spellings alike
                    if cls.fromisoformat(v) != cls.fromisoformat(s):
                        return UNDOC
                except ValueError:
                    return UNDOC
            elif 'Z' in s or 'z' in s:
                return UNDOC
            try:
                return ok(cls.fromisoformat(s))
            except ValueError:
                return UNDOC
        if is_num(v) and t != 'time':
            try:
                dt = datetime.datetime.fromtimestamp(v, tz=UTC)      # the implementation run is pinned to TZ=UTC for dates
                return ok(dt if t == 'datetime' else dt.date())
            except (OverflowError, OSError, ValueError):
                return UNDOC
        return UNDOC
    if t == 'timedelta':
        try:
            if isinstance(v, str):
                if NUMERIC_FORM.match(v):
                    return ok(datetime.timedelta(seconds=float(v)))
                import pytimeparse
                secs = pytimeparse.parse(v)
                return ok(datetime.timedelta(seconds=secs)) if secs is not None else UNDOC
            if is_num(v):
                return ok(datetime.timedelta(seconds=v))
        except (OverflowError, ValueError):
            return UNDOC
        return UNDOC
    if t in ENUMS:
        for val, name in ENUMS[t]:
            if type(val) is type(v) and val == v:
                return ok(EnumName(name))
        return UNDOC
    if t == 'decimal':
        if isinstance(v, str) or is_num(v):
            try:
                return ok(decimal.Decimal(str(v)))
            except decimal.InvalidOperation:
                return UNDOC
        return UNDOC
    if t in c04_types.SUB_BASE:
        # a user subclass of a leaf type: the coercion of the base type, as an instance of the subclass
        base = c04_types.SUB_BASE[t]
        if v is None or (base == 'int' and v == ''):
            return UNDOC                        # the documented defaults ('' / 0) say nothing about the class
        r = ref_scalar(base, v, eng)
        return ok(SubVal(c04_types.SUB_CLASSES[t].__name__, r[1])) if r not in (UNDOC, REJECT) else r
    if t in c04_types.ENUM_CLASSES and t not in ENUMS:
        # "de-serialized to Enum subclasses via the value attribute": the member the Enum class itself
        # gives for that value (composite Flag values, aliases, _missing_, unhashable values included)
        cls = c04_types.ENUM_CLASSES[t]
        kinds = {type(m.value) for m in cls}
        if type(v) not in kinds:
            return UNDOC
        try:
            return ok(EnumName(c04_types.enum_name(cls(v))))
        except ValueError:
            return UNDOC
    if t == 'uuid':
        # "de-serialized from JSON strings using the constructor method -- i.e. UUID(string)"
        if isinstance(v, str):
            import uuid
            try:
                return ok(uuid.UUID(v))
            except ValueError:
                return UNDOC
        return UNDOC
    if t == 'bytes':
        if eng == 'v1' and isinstance(v, str) and B64_STRICT.match(v):
            return ok(base64.b64decode(v))
        if eng == 'env' and isinstance(v, str):
            return ok(v.encode('utf-8'))
        return UNDOC
    raise ValueError(t)


def env_shorthand_list(s):
    return [p.strip() for p in s.split(',')]


def ref_coerce(ty, v, eng):
    """Element-wise documented coercion; UNDOC as soon as any part is outside the documented domain."""
    if isinstance(ty, str):
        return ref_scalar(ty, v, eng)
    k = ty[0]
    if k == 'opt':
        return ok(None) if v is None else ref_coerce(ty[1], v, eng)
    if k == 'ann':
        return ref_coerce(ty[1], v, eng)        # Annotated[T, ...]: "we only need T"
    # docs/env_magic.rst: "lists/dicts can also be specified in JSON format ... or in shorthand format",
    # with NamedTuple, TypedDict and nested dataclass fields in the complete example
    dictlike = k in ('dict', 'ddict', 'odict', 'td', 'dc') and k != 'root'
    listlike = k in ('list', 'tupv', 'tup', 'nt', 'set', 'fset', 'deque', 'seq', 'mseq', 'coll')
    if isinstance(v, str) and k != 'union' and not (eng == 'env' and (dictlike or listlike)):
        return UNDOC
    if eng == 'env' and isinstance(v, str) and (dictlike or listlike):
        st = v.lstrip()
        opener = '{' if dictlike else '['
        if st[:1] == opener:
            try:
                v = json.loads(v)
            except ValueError:
                return UNDOC
        elif st[:1] in ('[', '{') or v.strip() == '':
            return UNDOC
        elif dictlike:
            d = {}
            for pair in v.split(','):
                if '=' not in pair:
                    return UNDOC
                a, b = pair.split('=', 1)
                if a.strip() in d or not a.strip() or not b.strip():
                    return UNDOC
                d[a.strip()] = b.strip()
            v = d
        else:
            v = env_shorthand_list(v)
            if not all(v):
                return UNDOC                    # empty elements: not a documented spelling
    if k in ('list', 'tupv', 'tup'):
        if not isinstance(v, list):
            return UNDOC
        if k == 'tup':
            if len(v) != len(ty[1]):
                return UNDOC
            parts = [ref_coerce(t1, x, eng) for t1, x in zip(ty[1], v)]
        else:
            parts = [ref_coerce(ty[1], x, eng) for x in v]
        if any(p is UNDOC for p in parts):
            return UNDOC
        if any(p is REJECT for p in parts):
            return REJECT
        vals = [p[1] for p in parts]
        return ok(vals if k == 'list' else tuple(vals))
    if k in ('set', 'fset', 'deque', 'seq', 'mseq', 'coll'):
        # "set, frozenset, and deque types will be de-serialized using their annotated base types";
        # Sequence -> tuple, MutableSequence / Collection -> list (docs/overview.rst, ABC containers)
        import collections
        if not isinstance(v, list):
            return UNDOC
        parts = [ref_coerce(ty[1], x, eng) for x in v]
        if any(p is UNDOC for p in parts):
            return UNDOC
        if any(p is REJECT for p in parts):
            return REJECT
        vals = [p[1] for p in parts]
        try:
            return ok({'set': set, 'fset': frozenset, 'deque': collections.deque, 'seq': tuple, 'mseq': list, 'coll': list}[k](vals))
        except TypeError:
            return UNDOC                        # unhashable element
    if k == 'td':
        # TypedDict: every present key is a coercion position (required or not); key order is not specified
        if not isinstance(v, dict):
            return UNDOC
        fields = {name: (t1, (flag == 'req') if flag else bool(ty[1])) for name, t1, flag in ty[2]}
        if any(key not in fields for key in v) or any(req and name not in v for name, (_, req) in fields.items()):
            return UNDOC
        out, rej = {}, False
        for key, x in v.items():
            px = ref_coerce(fields[key][0], x, eng)
            if px is UNDOC:
                return UNDOC
            if px is REJECT:
                rej = True
                continue
            out[key] = px[1]
        return REJECT if rej else ok(out)
    if k == 'nt':
        # "NamedTuple sub-types are de-serialized from a list, tuple, or any iterable type"
        if not isinstance(v, list):
            return UNDOC
        need = sum(1 for _, _, dflt in ty[1] if not dflt)
        if not need <= len(v) <= len(ty[1]):
            return UNDOC
        parts = [ref_coerce(t1, x, eng) for (_, t1, _), x in zip(ty[1], v)]
        if any(p is UNDOC for p in parts):
            return UNDOC
        if any(p is REJECT for p in parts):
            return REJECT
        return ok(NTVal([p[1] for p in parts] + [None] * (len(ty[1]) - len(v))))
    if k == 'root':
        return ref_coerce(['dc', ty[1]], v, eng)   # the root class itself with several fields
    if k == 'dc':
        # nested dataclass: a dict with exactly the field names
        if not isinstance(v, dict) or set(v) != {name for name, _ in ty[1]}:
            return UNDOC
        parts = [ref_coerce(t1, v[name], eng) for name, t1 in ty[1]]
        if any(p is UNDOC for p in parts):
            return UNDOC
        if any(p is REJECT for p in parts):
            return REJECT
        return ok(DCVal([p[1] for p in parts]))
    if k == 'union':
        # only the unambiguous part: a value whose exact type is a scalar member is kept as it is
        names = {bool: 'bool', int: 'int', float: 'float', str: 'str'}
        if type(v) in names and names[type(v)] in ty[1]:
            return ok(v)
        return UNDOC
    if k in ('dict', 'ddict', 'odict'):
        import collections
        if not isinstance(v, dict):
            return UNDOC
        out = {'dict': dict, 'ddict': lambda: collections.defaultdict(None), 'odict': collections.OrderedDict}[k]()
        rej = False
        for key, x in v.items():
            pk = ref_scalar(ty[1], key, eng)
            px = ref_coerce(ty[2], x, eng)
            if pk is UNDOC or px is UNDOC:
                return UNDOC
            if pk is REJECT or px is REJECT:
                rej = True
                continue
            if pk[1] in out:
                return UNDOC                    # two keys coerce to the same key: not documented
            out[pk[1]] = px[1]
        return REJECT if rej else ok(out)
    raise ValueError(ty)


# ----------------------------------------------------------------------------------------------
# generators
UUID_S = '12345678-1234-5678-1234-567812345678'
TRUTHY_WORDS = ['true', 't', 'yes', 'y', 'on', '1']
INF, NAN = float('inf'), float('nan')

BOUNDARY = {
    'int': [0, 1, -1, 7, 2 ** 53 + 1, 10 ** 30, -10 ** 25,
            '12', ' 12 ', '+7', '-7', '1_000', '007', '-0', '12\n', '\t5', '1__0', '_1', '1_', '+', '-', '', ' ', 'abc',
            '0x10', '1e3', '1E3', '1.0', '1.5', '2.5', '-2.5', '3.5', '3.', '.5', '-.5', '+1.5', ' 1.5 ', '1.5e3', '1.0e0',
            '2.50', '0.5', '1.5000000000000001', '123.4', '3.0', '-5.00', '1.0.0', '1 .5', '.', 'inf', 'nan', 'Infinity',
            '1e400', '1.e400', '9' * 25, '1' * 30 + '.5', '1_0.5', '- 1', '+-1', '1,5', 'true',
            0.0, 1.0, 1.5, 2.5, 3.5, -0.5, -1.5, -2.5, 0.5, 123.4, 1e20, 2.0 ** 53, 1e300, 4.5, 0.49999999999999994,
            5e-324, 1e15 + 0.5, INF, -INF, NAN, True, False, None, [], [1], {}, {'a': 1}],
    'bool': ['true', 'TRUE', 'True', 'tRuE', 't', 'T', 'yes', 'YES', 'Yes', 'y', 'Y', 'on', 'ON', 'On', 'oN', '1',
             'tru', 'truee', ' true', 'true ', 'yes!', 'no', 'n', 'f', 'false', 'off', '0', '', '2', '11', 'on ', '1.0', '01',
             'ye', 'o', 'ono', 'tt', 0, 1, 2, -1, 10, 1.0, 0.0, 1.5, True, False, None, [1], [], {}],
    'str': [None, '', 'a', 'hello world', 'None', 0, -5, 10 ** 20, 1.5, 1e22, 0.1, 1e-7, INF, True, False, [1, 'a'], [], {'a': 1}],
    'float': ['1.5', '1e3', ' 2 ', 'nan', 'inf', '-inf', '', 'abc', '1_0.5', '.5', '5.', 1, 0, -3, 2 ** 53, True, False, 1.5, 0.1, None, []],
    'datetime': ['2020-01-02T03:04:05Z', '2020-01-02T03:04:05+00:00', '2020-01-02T03:04:05+05:30', '2020-01-02T03:04:05-08:00',
                 '2020-01-02T03:04:05', '2020-01-02T03:04:05.123456', '2020-01-02T03:04:05.123456Z', '2020-01-02 03:04:05',
                 '2020-01-02', '20200102T030405Z', '2020-01-02T03:04:05z', 'Z', '', 'garbage', '2020-13-01T00:00:00',
                 '2020-01-02T03:04:05Z ', '2020-01-02Z03:04:05', '1999-12-31T23:59:59Z', '2020-01-02T03:04Z',
                 0, 1, -1, 1600000000, 1651077045, 1.5, -1.5, -86400.5, 1e10, 253402300799, 253402300800, -62135596800,
                 1e18, -1e18, INF, NAN, '1600000000', '1.5', '0', '1651077045', '.5', '5.', '-1', '1e3', True, False, None, [0]],
    'date': ['2020-01-02', '2020-02-30', '20200102', '2020-01-02T00:00:00', '2020-01-02Z', '', 'x', '0001-01-01', '9999-12-31',
             0, 86399, 86400, -1, -86401, 1.5, 1600000000, 253402300800, '86400', '1.5', '0', True, None, [0]],
    'time': ['03:04:05Z', '03:04:05', '03:04', '03:04:05.123', '03:04:05.123456Z', '03:04:05+01:00', '3:04', 'Z', '', '0304',
             '030405Z', '24:00', '03:04:05z', 'T03:04:05', 5, 1.5, None, True],
    'timedelta': ['1.5', '10', '0', '.5', '5.', '.', '', '01:45', '3hr12m56s', '1:23:45', '2 days', '1w3d', '-5', '+5', '1e3',
                  'abc', ' 5', '5 ', '1.2.3', '1h 30m', '32m', '1.5s', '00', '0.000001', '1_0',
                  0, 5, 1.5, -1, -1.5, 86400, 1e10, 1e20, 0.1, 1e-7, INF, NAN, True, False, None, [1]],
    'enum:Color': ['red', 'Blue', '', 'RED', 'blue', 'Red', ' red', 1, None, True, 0],
    'enum:Num': [0, 1, 2, 3, -1, '1', 'ONE', 1.0, 2.0, 1.5, True, False, None],
    'decimal': ['1.50', '1.5', '1E+3', ' 1.5 ', '1_000', 'NaN', 'Infinity', '-0', 'abc', '', '.5', '5.',
                1, -7, 0, 10 ** 30, 1.1, 0.1, 1e22, 2.5, 1e-7, True, False, None],
    'enum:SColor': ['red', 'Blue', 'RED', 'blue', 'SRED', '', ' red', None, 1, True],
    'enum:Mode': ['fast', 'Slow', 'FAST', 'slow', 'SLOW', '', None, 0],
    'uuid': [UUID_S, UUID_S.replace('-', ''), '{%s}' % UUID_S, 'urn:uuid:' + UUID_S, UUID_S.upper(), 'x', '', UUID_S[:-1], None, 5],
    'sub:datetime': ['2020-01-02T03:04:05Z', '2020-01-02T03:04:05', '2020-01-02', 0, 1.5, -1, 1651077045, '1651077045', '1.5', 'x', None, True],
    'sub:date': ['2020-01-02', 0, 86400, -1, '86400', 'x', None],
    'sub:time': ['03:04:05Z', '03:04', 'x', 5, None],
    'sub:timedelta': ['1.5', '01:45', 90, 1.5, 'x', None],
    'sub:decimal': ['1.50', 'NaN', 1, 2.5, 'x', None],
    'sub:str': ['a', '', 5, 1.5, True, None, [1]],
    'sub:int': ['7', ' 7 ', '1.5', '2.5', 2.5, 3.0, 3, '', None, True, 'x'],
    'sub:float': ['1.5', 1, 2.5, 'x', None],
    'enum:Prio': [1, 2, 3, 0, '1', 1.0, True, None],
    'enum:Perm': [1, 2, 4, 3, 5, 6, 7, 0, 8, '1', 'R', None],
    'enum:IPerm': [1, 4, 6, 7, 0, 8, '6', None],
    'enum:Fuzzy': ['alpha', 'beta', 'ALPHA', 'Beta', 'x', '', 1, None],
    'enum:Boxed': [[1, 2], [3], {'k': 1}, [9], [], [2, 1], 'PAIR', None],
    'enum:Alias': [1, 2, 3, 'UNO', None],
    'enum:Auto': [1, 2, 3, 4, '1', None],
    'bytes': ['aGVsbG8=', 'aGVsbG8', '', 'AA==', 'AAAA', 'hello', '!!!!', 'aGVs bG8=', 'a', None, 1, True],
}
# a value accepted by every engine, used as the neighbour inside containers
FILLER = {'int': 3, 'str': 'x', 'bool': True, 'float': 2.5, 'datetime': '2021-05-06T07:08:09', 'date': '2021-05-06',
          'time': '07:08:09', 'timedelta': 90, 'decimal': '2.50', 'enum:Color': 'red', 'enum:Num': 2, 'bytes': 'AAAA',
          'enum:SColor': 'red', 'enum:Mode': 'fast', 'uuid': UUID_S,
          'sub:datetime': '2021-05-06T07:08:09', 'sub:date': '2021-05-06', 'sub:time': '07:08:09', 'sub:timedelta': 90, 'sub:decimal': '2.50',
          'sub:str': 'x', 'sub:int': 3, 'sub:float': 2.5, 'enum:Prio': 2, 'enum:Perm': 4, 'enum:IPerm': 1,
          'enum:Fuzzy': 'beta', 'enum:Boxed': [3], 'enum:Alias': 2, 'enum:Auto': 2}
# per type: the null / boundary values that are placed at EVERY position kind (all contexts, all engines)
CORE = {'str': [None, 5, 'a'], 'int': [None, '', '7', '1.5', 2.5, True], 'float': [None, '1.5', 1],
        'bool': [None, 'yes', 'no', 1], 'bytes': [None, 'AAAA'], 'datetime': [None, '2020-01-02T03:04:05Z', 1600000000],
        'date': [None, '2020-01-02', 86400], 'time': [None, '03:04:05Z'], 'timedelta': [None, '1.5', '01:45', 90],
        'decimal': [None, '1.50', 2.5], 'enum:Color': [None, 'red', 'RED'], 'enum:Num': [None, 1, 2.0],
        'enum:SColor': [None, 'red', 'SRED'], 'enum:Mode': [None, 'Slow', 'SLOW'], 'uuid': [None, UUID_S],
        'sub:datetime': [None, '2020-01-02T03:04:05Z', 1600000000, '1600000000'], 'sub:date': [None, '2020-01-02', 86400],
        'sub:time': [None, '03:04:05Z'], 'sub:timedelta': [None, '1.5', 90], 'sub:decimal': [None, '1.50', 2.5], 'sub:str': [None, 5, 'a'],
        'sub:int': [None, '7', '1.5', 2.5, True], 'sub:float': [None, '1.5', 1],
        'enum:Prio': [None, 2, '2'], 'enum:Perm': [None, 4, 6, 8], 'enum:IPerm': [None, 1, 6],
        'enum:Fuzzy': [None, 'alpha', 'BETA', 'x'], 'enum:Boxed': [None, [1, 2], {'k': 1}, [9]],
        'enum:Alias': [None, 1, 2], 'enum:Auto': [None, 3, 4]}
# annotations used as dict KEY types (keys are coercion positions too); bytes is not loadable from a key
KEY_TYPES = [t for t in SCALARS if t not in ('bytes', 'enum:Boxed')]
ENV_FILLER = dict(FILLER, int='3', bool='yes', float='2.5', timedelta='90', **{'enum:Num': 2, 'sub:int': '3', 'sub:float': '2.5'})


def rand_cases(r, tier):
    """random members of unbounded families"""
    n = 12 if tier == 'quick' else 90
    out = {t: [] for t in SCALARS}
    for _ in range(n):
        z = r.choice([1, -1]) * r.getrandbits(r.choice([3, 10, 40, 70, 130]))
        out['int'].append(z)
        out['str'].append(z)
        out['decimal'].append(z)
        m = r.getrandbits(r.choice([3, 12, 30, 53])) * r.choice([1, -1])
        f = math.ldexp(m, -r.choice([0, 1, 1, 2, 3, 10, 30]))
        if f == 0:
            f = 0.0
        out['int'].append(f)
        out['int'].append(float(r.randrange(-50, 50)) + 0.5)           # ties
        out['str'].append(f)
        out['timedelta'].append(f)
        out['datetime'].append(f)
        out['datetime'].append(r.randrange(-2 ** 33, 2 ** 33))
        out['date'].append(r.randrange(-2 ** 33, 2 ** 33))
        ip = str(r.randrange(0, 10 ** r.choice([1, 3, 9])))
        fp = ''.join(r.choice('0123456789') for _ in range(r.choice([0, 1, 1, 2, 6])))
        s = r.choice(['', '', '-', '+']) + ip + '.' + fp
        out['int'].append(s)
        out['int'].append(r.choice(['', ' ', '\t']) + r.choice(['', '-', '+']) + ip + r.choice(['', ' ', '\n']))
        out['int'].append(r.choice(['', '-']) + '_'.join(ip[i:i + 2] for i in range(0, len(ip), 2)))
        out['int'].append(ip + '.' + r.choice(['0', '00', '5', '50', '25', '75']))
        out['timedelta'].append(ip + '.' + fp)
        out['datetime'].append(ip + '.' + fp)
        out['decimal'].append(s)
        out['float'].append(s)
        w = r.choice(TRUTHY_WORDS)
        w = ''.join(c.upper() if r.random() < 0.5 else c for c in w)
        m2 = r.random()
        if m2 < 0.2:
            w = w + r.choice([' ', 's', '1', 'e'])
        elif m2 < 0.3:
            w = w[:-1]
        elif m2 < 0.35:
            w = r.choice([' ', 'x']) + w
        out['bool'].append(w)
        out['bool'].append(r.choice([0, 1, 2, -1, 1.0, 3]))
        hh, mm, ss = r.randrange(24), r.randrange(60), r.randrange(60)
        tz = r.choice(['Z', '', '+00:00', '+02:00', '-03:30'])
        out['datetime'].append('%04d-%02d-%02dT%02d:%02d:%02d%s' % (r.randrange(1, 9999), r.randrange(1, 13), r.randrange(1, 29), hh, mm, ss, tz))
        out['time'].append('%02d:%02d:%02d%s' % (hh, mm, ss, tz))
        out['date'].append('%04d-%02d-%02d' % (r.randrange(1, 9999), r.randrange(1, 13), r.randrange(1, 29)))
        out['timedelta'].append(r.choice(['%dh%dm' % (hh, mm), '%d:%02d' % (mm, ss), '%ds' % ss, '%d days, %d:%02d:%02d' % (mm, hh, mm, ss)]))
        raw = bytes(r.getrandbits(8) for _ in range(r.choice([0, 1, 2, 3, 5])))
        out['bytes'].append(base64.b64encode(raw).decode())
    return out


def ascii_only(v):
    if isinstance(v, str):
        return v.isascii()
    if isinstance(v, list):
        return all(ascii_only(x) for x in v)
    if isinstance(v, dict):
        return all(k.isascii() and ascii_only(x) for k, x in v.items())
    return True


FAMILIES = {
    'temporal': ['date', 'datetime', 'time', 'timedelta', 'sub:datetime', 'sub:date'],
    'numeric': ['int', 'bool', 'float', 'decimal', 'sub:int', 'enum:Prio'],
    'text': ['str', 'uuid', 'sub:str', 'enum:Mode', 'enum:SColor'],
    'enums': ['enum:Color', 'enum:Num', 'enum:Perm', 'enum:IPerm', 'enum:Fuzzy', 'enum:Boxed', 'enum:Alias'],
}
# values used side by side (accepted by every engine where possible, epoch numbers included)
MIX = {'date': ['2020-01-02', 86400, 1.5], 'datetime': ['2020-01-02T03:04:05Z', 0, 1651077045.5], 'time': ['03:04:05Z', '03:04'],
       'timedelta': ['1.5', 90, '01:45'], 'sub:datetime': ['2020-01-02T03:04:05', 1600000000], 'sub:date': ['2020-01-02', 0],
       'int': ['7', 3.0, '2.0'], 'bool': ['yes', 0, 'no'], 'float': ['1.5', 1], 'decimal': ['1.50', 2.5], 'sub:int': ['7', 3],
       'enum:Prio': [1, 2], 'str': [5, None, 'a'], 'uuid': [UUID_S], 'sub:str': ['a', 5], 'enum:Mode': ['fast', 'Slow'],
       'enum:SColor': ['red', 'Blue'], 'enum:Color': ['red', ''], 'enum:Num': [0, 2], 'enum:Perm': [4, 6, 7], 'enum:IPerm': [1, 6],
       'enum:Fuzzy': ['alpha', 'BETA'], 'enum:Boxed': [[1, 2], {'k': 1}], 'enum:Alias': [1, 2]}
WRAPPERS = [
    (lambda t, v: (['list', t], [v, v]), lambda t, v: (['opt', t], v)),
    (lambda t, v: (['opt', t], v), lambda t, v: (['dict', 'str', t], {'k': v})),
    (lambda t, v: (['dict', 'str', t], {'k': v, 'j': v}), lambda t, v: (['list', t], [v])),
    (lambda t, v: (['tupv', t], [v]), lambda t, v: (['list', ['opt', t]], [None, v])),
]


def all_contexts(t, v):
    """every position kind of the type grammar around scalar (t, v)"""
    fill = FILLER[t]
    return [
        ('list', ['list', t], [fill, v]),
        ('dict', ['dict', 'str', t], {'k': v, 'j': fill}),
        ('dictint', ['dict', 'int', t], {'1': fill, ' 02': v}),
        ('tupv', ['tupv', t], [v, fill, v]),
        ('tup', ['tup', [t, 'bool']], [v, 'yes']),
        ('tup2', ['tup', ['str', t, 'int']], [5, v, '8']),
        ('opt', ['opt', t], v),
        ('list.opt', ['list', ['opt', t]], [None, v]),
        ('dict.list', ['dict', 'str', ['list', t]], {'a': [v], 'b': []}),
        ('list.tup', ['list', ['tup', [t, 'int']]], [[v, 1], [fill, '2']]),
        ('opt.list', ['opt', ['list', t]], [v]),
        ('list.list', ['list', ['list', t]], [[v, fill], []]),
        ('tup.list', ['tup', [['list', t], 'str']], [[v], None]),
        ('tupv.dict', ['tupv', ['dict', 'str', t]], [{'q': v}]),
        ('dict.enumkey', ['dict', 'enum:SColor', t], {'Blue': v}),
        # position kinds outside the Coq model's type grammar (direct predicate + reference only)
        ('ddict', ['ddict', 'str', t], {'k': v, 'j': fill}),
        ('odict', ['odict', 'str', t], {'k': v}),
        ('set', ['set', t], [v, fill]),
        ('fset', ['fset', t], [v]),
        ('deque', ['deque', t], [fill, v]),
        ('seq', ['seq', t], [v, fill]),
        ('mseq', ['mseq', t], [v]),
        ('coll', ['coll', t], [v]),
        ('td.req', ['td', True, [['a', t, None], ['b', 'int', None]]], {'a': v, 'b': '3'}),
        ('td.partial', ['td', False, [['a', t, None], ['b', 'int', None]]], {'a': v}),
        ('td.notreq', ['td', True, [['b', 'int', None], ['a', t, 'opt']]], {'b': 3, 'a': v}),
        ('td.req_in_partial', ['td', False, [['a', t, 'req'], ['b', 'str', None]]], {'a': v, 'b': None}),
        ('list.td', ['list', ['td', False, [['a', t, None]]]], [{'a': v}, {}]),
        ('dict.td.opt', ['dict', 'str', ['td', True, [['a', ['opt', t], 'opt']]]], {'k': {'a': v}}),
        ('nt', ['nt', [['a', t, False], ['b', 'int', True]]], [v]),
        ('nt.default', ['nt', [['b', 'str', False], ['a', t, True]]], [1, v]),
        ('list.nt', ['list', ['nt', [['a', t, False]]]], [[v], [fill]]),
        ('dc', ['dc', [['a', t], ['b', 'str']]], {'a': v, 'b': None}),
        ('dict.dc', ['dict', 'str', ['dc', [['a', t]]]], {'k': {'a': v}}),
        ('dc.opt', ['dc', [['a', ['opt', t]]]], {'a': v}),
        ('dc.list', ['dc', [['a', ['list', t]]]], {'a': [v, fill]}),
        ('td.dict', ['td', False, [['m', ['dict', 'int', t], None]]], {'m': {'7': v}}),
        ('ann', ['ann', t], v),
        ('list.ann', ['list', ['ann', ['opt', t]]], [v, None]),
    ]


def contexts(r, t, v, tier, every=False, n=None):
    """placements of scalar (t, v): top level always; every position kind for core values, else sampled."""
    allc = all_contexts(t, v)
    if not every:
        allc = r.sample(allc, (2 if tier == 'quick' else 4) if n is None else n)
    return [('top', t, v)] + allc


def key_contexts(K, key):
    """dict KEY positions: the key annotation K around the key spelling, in every dict-like container"""
    return [
        ('key.dict', ['dict', K, 'int'], {key: '3'}),
        ('key.ddict', ['ddict', K, 'str'], {key: None}),
        ('key.odict', ['odict', K, 'int'], {key: 2.0}),
        ('key.list.dict', ['list', ['dict', K, ['list', 'int']]], [{key: ['1', 2]}, {}]),
        ('key.dict.dict', ['dict', 'str', ['dict', K, 'bool']], {'o': {key: 'yes'}}),
        ('key.opt.dict', ['opt', ['dict', K, ['opt', 'int']]], {key: None}),
        ('key.td.dict', ['td', False, [['m', ['dict', K, 'int'], None]]], {'m': {key: '1'}}),
        ('key.dc.dict', ['dc', [['m', ['dict', K, 'str']]]], {'m': {key: 5}}),
    ]


def env_string_forms(r, t, v, only=None):
    """EnvWizard: the same scalar spelled inside shorthand / JSON container strings (only str scalars can be embedded)."""
    if not isinstance(v, str) or any(c in v for c in ',=[]{}"\\') or v != v.strip() or v == '' or not v.isprintable():
        return []
    fill = ENV_FILLER[t]
    if not isinstance(fill, str):
        return []
    out = [
        ('env.list', ['list', t], '%s, %s' % (fill, v)),
        ('env.list.ws', ['list', t], '  %s ,%s  ' % (v, fill)),
        ('env.tupv', ['tupv', t], '%s,%s,%s' % (v, fill, v)),
        ('env.dict', ['dict', 'str', t], 'k=%s, j = %s' % (v, fill)),
        ('env.dictint', ['dict', 'int', t], '1=%s,02=%s' % (fill, v)),
        ('env.tup', ['tup', [t, 'bool']], '%s,yes' % v),
        ('env.json.list', ['list', t], json.dumps([v, fill])),
        ('env.json.dict', ['dict', 'str', t], ' ' + json.dumps({'k': v})),
        ('env.json.tup', ['tup', [t, 'bool']], json.dumps([v, 'on'])),
        ('env.opt.list', ['opt', ['list', t]], '%s,%s' % (v, v)),
        ('env.list.list', ['list', ['list', t]], '%s,%s' % (v, fill)),
        ('env.dict.list', ['dict', 'str', ['list', t]], 'a=%s' % v),
        ('env.set', ['set', t], '%s , %s' % (v, fill)),
        ('env.deque', ['deque', t], json.dumps([fill, v])),
        ('env.seq', ['seq', t], '%s,%s' % (v, v)),
        ('env.nt', ['nt', [['a', t, False], ['b', 'bool', False]]], '%s, yes' % v),
        ('env.json.nt', ['nt', [['b', 'str', False], ['a', t, True]]], json.dumps([1, v])),
        ('env.td', ['td', False, [['a', t, None], ['b', 'int', None]]], 'a=%s' % v),
        ('env.json.td', ['td', True, [['a', t, None], ['b', 'int', 'opt']]], json.dumps({'a': v, 'b': None})),
        ('env.dc', ['dc', [['a', t], ['b', 'str']]], 'a = %s , b=x' % v),
        ('env.ddict', ['ddict', 'str', t], 'k=%s' % v),
    ]
    if only is not None:
        return [x for x in out if x[0] in only]
    return r.sample(out, 4)



# ----------------------------------------------------------------------------------------------
# numerals: systematic families (sign x magnitude class x spelling) instead of a few hand-picked spellings.
# The detour int(float(s)) is exact below 2**53 and silently wrong above it, so every magnitude class
# has members on both sides of a power of two that matters to binary64 / to fixed-width integers.
SIGNS = ['', '-', '+']
MAG_CLASSES = {
    'small': [0, 7, 42, 1000],
    'p53': [2 ** 53 - 1, 2 ** 53, 2 ** 53 + 1, 2 ** 53 + 2, 2 ** 53 + 3],
    'p63': [2 ** 63 - 1, 2 ** 63, 2 ** 63 + 1],
    'p64': [2 ** 64 - 1, 2 ** 64, 2 ** 64 + 1],
    'e30': [10 ** 30, 10 ** 30 + 1, 123456789012345678901234567890],
}
MAG_REPS = [7, 2 ** 53 + 1, 2 ** 63 + 1, 2 ** 64 + 1, 10 ** 30 + 1]      # one per class, none representable above 2**53
MAG_EVERYWHERE = [2 ** 53 + 1, 10 ** 30 + 1]                              # these go to EVERY int-typed position kind


def us_groups(digits):
    """'1234567' -> '1_234_567' (single underscores between digit groups)"""
    head = len(digits) % 3 or 3
    return '_'.join([digits[:head]] + [digits[i:i + 3] for i in range(head, len(digits), 3)])


INT_SPELLINGS = [
    ('plain', lambda sg, d: sg + d),
    ('ws.l', lambda sg, d: ' ' + sg + d),
    ('ws.r', lambda sg, d: sg + d + '\n'),
    ('ws.both', lambda sg, d: '\t ' + sg + d + ' \r'),
    ('us', lambda sg, d: sg + us_groups(d)),
    ('zeros', lambda sg, d: sg + '00' + d),
    ('us.ws', lambda sg, d: ' ' + sg + us_groups(d) + ' '),
]
POINT_SUFFIXES = ['.0', '.', '.000', '.5', '.25', '.50', '.75', '.0e0', 'e0', '.5e1', 'E2']


def numeric_families(r, tier):
    """[(tag, scalar type, value, placements)]: placements = 'all' (every position kind) or the number of
    sampled position kinds besides the top level"""
    out = []
    mags = [m for ms in MAG_CLASSES.values() for m in ms]
    extra = [r.getrandbits(k) | (1 << (k - 1)) | 1 for k in ([54, 60, 64, 65, 80, 100, 130] if tier == 'quick' else
                                                             [54, 55, 56, 57, 60, 62, 63, 64, 65, 66, 70, 80, 90, 100, 110, 120, 130, 200, 400])]
    thorough = tier != 'quick'
    more = 2 if thorough else 1
    # integer strings -> int / float / Decimal / str positions
    for m in mags + extra:
        for sg in SIGNS:
            for name, f in INT_SPELLINGS:
                rep = thorough or m in MAG_REPS
                if name != 'plain' and not rep:
                    continue
                s = f(sg, str(m))
                out.append(('intstr.' + name, 'int', s, 'all' if name == 'plain' and m in MAG_EVERYWHERE else more))
                if name in ('plain', 'ws.both', 'us') and rep:
                    out.append(('intstr.' + name, 'float', s, 0))
                    out.append(('intstr.' + name, 'decimal', s, 0))
                if name == 'plain' and rep:
                    out.append(('intstr.' + name, 'sub:int', s, 0))
                    out.append(('intstr.' + name, 'timedelta', s, 0))       # numeric form only without a sign
                    out.append(('intstr.' + name, 'datetime', s, 0))        # EnvWizard: epoch strings
    # strings with a decimal point / exponent ("float strings") -> int, float, Decimal
    for m in (mags + extra if thorough else MAG_REPS + [2 ** 53, 2 ** 52 + 1, 2 ** 51 + 1]):
        for sg in SIGNS:
            for suf in POINT_SUFFIXES:
                s = sg + str(m) + suf
                every = suf == '.0' and m in MAG_EVERYWHERE and sg != '+'
                out.append(('pointstr', 'int', s, 'all' if every else (more if suf in ('.0', '.5') else 0)))
                if thorough or (sg != '+' and suf in ('.0', '.', '.5', '.25', 'e0', '.5e1')):
                    out.append(('pointstr', 'float', s, 0))
                if suf in ('.0', '.5', 'e0'):
                    out.append(('pointstr', 'decimal', s, 0))
                if sg == '' and suf in ('.0', '.5', '.25'):
                    out.append(('pointstr', 'timedelta', s, 0))
                    out.append(('pointstr', 'datetime', s, 0))
    # JSON ints and floats of every magnitude class at int / float / Decimal / bool positions
    for m in mags + extra:
        for z in (m, -m):
            out.append(('jsonint', 'int', z, 0))
            out.append(('jsonint', 'float', z, 'all' if z in (2 ** 53 + 1, -(2 ** 53 + 1)) else 0))
            out.append(('jsonint', 'decimal', z, 0))
            out.append(('jsonint', 'str', z, 0))
            if thorough or m in MAG_REPS:
                out.append(('jsonint', 'bool', z, 0))
                out.append(('jsonint', 'timedelta', z, 0))
            try:
                fz = float(z)
            except OverflowError:
                continue
            out.append(('jsonfloat', 'int', fz, 'all' if m == 2 ** 53 + 2 else 0))
            out.append(('jsonfloat', 'decimal', fz, 0))
            out.append(('jsonfloat', 'float', fz, 0))
    # floats with a fraction near the point where binary64 runs out of fraction bits
    for base in [2 ** 51, 2 ** 52 - 1, 2 ** 50 + 1, 1, 2, 1000001]:
        for frac in (0.5, 0.25, 0.75):
            for sgn in (1, -1):
                fv = sgn * (base + frac)
                out.append(('jsonfloat.frac', 'int', fv, more))
                out.append(('jsonfloat.frac', 'sub:int', fv, 0))
    # bool is an int subclass: rejected at int, accepted nowhere as a number for dates
    for b in (True, False):
        for t in ('int', 'sub:int', 'float', 'decimal', 'timedelta', 'datetime', 'date'):
            out.append(('bool', t, b, more))
    return out


def int_key_family():
    """integer strings as dict KEYS of type int (keys are coercion positions)"""
    out = []
    for m in MAG_REPS:
        for sg in SIGNS:
            out.append(sg + str(m))
        out.append('-' + us_groups(str(m)))
        out.append(' +' + str(m) + ' ')
    return out


ENV_NUM_FORMS = ('env.list', 'env.dict', 'env.dictint', 'env.json.list', 'env.json.dict', 'env.tupv', 'env.set', 'env.nt', 'env.td', 'env.dc')


def gen_cases(ctx):
    r = ctx.sub_rng('cases')
    rnd = rand_cases(r, ctx.tier)
    cases, seen = [], set()

    def add(tag, ty, v, engines):
        if not ascii_only(v):
            return
        key = json.dumps([ty, v, engines], sort_keys=True)
        if key in seen:
            return
        seen.add(key)
        cases.append({'tag': tag, 'ty': ty, 'val': v, 'engines': engines})

    for t in SCALARS:
        for v in CORE[t]:
            for tag, ty, val in contexts(r, t, v, ctx.tier, every=True):
                add(tag, ty, val, ENGINES)
        for v in BOUNDARY[t] + rnd.get(t, []):
            for tag, ty, val in contexts(r, t, v, ctx.tier):
                add(tag, ty, val, ENGINES)
            if t in ENV_FILLER:
                for tag, ty, val in env_string_forms(r, t, v):
                    add(tag, ty, val, ['env'])
    # numerals: sign x magnitude class x spelling, at int / float / Decimal / timedelta / datetime positions
    for tag, t, v, where in numeric_families(r, ctx.tier):
        every = where == 'all'
        for ctag, ty, val in contexts(r, t, v, ctx.tier, every=every, n=None if every else where):
            add('num.%s.%s' % (tag, ctag), ty, val, ENGINES)
        if every and isinstance(v, str):
            for ctag, ty, val in env_string_forms(r, t, v, only=ENV_NUM_FORMS):
                add('num.%s.%s' % (tag, ctag), ty, val, ['env'])
    for key in int_key_family():
        for ctag, ty, val in key_contexts('int', key):
            add('num.intkey.' + ctag, ty, val, ENGINES)
    # dict keys: core spellings at every key position kind, the other boundary spellings at a sampled one
    for K in KEY_TYPES:
        keys = [v for v in BOUNDARY[K] + rnd.get(K, [])[:6 if ctx.tier == 'quick' else 40] if isinstance(v, str)]
        core = [v for v in CORE[K] if isinstance(v, str)]
        for key in dict.fromkeys(core + keys):
            kc = key_contexts(K, key)
            for tag, ty, val in (kc if key in core else r.sample(kc, 1 if ctx.tier == 'quick' else 3)):
                add(tag, ty, val, ENGINES)
        # keys that are not strings (from_dict / EnvWizard keyword input, not JSON)
        for key in [x for x in CORE[K] + [1, 0, 2.0, True, None] if not isinstance(x, str)]:
            add('key.nonstr', ['dict', K, 'int'], {'__pairs__': [[key, '3']]}, ENGINES)
            add('key.nonstr.list', ['list', ['dict', K, 'int']], [{'__pairs__': [[key, 3]]}], ENGINES)
    # multi-field classes: related leaf types side by side in ONE class (one generated load function, one
    # namespace of helpers), in both orders, every field with a value in the same document
    for fam, types in FAMILIES.items():
        for a in types:
            for b in types:
                if a == b:
                    continue
                wrap = r.choice(WRAPPERS)
                for va in MIX[a]:
                    for vb in MIX[b]:
                        add('multi.%s' % fam, ['root', [['fa', a], ['fb', b]]], {'fa': va, 'fb': vb}, ENGINES)
                va, vb = r.choice(MIX[a]), r.choice(MIX[b])
                (ta, xa), (tb, xb) = wrap[0](a, va), wrap[1](b, vb)
                add('multi.%s.wrapped' % fam, ['root', [['fa', ta], ['fb', tb]]], {'fa': xa, 'fb': xb}, ENGINES)
        for _ in range(2 if ctx.tier == 'quick' else 8):
            perm = r.sample(types, len(types))
            add('multi.%s.all' % fam, ['root', [['f%d' % i, t] for i, t in enumerate(perm)]],
                {'f%d' % i: r.choice(MIX[t]) for i, t in enumerate(perm)}, ENGINES)
    # Union members: a value whose exact type is a scalar member
    for ty, vals in [(['union', ['int', 'str']], [5, '5', 'a', '']), (['union', ['str', 'int']], ['5', 7]),
                     (['union', ['bool', 'int']], [1, True, 0]), (['union', ['float', 'str']], [1.5, 'x']),
                     (['list', ['union', ['int', 'str']]], [[1, 'a', '2']]), (['dict', 'str', ['union', ['str', 'float']]], [{'a': 'x', 'b': 2.5}])]:
        for v in vals:
            add('union', ty, v, ENGINES)
    # container shape cases (mostly outside the documented domain: model == implementation only)
    for ty, vals in [
        (['tup', ['int', 'bool']], [['1'], ['1', 'yes', 'x'], [], 'ab', {'a': 1, 'b': 2}, None, 5, '[1, "yes"]', '12', '1,yes']),
        (['tup', ['int', ['opt', 'int']]], [['1'], ['1', None], ['1', '2', '3'], [], [None, None]]),
        (['tup', [['opt', 'int'], 'int']], [['1'], [None, '2']]),
        (['tup', ['str', 'str', 'str']], ['a,b', 'a,b,c', 'a,b,c,d,e,f', ['a', 'b', 'c']]),
        (['list', 'int'], ['12', {'1': 2}, 5, None, '', ' [1, 2]', '1,,2', ' 1 , 2 ', '[1, 2', '[]', '{"a": 1}', ',', ',,']),
        (['tupv', 'int'], ['12', {'1': 2}, 5, None, [], '', ',,', '1,2,3', '[1,2,3]', ',']),
        (['dict', 'str', 'int'], [[['a', 1]], 'a=1,b', 'a=1=2', '', ' {"a": "1"}', 'a = 1 ,a= 2', None, 5, '{"a": 1', '=', '=1', 'a=', '[1]']),
        (['dict', 'int', 'int'], [{'1': '2', '01': 3}, '1=2,01=3', {'a': 1}, {'1.5': 1}]),
        (['list', ['list', 'int']], [[['1'], ['2.0']], '1,2', '[[1],[2]]', ['1,2', '3']]),
        (['opt', ['list', 'int']], [None, ['1'], '1,2']),
        (['list', 'bool'], ['yes,no, ON', ['yes', 0, 1.0]]),
        (['list', 'str'], ['a, b ,c', '', [1, None], ' x ']),
        (['dict', 'str', 'str'], ['a=b', 'a = b = c', {'a': None}]),
    ]:
        for v in vals:
            add('shape', ty, v, ENGINES)
    return cases


def scalars_of(ty):
    if isinstance(ty, str):
        return {ty} if ty in SCALARS else set()
    if isinstance(ty, list):
        return set().union(*[scalars_of(x) for x in ty]) if ty else set()
    return set()


def nontrivial(ty, v):
    """some leaf of the value is not already of an annotated scalar type"""
    sc = scalars_of(ty)
    if not sc <= {'str', 'int', 'float', 'bool'}:
        return True
    want = tuple({'str': str, 'int': int, 'float': float, 'bool': bool}[x] for x in sc)
    leafs = []

    def walk(x):
        if isinstance(x, list):
            for y in x:
                walk(y)
        elif isinstance(x, dict):
            for y in x.values():
                walk(y)
        else:
            leafs.append(x)
    walk(v)
    return any(type(x) not in want for x in leafs) or not leafs


# ----------------------------------------------------------------------------------------------
# oracle atoms
def typed_strables(ty, v, out):
    """lists / dicts standing at a scalar position (str(o), Decimal(str(o)))"""
    if isinstance(ty, str):
        if isinstance(v, (list, dict)):
            out[coq_jv(v)] = v
        return
    k = ty[0]
    if k == 'opt':
        typed_strables(ty[1], v, out)
    elif k in ('list', 'tupv') and isinstance(v, (list, dict)):
        for x in v:
            typed_strables(ty[1], x, out)
    elif k == 'tup' and isinstance(v, list):
        for t1, x in zip(ty[1], v):
            typed_strables(t1, x, out)
    elif k == 'dict' and isinstance(v, dict):
        for x in v.values():
            typed_strables(ty[2], x, out)


def collect_atoms(values):
    """strings, numbers and str()-ables that the model may hand to an oracle."""
    strings, numbers, strables = {}, {}, {}

    def add_str(s, depth=0):
        if s in strings or not s.isascii():
            return
        strings[s] = True
        if 'Z' in s:
            add_str(s.replace('Z', '+00:00', 1), depth)
        if depth < 3:
            if True:
                for p in s.split(','):
                    add_str(p.strip(), depth + 1)
                    if '=' in p:
                        a, b = p.split('=', 1)
                        add_str(a.strip(), depth + 1)
                        add_str(b.strip(), depth + 1)
            if s.lstrip()[:1] in ('[', '{'):
                try:
                    walk(json.loads(s), depth + 1)
                except ValueError:
                    pass
            for c in (s if len(s) <= 12 else ''):
                add_str(c, 3)
        try:
            f = float(s)
            add_num(f)
        except ValueError:
            pass

    def add_num(x):
        if isinstance(x, bool):
            x = int(x)
        if isinstance(x, float) and x == 0:
            x = 0.0
        numbers[(type(x).__name__, repr(x))] = x

    def walk(v, depth=0):
        if isinstance(v, str):
            add_str(v, depth)
        elif v is None:
            add_str('None', 3)
        elif isinstance(v, bool):
            add_num(v)
            add_str(str(v), 3)
            add_str(str(int(v)), 3)
        elif isinstance(v, int):
            add_num(v)
            add_str(str(v), 3)
        elif isinstance(v, float):
            add_num(v)
            add_str(str(v), 3)
            strables[coq_jv(v)] = v
        elif isinstance(v, list):
            for x in v:
                walk(x, depth)
        elif isinstance(v, dict):
            for k, x in v.items():
                add_str(k, depth)
                walk(x, depth)

    for v in values:
        walk(v)
    return list(strings), list(numbers.values()), list(strables.values())


def build_prelude(ctx, values, tz, typed=()):
    import pytimeparse
    strings, numbers, strables = collect_atoms(values)
    extra = {}
    for ty, v in typed:
        typed_strables(ty, v, extra)
    values = list(values) + [str(x) for x in extra.values()]
    strings, numbers, strables = collect_atoms(values)
    strables = list({**{coq_jv(x): x for x in strables}, **extra}.values())
    # seconds returned by pytimeparse feed timedelta()
    for s in strings:
        x = pytimeparse.parse(s)
        if x is not None:
            numbers.append(x)
    numbers = list({(type(x).__name__, repr(x)): x for x in numbers}.values())
    orc = ctx.impl('c04_oracle', {'strings': strings, 'numbers': numbers, 'strables': strables}, extra_env={'TZ': tz})

    def table(name, keys, keyf, okf, dflt=None):
        ents = []
        for k, r in zip(keys, orc[name]):
            if r is None or (dflt is not None and r == ['err', dflt]):
                continue
            ents.append('(%s, %s)' % (keyf(k), coq_res(r, okf)))
        return coq_list(ents)

    hexs = lambda h: coq_str(bytes.fromhex(h))
    lines = [
    ] + [
        'Definition %s : list (jv * pstr) := %s.' % (ENUM_COQ[e], coq_list(['(%s, %s)' % (coq_jv(v), coq_str(n)) for v, n in ENUMS[e]]))
        for e in ENUMS
    ] + [
        'Definition T_dom : list pstr := %s.' % coq_list([coq_str(x) for x in strings]),
        'Definition T_str : list (jv * res pstr) := %s.' % table('str', strables, coq_jv, coq_str),
        'Definition T_dt_iso : list (pstr * res pstr) := %s.' % table('dt_iso', strings, coq_str, coq_str, 'EV'),
        'Definition T_date_iso : list (pstr * res pstr) := %s.' % table('date_iso', strings, coq_str, coq_str, 'EV'),
        'Definition T_time_iso : list (pstr * res pstr) := %s.' % table('time_iso', strings, coq_str, coq_str, 'EV'),
        'Definition T_dt_ts_utc : list (num * res pstr) := %s.' % table('dt_ts_utc', numbers, coq_num, coq_str),
        'Definition T_dt_ts_local : list (num * res pstr) := %s.' % table('dt_ts_local', numbers, coq_num, coq_str),
        'Definition T_date_ts : list (num * res pstr) := %s.' % table('date_ts', numbers, coq_num, coq_str),
        'Definition T_timeparse : list (pstr * res (option num)) := %s.' % table('timeparse', strings, coq_str, coq_numenc),
        'Definition T_timedelta : list (num * res pstr) := %s.' % table('timedelta', numbers, coq_num, coq_str),
        'Definition T_decimal : list (pstr * res pstr) := %s.' % table('decimal', strings, coq_str, coq_str, 'EX'),
        'Definition T_b64 : list (pstr * res pstr) := %s.' % table('b64', strings, coq_str, hexs, 'EV'),
        'Definition T_json : list (pstr * res jv) := %s.' % table('json', strings, coq_str, coq_jenc),
        'Definition ORC : oracles := tbl_oracles T_dom T_str T_dt_iso T_date_iso T_time_iso T_dt_ts_utc T_dt_ts_local '
        'T_date_ts T_timeparse T_timedelta T_decimal T_b64 T_json.',
        'Definition run (e : engine) (t : ty) (j : jv) : pstr := show_res (load ORC e t j).',
        'Definition run_list (j : jv) : pstr := show_res (rmap pv_of_jv (as_list ORC j)).',
        'Definition run_dict (j : jv) : pstr := show_res (rmap pv_of_jv (as_dict ORC j)).',
    ]
    # oracle hypothesis of the v1 theorems: on Python >= 3.11 fromisoformat reads a trailing Z as +00:00
    iso = {}
    for name in ('dt_iso', 'time_iso'):
        iso[name] = dict(zip(strings, orc[name]))
    hyp_bad = []
    for s in strings:
        if s.endswith('Z') and 'Z' not in s[:-1]:
            s2 = s[:-1] + '+00:00'
            for name in ('dt_iso', 'time_iso'):
                if s2 in iso[name] and iso[name][s] != iso[name][s2]:
                    hyp_bad.append((name, s))
    return compile_prelude(ctx, '\n'.join(lines)), hyp_bad, orc, (len(strings), len(numbers), len(strables))


_orc_n = [0]


def compile_prelude(ctx, text):
    """The oracle tables are compiled once into a .vo; every shard only loads it."""
    import os, subprocess
    from lib import coqrun
    _orc_n[0] += 1
    d = os.path.join(ctx.workdir, 'orc%d' % _orc_n[0])
    os.makedirs(d, exist_ok=True)
    name = 'C04Orc%d' % _orc_n[0]
    with open(os.path.join(d, name + '.v'), 'w') as f:
        f.write('From DW Require Import PyStr CoerceModel.\n' + text + '\n')
    p = subprocess.run(['coqc'] + coqrun.QFLAGS + ['-Q', d, 'C04W', os.path.join(d, name + '.v')],
                       capture_output=True, text=True, timeout=600, cwd=d)
    if p.returncode != 0:
        raise coqrun.CoqError('oracle table does not compile: %s' % (p.stderr or p.stdout)[-1500:])
    return 'Add LoadPath "%s" as C04W.\nFrom C04W Require Import %s.' % (d, name)


# ----------------------------------------------------------------------------------------------
KNOWN = {
    'F80-timedelta-subclass-ignored': 'a position annotated with a user subclass of timedelta receives a plain datetime.timedelta (as_timedelta ignores base_type), unlike subclasses of datetime/date/time/Decimal/str/int/float',
    'F36-env-fixed-tuple-string': 'EnvWizard: a fixed-arity tuple field cannot be loaded from a string: the element count is checked against len() of the raw string',
}


def has_env_tuple_string(ty, v):
    """a str (or a str produced by shorthand splitting) at a fixed-arity tuple position (EnvWizard)"""
    if isinstance(ty, str):
        return False
    k = ty[0]
    if k == 'opt':
        return v is not None and has_env_tuple_string(ty[1], v)
    if isinstance(v, str):
        if k == 'tup':
            return True
        if k == 'tupv' and v.lstrip()[:1] != '[' and len(v.split(',')) > len(v):
            return True                 # same root cause: one parser per character of the raw string
        st = v.lstrip()
        if st[:1] in ('[', '{'):
            try:
                v = json.loads(v)
            except ValueError:
                return False
        elif k in ('dict', 'ddict', 'odict', 'td', 'dc'):
            v = {a.strip(): b.strip() for a, _, b in (p.partition('=') for p in v.split(','))}
        else:
            v = env_shorthand_list(v)
    if k in ('list', 'tupv'):
        return isinstance(v, list) and any(has_env_tuple_string(ty[1], x) for x in v)
    if k == 'tup':
        return isinstance(v, list) and any(has_env_tuple_string(t1, x) for t1, x in zip(ty[1], v))
    if k in ('dict', 'ddict', 'odict'):
        return isinstance(v, dict) and any(has_env_tuple_string(ty[2], x) for x in v.values())
    if k in ('set', 'fset', 'deque', 'seq', 'mseq', 'coll'):
        return isinstance(v, list) and any(has_env_tuple_string(ty[1], x) for x in v)
    if k == 'td':
        return isinstance(v, dict) and any(has_env_tuple_string(t1, v[n]) for n, t1, _ in ty[2] if n in v)
    if k == 'nt':
        return isinstance(v, list) and any(has_env_tuple_string(t1, x) for (_, t1, _), x in zip(ty[1], v))
    if k in ('dc', 'root'):
        return isinstance(v, dict) and any(has_env_tuple_string(t1, v[n]) for n, t1 in ty[1] if n in v)
    if k == 'union':
        return any(has_env_tuple_string(t1, v) for t1 in ty[1])
    if k == 'ann':
        return has_env_tuple_string(ty[1], v)
    return False


def known_region(case, eng):
    if 'sub:timedelta' in json.dumps(case['ty']):
        return 'F80-timedelta-subclass-ignored'
    if eng == 'env' and has_env_tuple_string(case['ty'], case['val']):
        return 'F36-env-fixed-tuple-string'
    return None


_TAGS = {'S': 'str', 'Y': 'bytes', 'Pdt': 'datetime', 'Pd': 'date', 'Pt': 'time', 'Ptd': 'timedelta(days,s,us)',
         'Pdec': 'Decimal', 'Pu': 'UUID', 'M': 'Enum.'}
_OPEN = {'NT[': 'namedtuple[', 'DC[': 'dataclass[', 'DD[': 'defaultdict[', 'OD[': 'OrderedDict[', 'FZ{': 'frozenset{',
         'Z{': 'set{', 'Q[': 'deque[', 'L[': 'list[', 'T[': 'tuple[', 'D[': 'dict['}
_TOKEN = re.compile(r'(NT\[|DC\[|DD\[|OD\[|FZ\{|Z\{|Q\[|L\[|T\[|D\[)|(Pdec|Pdt|Ptd|Pu|Pd|Pt|S|Y|M)([0-9a-f]*);|I(-?[0-9]+);|F([^;]*);|(B1|B0|N)|([\]}])')


_SUBTAG = re.compile(r'X((?:[0-9a-f]{2})+):')


def pretty(code):
    """readable form of an encoded outcome (hex payloads decoded)"""
    if code.startswith('E'):
        return code
    out, pos = [], 0
    while pos < len(code):
        mx = _SUBTAG.match(code, pos)
        if mx:
            out.append('%s:' % bytes.fromhex(mx.group(1)).decode('utf-8', 'replace'))
            pos = mx.end()
            continue
        m = _TOKEN.match(code, pos)
        if not m:
            return code                      # unknown shape (e.g. an unexpected Python type): leave as is
        if m.group(1):
            out.append(_OPEN[m.group(1)])
        elif m.group(2):
            try:
                txt = bytes.fromhex(m.group(3)).decode('utf-8', 'replace')
            except ValueError:
                return code
            out.append('%s(%r) ' % (_TAGS[m.group(2)], txt))
        elif m.group(4) is not None:
            out.append('int(%s) ' % m.group(4))
        elif m.group(5) is not None:
            out.append('float(%s) ' % m.group(5))
        elif m.group(6):
            out.append({'B1': 'True ', 'B0': 'False ', 'N': 'None '}[m.group(6)])
        else:
            out.append(m.group(7) + ' ')
        pos = m.end()
    return ''.join(out).strip()


def order_free(ty):
    """TypedDict key order is not part of the property: compare with dict items sorted"""
    return 'td' in json.dumps(ty)


def check_direct(case, eng, o):
    """Direct predicate. None if it holds / is not applicable, else a description."""
    ref = ref_coerce(case['ty'], decode_val(case['val']), eng)
    if ref is UNDOC:
        return None, 'undoc'
    if ref is REJECT:
        if 'ok' in o:
            return 'accepted %s, the documentation says it is rejected' % pretty(o['ok']), 'reject'
        return None, 'reject'
    srt = order_free(case['ty'])
    want = enc(ref[1], srt)
    if 'ok' not in o:
        return 'raised %s (%s), documented result %s' % (o.get('err'), (o.get('msg') or '')[:80].replace('\n', ' '), pretty(want)), 'ok'
    if (o.get('ok_sorted', o['ok']) if srt else o['ok']) != want:
        return 'loaded %s, documented result %s' % (pretty(o['ok']), pretty(want)), 'ok'
    return None, 'ok'


def model_vs_impl(m, o, eng):
    """None if the model outcome string m matches the implementation outcome o."""
    if 'ok' in o:
        return None if m == 'O' + o['ok'] else 'value'
    if m.startswith('O'):
        return 'value'
    if m == 'E?':
        return 'oracle-miss'
    k = o.get('kind', 'EX')
    if k.startswith('P'):
        k = k[1:] if eng == 'v1' else 'EX'
    if k in ('ET', 'EV', 'EO') and m in ('ET', 'EV', 'EO') and k != m:
        return 'error-class'
    return None


def run_batch(ctx, cases, tz, tag):
    impl = ctx.impl('c04', {'cases': cases}, extra_env={'TZ': tz})
    mod = [c for c in cases if modelled(c)]
    prelude, hyp_bad, orc, sizes = build_prelude(ctx, [c['val'] for c in mod], tz, [(c['ty'], c['val']) for c in mod])
    ctx.hist('oracle_table_sizes', '%s strings=%d numbers=%d strables=%d' % ((tag,) + sizes))
    ctx.hist('iso_z_premise', '%s: %d strings where fromisoformat reads a trailing Z unlike +00:00 (outside the v1 theorem)' % (tag, len(hyp_bad)))
    exprs, where = [], []
    for i, c in enumerate(cases):
        if not modelled(c):
            continue
        for eng in c['engines']:
            exprs.append('run %s %s %s' % (COQ_ENGINE[eng], coq_ty(c['ty']), coq_jv(c['val'])))
            where.append((i, eng))
    model = None
    try:
        model = dict(zip(where, ctx.coq(exprs, ['PyStr', 'CoerceModel'], prelude=prelude, tag='cases_' + tag)))
    except Exception as e:
        ctx.broken_tie('model evaluation failed (%s): %s' % (tag, str(e)[-600:]))
    index = [(i, eng) for i, c in enumerate(cases) for eng in c['engines']]
    return impl, model, index


def evaluate(ctx, cases, impl, model, index, tz):
    n_tie = 0
    for (i, eng) in index:
        c = cases[i]
        ctx.hist('in_model_grammar', 'yes' if modelled(c) else 'no (direct predicate only)')
        o = impl['cases'][i][eng]
        key = json.dumps([c['ty'], c['val'], eng, tz], sort_keys=True)
        ctx.count(1, key=key, nontrivial=nontrivial(c['ty'], c['val']))
        ctx.hist('context', c['tag'])
        ctx.hist('engine', eng)
        region = known_region(c, eng)
        if o.get('phase') == 'setup':
            ctx.violation('loader generation failed for %s (%s): %s' % (json.dumps(c['ty']), eng, o.get('msg')),
                          {'kind': 'case', 'case': c, 'engine': eng, 'tz': tz})
            continue
        # direct predicate
        bad, dom = check_direct(c, eng, o)
        ctx.hist('documented_domain', '%s/%s' % (eng, dom))
        if bad:
            if region and ctx.is_open_region(region):
                ctx.hist('known_region', region)
            elif len(ctx.violations) >= MAX_REPORTED:
                ctx.hist('violations_not_written', eng)
            else:
                ctx.violation('%s %s <- %s: %s' % (eng, json.dumps(c['ty']), json.dumps(c['val'])[:120], bad),
                              {'kind': 'case', 'case': c, 'engine': eng, 'tz': tz})
        # correspondence
        if model is not None and (i, eng) in model:
            ctx.traces_validated += 1
            d = model_vs_impl(model[(i, eng)], o, eng)
            if d and region and ctx.finding(region) is not None and bad is None:
                # the model is faithful to a listed defect; here the implementation behaves as documented
                # (defect repaired): FINDING-RESOLVED is printed by replay_known, not a broken tie
                ctx.hist('resolved_region', region)
            elif d:
                ctx.disagreements_checked += 1
                n_tie += 1
                if n_tie <= 6:
                    ctx.broken_tie('Coerce model and implementation disagree (%s): %s %s <- %s' % (d, eng, json.dumps(c['ty']), json.dumps(c['val'])[:100]),
                                   {'case': c, 'engine': eng, 'tz': tz, 'impl': o, 'model': model[(i, eng)]})
    return n_tie


# ----------------------------------------------------------------------------------------------
# unit level: the concrete standard-library fragments of the model against Python itself,
# and type_conv.as_list / as_dict called directly
def unit_checks(ctx, cases):
    r = ctx.sub_rng('units')
    strs = [v for v in BOUNDARY['int'] if isinstance(v, str)]
    for _ in range(60 if ctx.tier == 'quick' else 600):
        strs.append(''.join(r.choice('0123456789_+- \t.') for _ in range(r.choice([1, 2, 3, 5, 8]))))
    strs = list(dict.fromkeys(s for s in strs if s.isascii()))
    floats = [v for v in BOUNDARY['int'] if isinstance(v, float)]
    for _ in range(60 if ctx.tier == 'quick' else 600):
        floats.append(math.ldexp(r.getrandbits(r.choice([2, 8, 53])) * r.choice([1, -1]), -r.choice([0, 1, 2, 5, 20, 60])))
    floats = [f if f != 0 else 0.0 for f in floats]
    ints = [0, 1, -1, 9, 10, -10, 10 ** 18, -(10 ** 40)] + [r.getrandbits(80) - 2 ** 79 for _ in range(20)]
    split_strs = [c['val'] for c in cases if isinstance(c['val'], str) and c['engines'] == ['env']][:150]
    split_strs += ['', ',', ',,', 'a', ' a , b ', 'a,b,', '=', 'a=1', 'a=1,b=2', 'a = 1 , a=2', 'a', 'a=b=c', ' [1, "x"]', '[', '{"k": [1]}', ' {', 'x=[1]']
    split_strs = list(dict.fromkeys(split_strs))

    def py(f, *a):
        try:
            return 'O%d' % f(*a)
        except OverflowError:
            return 'EO'
        except ValueError:
            return 'EV'
        except TypeError:
            return 'ET'

    exprs = ['show_resZ (py_int_of_str %s)' % coq_str(s) for s in strs]
    want = [py(int, s) for s in strs]
    exprs += ['show_resZ (fl_round %s)' % coq_fl(f) for f in floats]
    want += [py(round, f) for f in floats]
    exprs += ['(if fl_is_integer %s then S "1" else S "0")' % coq_fl(f) for f in floats]
    want += ['1' if f.is_integer() else '0' for f in floats]
    exprs += ['str_of_Z (%d)%%Z' % z for z in ints]
    want += [str(z) for z in ints]
    exprs += ['show_fl %s' % coq_fl(f) for f in floats]
    want += [enc_float(f) for f in floats]
    # float(str) / float(int) of the model (CoerceFloat.v: correct rounding of binary64) against Python's own
    fstrs = [c['val'] for c in cases if isinstance(c['val'], str) and c['tag'].startswith('num.') and c['tag'].endswith('.top')]
    fstrs += [v for t in ('int', 'float', 'timedelta', 'decimal') for v in BOUNDARY[t] if isinstance(v, str)]
    fstrs += ['inf', '-inf', '+inf', 'Infinity', '-iNfInItY', 'infinit', 'nan', '+NaN', '-nan', 'na', 'in_f', '1_e5', '1e5_', '1e_5', '1_000.5e1_0',
              '-_1', '1_0_', '1._5', '1_.5', '1.5_', '1__0.5', '.', '-.', '.e5', '1e', '1e+', '1e-', 'e5', '1.e5', '+.5e-1', '- 1', '1 e5', '--1', '+-1',
              '1e--1', '1.5E+0_1', '0e999999999999', '1e999999999999', '1e-999999999999', '-1e400', '1e400', '1e-400', '0.0e-400',
              '4.9e-324', '5e-324', '2.4703282292062327e-324', '2.4703282292062328e-324', '2.4703282292062329e-324', '2.2250738585072014e-308',
              '2.2250738585072011e-308', '1.7976931348623157e308', '1.7976931348623158e308', '1.7976931348623159e308', '179769313486231580793728971405303415079934132710037826936173778980444968292764750946649017977587207096330286416692887910946555547851940402630657488671505820681908902000708383676273854845817711531764475730270069855571366959622842914819860834936475292719074168444365510704342711559699508093042880177904174497791.9999999999999999999999',
              '9007199254740993', '9007199254740992.5', '9007199254740993.000000000000000000001', '9007199254740992.999999999999999999999',
              '0.1', '0.30000000000000004', '1.0000000000000002', '1.00000000000000011102230246251565404236316680908203125',
              '1.00000000000000011102230246251565404236316680908203126', '1.00000000000000011102230246251565404236316680908203124',
              '123456789012345678901234567890.0', '0.000000000000000000000000000001', '00001.5', '1.50000', '\x1c1', '1\x1f', '\x0b1.5\x0c', ' \t\n\r1\r\n']
    for _ in range(150 if ctx.tier == 'quick' else 1500):
        k = r.random()
        if k < 0.35:      # random well-formed decimal with exponent
            fstrs.append('%s%d.%se%d' % (r.choice(SIGNS), r.getrandbits(r.choice([3, 20, 53, 64, 90])),
                                          ''.join(r.choice('0123456789') for _ in range(r.choice([0, 1, 5, 17, 30]))), r.randrange(-340, 320)))
        elif k < 0.6:     # exactly half way between two doubles, and a hair beside it
            m, e = r.randrange(2 ** 52, 2 ** 53), r.randrange(-60, 60)
            half = Fraction(2 * m + 1) * Fraction(2) ** (e - 1)
            if half.denominator != 1:
                k2 = half.denominator.bit_length() - 1
                digits = str(half.numerator * 5 ** k2)
                txt = (digits[:-k2] or '0') + '.' + digits[-k2:].rjust(k2, '0')
            else:
                txt = str(half.numerator) + '.0'
            fstrs.append(txt + r.choice(['', '', '0000000000000000000000001']))
            fstrs.append(r.choice(SIGNS) + txt)
        else:             # noise over the alphabet of numerals
            fstrs.append(''.join(r.choice('0123456789_+-. eE') for _ in range(r.choice([1, 2, 3, 5, 8]))))
    fstrs = list(dict.fromkeys(x for x in fstrs if x.isascii() and len(x) < 400))
    fints = [m * sg for ms in MAG_CLASSES.values() for m in ms for sg in (1, -1)] + [
        2 ** 1024 - 2 ** 970, 2 ** 1024 - 2 ** 970 - 1, 2 ** 1024, -(2 ** 1024), 2 ** 1023, 10 ** 308, 10 ** 309, 2 ** 54 + 2, 2 ** 54 + 3, 2 ** 54 + 6]
    fints += [r.getrandbits(r.choice([10, 53, 54, 55, 64, 100, 400, 1023, 1024, 1025])) * r.choice([1, -1]) for _ in range(40 if ctx.tier == 'quick' else 400)]
    fints = list(dict.fromkeys(fints))

    def pyf(f, *a):
        try:
            return 'O' + enc_float(f(*a))
        except OverflowError:
            return 'EO'
        except ValueError:
            return 'EV'

    exprs += ['show_resF (py_float_of_str %s)' % coq_str(x) for x in fstrs]
    want += [pyf(float, x) for x in fstrs]
    exprs += ['show_resF (fl_of_Z (%d)%%Z)' % z for z in fints]
    want += [pyf(float, z) for z in fints]
    n_std = len(exprs)
    impl = ctx.impl('c04', {'cases': [], 'units': {'as_list': split_strs, 'as_dict': split_strs}})
    prelude, _, _, _ = build_prelude(ctx, split_strs, 'UTC')
    exprs += ['run_list (JStr %s)' % coq_str(s) for s in split_strs]
    exprs += ['run_dict (JStr %s)' % coq_str(s) for s in split_strs]
    uw = impl['units']['as_list'] + impl['units']['as_dict']
    try:
        got = ctx.coq(exprs, ['PyStr', 'CoerceModel'], prelude=prelude, tag='units')
    except Exception as e:
        ctx.broken_tie('model evaluation failed (units): %s' % str(e)[-600:])
        return
    labels = (['int(%r)' % s for s in strs] + ['round(%r)' % f for f in floats] + ['%r.is_integer()' % f for f in floats] +
              ['str(%d)' % z for z in ints] + ['canon(%r)' % f for f in floats] +
              ['float(%r)' % x for x in fstrs] + ['float(%d)' % z for z in fints])
    for lab, g, w in zip(labels, got[:n_std], want):
        ctx.count(1, key='u:' + lab, nontrivial=True)
        ctx.traces_validated += 1
        if g != w:
            ctx.disagreements_checked += 1
            ctx.broken_tie('standard-library fragment of the model disagrees with Python: %s' % lab, {'model': g, 'python': w})
    for j, (s, g, o) in enumerate(zip(split_strs + split_strs, got[n_std:], uw)):
        fn = 'as_list' if j < len(split_strs) else 'as_dict'
        ctx.count(1, key='u:%s:%s' % (fn, s), nontrivial=(',' in s or '=' in s))
        ctx.traces_validated += 1
        w = 'O' + o['ok'] if 'ok' in o else 'E'
        if (g[:1] == 'O') != (w[:1] == 'O') or (g[:1] == 'O' and g != w):
            ctx.disagreements_checked += 1
            ctx.broken_tie('type_conv.%s(%r): model %s, implementation %s' % (fn, s, g, w))
        # direct predicate (C04_env_split): shorthand strings split on the separator and are stripped
        st = s.lstrip()
        if fn == 'as_list' and st[:1] != '[' and 'ok' in o:
            if o['ok'] != enc([p.strip() for p in s.split(',')]):
                ctx.violation('as_list(%r) is not [e.strip() for e in s.split(",")]: %s' % (s, o['ok']), {'kind': 'as_list', 'string': s})
    ctx.hist('units', 'int_strings=%d floats=%d split_strings=%d float_strings=%d float_of_ints=%d' %
             (len(strs), len(floats), len(split_strs), len(fstrs), len(fints)))


# ----------------------------------------------------------------------------------------------
def replay_known(ctx):
    wit = [
        ('F80-timedelta-subclass-ignored', {'tag': 'top', 'ty': ['list', 'sub:timedelta'], 'val': [90, '1.5'], 'engines': ['v0']}, 'v0', 'UTC'),
        ('F36-env-fixed-tuple-string', {'tag': 'env.tup', 'ty': ['tup', ['int', 'bool']], 'val': '1,yes', 'engines': ['env']}, 'env', 'UTC'),
    ]
    for fid, case, eng, tz in wit:
        if ctx.finding(fid) is None:
            continue
        o = ctx.impl('c04', {'cases': [case]}, extra_env={'TZ': tz})['cases'][0][eng]
        bad, _ = check_direct(case, eng, o)
        ctx.count(1, key='known:' + fid, nontrivial=True)
        ctx.known_finding(fid, still_fails=bool(bad), what='%s [%s]' % (KNOWN[fid], bad) if bad else None)


def has_number_leaf(v):
    if isinstance(v, list):
        return any(has_number_leaf(x) for x in v)
    if isinstance(v, dict):
        return any(has_number_leaf(x) for x in v.values())
    return is_num(v)


CHUNK = 2500          # cases per oracle table / model batch (lookups in the tables are linear)
MAX_REPORTED = 20     # concrete violations written as replay files per run


def run(ctx):
    replay_known(ctx)
    cases = gen_cases(ctx)
    first_impl = None
    for k in range(0, len(cases), CHUNK):
        chunk = cases[k:k + CHUNK]
        impl, model, index = run_batch(ctx, chunk, 'UTC', 'utc%d' % (k // CHUNK))
        evaluate(ctx, chunk, impl, model, index, 'UTC')
        if first_impl is None:
            first_impl = impl
    # numeric timestamps again under a non-UTC zone: aware results must not depend on the machine zone
    ts_cases = [c for c in cases if 'datetime' in json.dumps(c['ty']) and '"date"' not in json.dumps(c['ty'])]
    # numeric timestamps first (v1 included: regression guard for the repaired F35), then ISO strings
    ts_cases.sort(key=lambda c: not has_number_leaf(c['val']))
    ts_cases = ts_cases[:150 if ctx.tier == 'quick' else 1200]
    ctx.hist('non_utc_zone_cases', 'numeric=%d other=%d' % (sum(has_number_leaf(c['val']) for c in ts_cases),
                                                           sum(not has_number_leaf(c['val']) for c in ts_cases)))
    impl2, model2, index2 = run_batch(ctx, ts_cases, 'America/New_York', 'nyc')
    evaluate(ctx, ts_cases, impl2, model2, index2, 'America/New_York')
    unit_checks(ctx, cases)
    for i in (0, 1, min(len(cases), CHUNK) // 2):
        ctx.sample({'case': cases[i], 'impl': first_impl['cases'][i], 'ref_v0': repr(ref_coerce(cases[i]['ty'], cases[i]['val'], 'v0'))[:200]})


def replay(ctx, obj):
    if obj.get('kind') == 'case':
        c, eng, tz = obj['case'], obj['engine'], obj.get('tz', 'UTC')
        c = dict(c, engines=[eng])
        o = ctx.impl('c04', {'cases': [c]}, extra_env={'TZ': tz})['cases'][0][eng]
        bad, dom = check_direct(c, eng, o)
        print('engine=%s type=%s value=%s TZ=%s' % (eng, json.dumps(c['ty']), json.dumps(c['val']), tz))
        print('implementation outcome: %s' % json.dumps(o)[:400])
        print('documented (%s): %s' % (dom, bad or 'as documented'))
        return bad is None
    if obj.get('kind') == 'as_list':
        o = ctx.impl('c04', {'cases': [], 'units': {'as_list': [obj['string']]}})['units']['as_list'][0]
        want = enc([p.strip() for p in obj['string'].split(',')])
        print('as_list(%r) -> %s, expected %s' % (obj['string'], o, want))
        return o.get('ok') == want
    print('replay object names a broken tie, not an input: %s' % json.dumps(obj)[:1000])
    return False
