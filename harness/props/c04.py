"""C04 — loading applies the documented coercions, and only those (default engine, v1, EnvWizard).

Theorems: coq/props/C04.v (model coq/model/CoerceModel.v, reference coq/model/CoerceRef.v).
Correspondence (tie C): every generated (type, value, engine) is loaded by the implementation
(fresh interpreter, TZ pinned) and by the Coq model (standard-library calls answered from oracle
tables computed by the real functions); outcomes are compared.  Direct predicate: on the
DOCUMENTED coercible domain the implementation's outcome must equal `ref_coerce` below, an
independent Python transcription of docs/overview.rst "Special Cases", docs/env_magic.rst and
the README v1 notes.  Outside the documented domain only model == implementation is required
(a difference there is a broken tie, not a violation).
"""
import json, math, re, datetime, decimal, base64, enum
from fractions import Fraction
from lib.coqrun import coq_str, coq_list

META = {
    'id': 'C04',
    'title': 'Loading applies the documented coercions, and only those',
    'level': 'proof',
    'technique': 'Coq proof (case analysis on values, induction on container contexts, arithmetic of half-even rounding) about a '
                 'hand-written Gallina model + differential correspondence with the implementation and a docs-derived reference oracle',
    'design_ref': 'DESIGN.md section 4 C04',
    'theorems': ['C04_truthy_is_documented', 'C04_bool', 'C04_bool_v1', 'C04_round_half_even', 'C04_round_unique',
                 'C04_int_of_str_shape', 'C04_scalar_ref', 'C04_int_v0', 'C04_int_v1', 'C04_str',
                 'C04_datetime_z_suffix', 'C04_datetime_numeric_utc', 'C04_datetime_numeric_v1',
                 'C04_datetime_env_numeric_string', 'C04_timedelta_dispatch',
                 'C04_enum', 'C04_decimal', 'C04_everywhere', 'C04_everywhere_ref',
                 'C04_env_split', 'C04_env_split_dict', 'C04_env_tuple_refuted'],
    'tables': ['Truthy'],
    'level_text': ('Theorems proved in Coq for ALL JSON-ish inputs (unbounded ints, exact dyadic floats, arbitrary ASCII strings, '
                   'nested lists/dicts), all three engines and all container contexts, about an executable model of type_conv.py '
                   'and the scalar/container load hooks; standard-library functions the library only calls are universally '
                   'quantified oracle parameters.  The model is re-validated against the implementation on every run, and the '
                   'documented behaviour is also tested directly on the implementation against a reference written from the docs.'),
    'level_note': ('Trusted: Coq kernel + vm_compute; the hand-written model (ASCII strings; -0.0 identified with 0.0); the '
                   'correspondence harness; the oracle tables (real float()/fromisoformat/fromtimestamp/pytimeparse/Decimal/'
                   'b64decode/json.loads answers).  Python >= 3.11 assumed for v1 ISO parsing (hypothesis iso_z_native).'),
    'rule': ('per scalar type a fixed list of boundary spellings (sign, exponent, whitespace, underscores, case, Z vs offset, '
             'bool-vs-int, huge ints, negative timestamps, 1.0/1.5/1e3, empty string, None) plus random ints/dyadic floats/'
             'numeric strings/case-mangled truthy words; each at top level and in sampled container contexts (list, dict value, '
             'int-keyed dict, tuple[t,...], fixed tuple, Optional, two-level nestings), for v0, v1 and Env (Env strings through '
             'os.environ incl. comma/equals shorthand and JSON forms).  Non-trivial = value is not already of the annotated type; '
             'distinct = distinct (type, value, engine).'),
    'trusted_base': ['model coq/model/CoerceModel.v: code-shaped transcription of type_conv.py and the load hooks (validated by correspondence)',
                     'oracle tables harness/impl/c04_oracle.py: answers of the real stdlib / pytimeparse functions for the generated cases'],
    'assumptions': ['strings are ASCII in the model; the harness feeds ASCII only',
                    'Python >= 3.11 (v1 passes ISO strings to fromisoformat without the Z rewrite)',
                    'TZ of the implementation run is pinned (UTC, and America/New_York for the timestamp cases)'],
}

# ----------------------------------------------------------------------------------------------
# type descriptors and values -> Coq
SCALARS = ['str', 'int', 'float', 'bool', 'bytes', 'datetime', 'date', 'time', 'timedelta', 'decimal',
           'enum:Color', 'enum:Num']
COQ_SCALAR = {'str': 'SStr', 'int': 'SInt', 'float': 'SFloat', 'bool': 'SBool', 'bytes': 'SBytes',
              'datetime': 'SDateTime', 'date': 'SDate', 'time': 'STime', 'timedelta': 'STimedelta',
              'decimal': 'SDecimal', 'enum:Color': '(SEnum color_members)', 'enum:Num': '(SEnum num_members)'}
ENUMS = {'enum:Color': [('red', 'RED'), ('Blue', 'BLUE'), ('', 'EMPTY')],
         'enum:Num': [(0, 'ZERO'), (1, 'ONE'), (2, 'TWO')]}
ENGINES = ['v0', 'v1', 'env']
COQ_ENGINE = {'v0': 'V0', 'v1': 'V1', 'env': 'Env'}


def coq_ty(d):
    if isinstance(d, str):
        return '(TS %s)' % COQ_SCALAR[d]
    k = d[0]
    if k == 'opt':
        return '(TOpt %s)' % coq_ty(d[1])
    if k == 'list':
        return '(TList %s)' % coq_ty(d[1])
    if k == 'tupv':
        return '(TTupV %s)' % coq_ty(d[1])
    if k == 'tup':
        return '(TTup %s)' % coq_list([coq_ty(x) for x in d[1]])
    if k == 'dict':
        return '(TDict %s %s)' % ({'str': 'KStr', 'int': 'KInt'}[d[1]], coq_ty(d[2]))
    raise ValueError(d)


def fl_parts(f):
    n, d = f.as_integer_ratio()
    e = -(d.bit_length() - 1)
    if n == 0:
        return 0, 0
    while n % 2 == 0:
        n //= 2
        e += 1
    return n, e


def coq_fl(f):
    if f != f:
        return 'FNan'
    if math.isinf(f):
        return '(FInf %s)' % ('true' if f < 0 else 'false')
    m, e = fl_parts(f)
    return '(FDy (%d)%%Z (%d)%%Z)' % (m, e)


def coq_jv(v):
    if v is None:
        return 'JNone'
    if isinstance(v, bool):
        return '(JBool %s)' % ('true' if v else 'false')
    if isinstance(v, int):
        return '(JInt (%d)%%Z)' % v
    if isinstance(v, float):
        return '(JFloat %s)' % coq_fl(v)
    if isinstance(v, str):
        return '(JStr %s)' % coq_str(v)
    if isinstance(v, list):
        return '(JList %s)' % coq_list([coq_jv(x) for x in v])
    if isinstance(v, dict):
        return '(JDict %s)' % coq_list(['(%s, %s)' % (coq_str(k), coq_jv(x)) for k, x in v.items()])
    raise TypeError(type(v))


def coq_num(x):
    return '(NInt (%d)%%Z)' % x if isinstance(x, int) else '(NFloat %s)' % coq_fl(x)


# oracle runner encodings -> Coq
def coq_fl_enc(t):
    if t[0] == 'nan':
        return 'FNan'
    if t[0] == 'inf':
        return '(FInf %s)' % ('true' if t[1] else 'false')
    return '(FDy (%s)%%Z (%s)%%Z)' % (t[1], t[2])


def coq_jenc(t):
    k = t[0]
    if k == 'none':
        return 'JNone'
    if k == 'bool':
        return '(JBool %s)' % ('true' if t[1] else 'false')
    if k == 'int':
        return '(JInt (%s)%%Z)' % t[1]
    if k == 'float':
        return '(JFloat %s)' % coq_fl_enc(t[1])
    if k == 'str':
        return '(JStr %s)' % coq_str(t[1])
    if k == 'list':
        return '(JList %s)' % coq_list([coq_jenc(x) for x in t[1]])
    if k == 'dict':
        return '(JDict %s)' % coq_list(['(%s, %s)' % (coq_str(a), coq_jenc(b)) for a, b in t[1]])
    raise ValueError(t)


def coq_res(r, okf):
    return '(Ok %s)' % okf(r[1]) if r[0] == 'ok' else '(Err %s)' % {'ET': 'EType', 'EV': 'EValue', 'EO': 'EOverflow', 'EX': 'EOther'}[r[1]]


def coq_numenc(t):
    if t is None:
        return 'None'
    return '(Some (NInt (%s)%%Z))' % t[1] if t[0] == 'int' else '(Some (NFloat %s))' % coq_fl_enc(t[1])


# ----------------------------------------------------------------------------------------------
# canonical encoding of Python values (same alphabet as CoerceModel.show_res)
def hx(s):
    return (s.encode('utf-8') if isinstance(s, str) else bytes(s)).hex()


def enc_float(f):
    if f != f:
        return 'nan'
    if math.isinf(f):
        return 'inf' if f > 0 else '-inf'
    return '%dp%d' % fl_parts(f)


def enc(v):
    t = type(v)
    if v is None:
        return 'N'
    if t is bool:
        return 'B1' if v else 'B0'
    if t is int:
        return 'I%d;' % v
    if t is float:
        return 'F%s;' % enc_float(v)
    if t is str:
        return 'S%s;' % hx(v)
    if t is bytes:
        return 'Y%s;' % hx(v)
    if t is list:
        return 'L[%s]' % ''.join(enc(x) for x in v)
    if t is tuple:
        return 'T[%s]' % ''.join(enc(x) for x in v)
    if t is dict:
        return 'D[%s]' % ''.join(enc(k) + enc(x) for k, x in v.items())
    if t is datetime.datetime:
        return 'Pdt%s;' % hx(v.isoformat())
    if t is datetime.date:
        return 'Pd%s;' % hx(v.isoformat())
    if t is datetime.time:
        return 'Pt%s;' % hx(v.isoformat())
    if t is datetime.timedelta:
        return 'Ptd%s;' % hx('%d,%d,%d' % (v.days, v.seconds, v.microseconds))
    if t is decimal.Decimal:
        return 'Pdec%s;' % hx(str(v))
    if t is EnumName:
        return 'M%s;' % hx(v.name)
    raise TypeError(t)


class EnumName:
    def __init__(self, name):
        self.name = name


# ----------------------------------------------------------------------------------------------
# the reference: an independent transcription of the documentation
UNDOC = ('undoc',)
REJECT = ('reject',)
TRUTHY_DOC = ('TRUE', 'T', 'YES', 'Y', 'ON', '1')           # docs/overview.rst, "bool"
INT_STR = re.compile(r'^[ \t\n\r\f\v]*[+-]?[0-9]+(_[0-9]+)*[ \t\n\r\f\v]*$')
POINT_STR = re.compile(r'^[ \t\n\r\f\v]*[+-]?([0-9]+\.[0-9]*|\.[0-9]+)[ \t\n\r\f\v]*$')
NUMERIC_FORM = re.compile(r'^([0-9]+\.?[0-9]*|\.[0-9]+)$')    # "a numeric form like '1.23'"
B64_STRICT = re.compile(r'^(?:[A-Za-z0-9+/]{4})*(?:[A-Za-z0-9+/]{2}==|[A-Za-z0-9+/]{3}=)?$')
UTC = datetime.timezone.utc


def round_half_even(x):
    """nearest integer of an exact rational, ties to the even one (independent of round())."""
    fr = Fraction(x)
    lo = fr.numerator // fr.denominator
    rest = fr - lo
    if rest < Fraction(1, 2):
        return lo
    if rest > Fraction(1, 2):
        return lo + 1
    return lo if lo % 2 == 0 else lo + 1


def is_num(v):
    return isinstance(v, (int, float)) and not isinstance(v, bool)


def ok(v):
    return ('ok', v)


def ref_scalar(t, v, eng):
    """('ok', value) | REJECT | UNDOC for scalar annotation t and JSON value v."""
    if t == 'str':
        if v is None:
            return ok('')
        if isinstance(v, str):
            return ok(v)
        return ok(str(v))                       # "converted to their string representation"
    if t == 'bool':
        if isinstance(v, bool):
            return ok(v)
        if isinstance(v, str):
            return ok(v.upper() in TRUTHY_DOC) if v.isascii() else UNDOC
        if isinstance(v, int):
            return ok(str(v) in TRUTHY_DOC)
        if isinstance(v, float):
            return ok(v == 1)                   # property text: "or == 1"
        return UNDOC
    if t == 'int':
        if isinstance(v, bool):
            return REJECT
        if isinstance(v, int):
            return ok(v)
        if isinstance(v, float):
            if not math.isfinite(v):
                return UNDOC
            if eng == 'v1':
                return ok(int(v)) if v == int(v) else REJECT
            return ok(round_half_even(v))
        if v is None:
            return REJECT if eng == 'v1' else ok(0)
        if isinstance(v, str):
            if v == '':
                return UNDOC if eng == 'v1' else ok(0)
            if INT_STR.match(v):
                digits = ''.join(c for c in v if c.isdigit())
                n = 0
                for c in digits:
                    n = n * 10 + (ord(c) - 48)
                return ok(-n if '-' in v else n)
            if POINT_STR.match(v):
                f = float(v)
                if eng == 'v1':
                    return ok(int(f)) if f == int(f) else REJECT
                return ok(round_half_even(f))
            return UNDOC
        return UNDOC
    if t == 'float':
        if is_num(v) and (isinstance(v, float) or abs(v) <= 2 ** 53):
            return ok(float(v))
        if isinstance(v, str) and (INT_STR.match(v) or POINT_STR.match(v)) and '_' not in v:
            return ok(float(v))
        return UNDOC
    if t in ('datetime', 'time', 'date'):
        cls = {'datetime': datetime.datetime, 'time': datetime.time, 'date': datetime.date}[t]
        if isinstance(v, str):
            if eng == 'env' and t == 'datetime' and NUMERIC_FORM.match(v):
                # docs/env_magic.rst: SOME_DT_VAL='1651077045'
                try:
                    return ok(datetime.datetime.fromtimestamp(float(v), tz=UTC))
                except (OverflowError, OSError, ValueError):
                    return UNDOC
            s = v
            if eng == 'env' and NUMERIC_FORM.match(v):
                return UNDOC                    # all-digit ISO basic dates collide with the Env timestamp rule
            if t != 'date' and s.endswith('Z'):
                s = s[:-1] + '+00:00'           # "a suffix of Z ... is first replaced with +00:00"
                if 'Z' in s:
                    return UNDOC
                try:                            # only where the builtin itself reads both spellings alike
                    if cls.fromisoformat(v) != cls.fromisoformat(s):
                        return UNDOC
                except ValueError:
                    return UNDOC
            elif 'Z' in s or 'z' in s:
                return UNDOC
            try:
                return ok(cls.fromisoformat(s))
            except ValueError:
                return UNDOC
        if is_num(v) and t != 'time':
            try:
                dt = datetime.datetime.fromtimestamp(v, tz=UTC)      # the implementation run is pinned to TZ=UTC for dates
                return ok(dt if t == 'datetime' else dt.date())
            except (OverflowError, OSError, ValueError):
                return UNDOC
        return UNDOC
    if t == 'timedelta':
        try:
            if isinstance(v, str):
                if NUMERIC_FORM.match(v):
                    return ok(datetime.timedelta(seconds=float(v)))
                import pytimeparse
                secs = pytimeparse.parse(v)
                return ok(datetime.timedelta(seconds=secs)) if secs is not None else UNDOC
            if is_num(v):
                return ok(datetime.timedelta(seconds=v))
        except (OverflowError, ValueError):
            return UNDOC
        return UNDOC
    if t.startswith('enum:'):
        for val, name in ENUMS[t]:
            if type(val) is type(v) and val == v:
                return ok(EnumName(name))
        return UNDOC
    if t == 'decimal':
        if isinstance(v, str) or is_num(v):
            try:
                return ok(decimal.Decimal(str(v)))
            except decimal.InvalidOperation:
                return UNDOC
        return UNDOC
    if t == 'bytes':
        if eng == 'v1' and isinstance(v, str) and B64_STRICT.match(v):
            return ok(base64.b64decode(v))
        if eng == 'env' and isinstance(v, str):
            return ok(v.encode('utf-8'))
        return UNDOC
    raise ValueError(t)


def env_shorthand_list(s):
    return [p.strip() for p in s.split(',')]


def ref_coerce(ty, v, eng):
    """Element-wise documented coercion; UNDOC as soon as any part is outside the documented domain."""
    if isinstance(ty, str):
        return ref_scalar(ty, v, eng)
    k = ty[0]
    if k == 'opt':
        return ok(None) if v is None else ref_coerce(ty[1], v, eng)
    if eng == 'env' and isinstance(v, str) and k in ('list', 'tupv', 'tup', 'dict'):
        st = v.lstrip()
        opener = '{' if k == 'dict' else '['
        if st[:1] == opener:
            try:
                v = json.loads(v)
            except ValueError:
                return UNDOC
        elif st[:1] in ('[', '{') or v.strip() == '':
            return UNDOC
        elif k == 'dict':
            d = {}
            for pair in v.split(','):
                if '=' not in pair:
                    return UNDOC
                a, b = pair.split('=', 1)
                if a.strip() in d or not a.strip() or not b.strip():
                    return UNDOC
                d[a.strip()] = b.strip()
            v = d
        else:
            v = env_shorthand_list(v)
            if not all(v):
                return UNDOC                    # empty elements: not a documented spelling
    if k in ('list', 'tupv', 'tup'):
        if not isinstance(v, list):
            return UNDOC
        if k == 'tup':
            if len(v) != len(ty[1]):
                return UNDOC
            parts = [ref_coerce(t1, x, eng) for t1, x in zip(ty[1], v)]
        else:
            parts = [ref_coerce(ty[1], x, eng) for x in v]
        if any(p is UNDOC for p in parts):
            return UNDOC
        if any(p is REJECT for p in parts):
            return REJECT
        vals = [p[1] for p in parts]
        return ok(vals if k == 'list' else tuple(vals))
    if k == 'dict':
        if not isinstance(v, dict):
            return UNDOC
        out = {}
        rej = False
        for key, x in v.items():
            pk = ref_scalar(ty[1], key, eng)
            px = ref_coerce(ty[2], x, eng)
            if pk is UNDOC or px is UNDOC:
                return UNDOC
            if pk is REJECT or px is REJECT:
                rej = True
                continue
            if pk[1] in out:
                return UNDOC                    # two keys coerce to the same key: not documented
            out[pk[1]] = px[1]
        return REJECT if rej else ok(out)
    raise ValueError(ty)


# ----------------------------------------------------------------------------------------------
# generators
TRUTHY_WORDS = ['true', 't', 'yes', 'y', 'on', '1']
INF, NAN = float('inf'), float('nan')

BOUNDARY = {
    'int': [0, 1, -1, 7, 2 ** 53 + 1, 10 ** 30, -10 ** 25,
            '12', ' 12 ', '+7', '-7', '1_000', '007', '-0', '12\n', '\t5', '1__0', '_1', '1_', '+', '-', '', ' ', 'abc',
            '0x10', '1e3', '1E3', '1.0', '1.5', '2.5', '-2.5', '3.5', '3.', '.5', '-.5', '+1.5', ' 1.5 ', '1.5e3', '1.0e0',
            '2.50', '0.5', '1.5000000000000001', '123.4', '3.0', '-5.00', '1.0.0', '1 .5', '.', 'inf', 'nan', 'Infinity',
            '1e400', '1.e400', '9' * 25, '1' * 30 + '.5', '1_0.5', '- 1', '+-1', '1,5', 'true',
            0.0, 1.0, 1.5, 2.5, 3.5, -0.5, -1.5, -2.5, 0.5, 123.4, 1e20, 2.0 ** 53, 1e300, 4.5, 0.49999999999999994,
            5e-324, 1e15 + 0.5, INF, -INF, NAN, True, False, None, [], [1], {}, {'a': 1}],
    'bool': ['true', 'TRUE', 'True', 'tRuE', 't', 'T', 'yes', 'YES', 'Yes', 'y', 'Y', 'on', 'ON', 'On', 'oN', '1',
             'tru', 'truee', ' true', 'true ', 'yes!', 'no', 'n', 'f', 'false', 'off', '0', '', '2', '11', 'on ', '1.0', '01',
             'ye', 'o', 'ono', 'tt', 0, 1, 2, -1, 10, 1.0, 0.0, 1.5, True, False, None, [1], [], {}],
    'str': [None, '', 'a', 'hello world', 'None', 0, -5, 10 ** 20, 1.5, 1e22, 0.1, 1e-7, INF, True, False, [1, 'a'], [], {'a': 1}],
    'float': ['1.5', '1e3', ' 2 ', 'nan', 'inf', '-inf', '', 'abc', '1_0.5', '.5', '5.', 1, 0, -3, 2 ** 53, True, False, 1.5, 0.1, None, []],
    'datetime': ['2020-01-02T03:04:05Z', '2020-01-02T03:04:05+00:00', '2020-01-02T03:04:05+05:30', '2020-01-02T03:04:05-08:00',
                 '2020-01-02T03:04:05', '2020-01-02T03:04:05.123456', '2020-01-02T03:04:05.123456Z', '2020-01-02 03:04:05',
                 '2020-01-02', '20200102T030405Z', '2020-01-02T03:04:05z', 'Z', '', 'garbage', '2020-13-01T00:00:00',
                 '2020-01-02T03:04:05Z ', '2020-01-02Z03:04:05', '1999-12-31T23:59:59Z', '2020-01-02T03:04Z',
                 0, 1, -1, 1600000000, 1651077045, 1.5, -1.5, -86400.5, 1e10, 253402300799, 253402300800, -62135596800,
                 1e18, -1e18, INF, NAN, '1600000000', '1.5', '0', '1651077045', '.5', '5.', '-1', '1e3', True, False, None, [0]],
    'date': ['2020-01-02', '2020-02-30', '20200102', '2020-01-02T00:00:00', '2020-01-02Z', '', 'x', '0001-01-01', '9999-12-31',
             0, 86399, 86400, -1, -86401, 1.5, 1600000000, 253402300800, '86400', '1.5', '0', True, None, [0]],
    'time': ['03:04:05Z', '03:04:05', '03:04', '03:04:05.123', '03:04:05.123456Z', '03:04:05+01:00', '3:04', 'Z', '', '0304',
             '030405Z', '24:00', '03:04:05z', 'T03:04:05', 5, 1.5, None, True],
    'timedelta': ['1.5', '10', '0', '.5', '5.', '.', '', '01:45', '3hr12m56s', '1:23:45', '2 days', '1w3d', '-5', '+5', '1e3',
                  'abc', ' 5', '5 ', '1.2.3', '1h 30m', '32m', '1.5s', '00', '0.000001', '1_0',
                  0, 5, 1.5, -1, -1.5, 86400, 1e10, 1e20, 0.1, 1e-7, INF, NAN, True, False, None, [1]],
    'enum:Color': ['red', 'Blue', '', 'RED', 'blue', 'Red', ' red', 1, None, True, 0],
    'enum:Num': [0, 1, 2, 3, -1, '1', 'ONE', 1.0, 2.0, 1.5, True, False, None],
    'decimal': ['1.50', '1.5', '1E+3', ' 1.5 ', '1_000', 'NaN', 'Infinity', '-0', 'abc', '', '.5', '5.',
                1, -7, 0, 10 ** 30, 1.1, 0.1, 1e22, 2.5, 1e-7, True, False, None],
    'bytes': ['aGVsbG8=', 'aGVsbG8', '', 'AA==', 'AAAA', 'hello', '!!!!', 'aGVs bG8=', 'a', None, 1, True],
}
# a value accepted by every engine, used as the neighbour inside containers
FILLER = {'int': 3, 'str': 'x', 'bool': True, 'float': 2.5, 'datetime': '2021-05-06T07:08:09', 'date': '2021-05-06',
          'time': '07:08:09', 'timedelta': 90, 'decimal': '2.50', 'enum:Color': 'red', 'enum:Num': 2, 'bytes': 'AAAA'}
ENV_FILLER = dict(FILLER, int='3', bool='yes', float='2.5', timedelta='90', **{'enum:Num': 2})


def rand_cases(r, tier):
    """random members of unbounded families"""
    n = 12 if tier == 'quick' else 90
    out = {t: [] for t in SCALARS}
    for _ in range(n):
        z = r.choice([1, -1]) * r.getrandbits(r.choice([3, 10, 40, 70, 130]))
        out['int'].append(z)
        out['str'].append(z)
        out['decimal'].append(z)
        m = r.getrandbits(r.choice([3, 12, 30, 53])) * r.choice([1, -1])
        f = math.ldexp(m, -r.choice([0, 1, 1, 2, 3, 10, 30]))
        if f == 0:
            f = 0.0
        out['int'].append(f)
        out['int'].append(float(r.randrange(-50, 50)) + 0.5)           # ties
        out['str'].append(f)
        out['timedelta'].append(f)
        out['datetime'].append(f)
        out['datetime'].append(r.randrange(-2 ** 33, 2 ** 33))
        out['date'].append(r.randrange(-2 ** 33, 2 ** 33))
        ip = str(r.randrange(0, 10 ** r.choice([1, 3, 9])))
        fp = ''.join(r.choice('0123456789') for _ in range(r.choice([0, 1, 1, 2, 6])))
        s = r.choice(['', '', '-', '+']) + ip + '.' + fp
        out['int'].append(s)
        out['int'].append(r.choice(['', ' ', '\t']) + r.choice(['', '-', '+']) + ip + r.choice(['', ' ', '\n']))
        out['int'].append(r.choice(['', '-']) + '_'.join(ip[i:i + 2] for i in range(0, len(ip), 2)))
        out['int'].append(ip + '.' + r.choice(['0', '00', '5', '50', '25', '75']))
        out['timedelta'].append(ip + '.' + fp)
        out['datetime'].append(ip + '.' + fp)
        out['decimal'].append(s)
        out['float'].append(s)
        w = r.choice(TRUTHY_WORDS)
        w = ''.join(c.upper() if r.random() < 0.5 else c for c in w)
        m2 = r.random()
        if m2 < 0.2:
            w = w + r.choice([' ', 's', '1', 'e'])
        elif m2 < 0.3:
            w = w[:-1]
        elif m2 < 0.35:
            w = r.choice([' ', 'x']) + w
        out['bool'].append(w)
        out['bool'].append(r.choice([0, 1, 2, -1, 1.0, 3]))
        hh, mm, ss = r.randrange(24), r.randrange(60), r.randrange(60)
        tz = r.choice(['Z', '', '+00:00', '+02:00', '-03:30'])
        out['datetime'].append('%04d-%02d-%02dT%02d:%02d:%02d%s' % (r.randrange(1, 9999), r.randrange(1, 13), r.randrange(1, 29), hh, mm, ss, tz))
        out['time'].append('%02d:%02d:%02d%s' % (hh, mm, ss, tz))
        out['date'].append('%04d-%02d-%02d' % (r.randrange(1, 9999), r.randrange(1, 13), r.randrange(1, 29)))
        out['timedelta'].append(r.choice(['%dh%dm' % (hh, mm), '%d:%02d' % (mm, ss), '%ds' % ss, '%d days, %d:%02d:%02d' % (mm, hh, mm, ss)]))
        raw = bytes(r.getrandbits(8) for _ in range(r.choice([0, 1, 2, 3, 5])))
        out['bytes'].append(base64.b64encode(raw).decode())
    return out


def ascii_only(v):
    if isinstance(v, str):
        return v.isascii()
    if isinstance(v, list):
        return all(ascii_only(x) for x in v)
    if isinstance(v, dict):
        return all(k.isascii() and ascii_only(x) for k, x in v.items())
    return True


def contexts(r, t, v, tier):
    """(type, value, engines, tag) placements of scalar (t, v): top level always, containers sampled."""
    fill = FILLER[t]
    allc = [
        ('list', ['list', t], [fill, v]),
        ('dict', ['dict', 'str', t], {'k': v, 'j': fill}),
        ('dictint', ['dict', 'int', t], {'1': fill, ' 02': v}),
        ('tupv', ['tupv', t], [v, fill, v]),
        ('tup', ['tup', [t, 'bool']], [v, 'yes']),
        ('tup2', ['tup', ['str', t, 'int']], [5, v, '8']),
        ('opt', ['opt', t], v),
        ('list.opt', ['list', ['opt', t]], [None, v]),
        ('dict.list', ['dict', 'str', ['list', t]], {'a': [v], 'b': []}),
        ('list.tup', ['list', ['tup', [t, 'int']]], [[v, 1], [fill, '2']]),
        ('opt.list', ['opt', ['list', t]], [v]),
        ('list.list', ['list', ['list', t]], [[v, fill], []]),
        ('tup.list', ['tup', [['list', t], 'str']], [[v], None]),
        ('tupv.dict', ['tupv', ['dict', 'str', t]], [{'q': v}]),
    ]
    out = [('top', t, v)]
    k = 2 if tier == 'quick' else 4
    out += r.sample(allc, k)
    return out


def env_string_forms(r, t, v):
    """EnvWizard: the same scalar spelled inside shorthand / JSON container strings (only str scalars can be embedded)."""
    if not isinstance(v, str) or any(c in v for c in ',=[]{}"\\') or v != v.strip() or v == '' or not v.isprintable():
        return []
    fill = ENV_FILLER[t]
    if not isinstance(fill, str):
        return []
    out = [
        ('env.list', ['list', t], '%s, %s' % (fill, v)),
        ('env.list.ws', ['list', t], '  %s ,%s  ' % (v, fill)),
        ('env.tupv', ['tupv', t], '%s,%s,%s' % (v, fill, v)),
        ('env.dict', ['dict', 'str', t], 'k=%s, j = %s' % (v, fill)),
        ('env.dictint', ['dict', 'int', t], '1=%s,02=%s' % (fill, v)),
        ('env.tup', ['tup', [t, 'bool']], '%s,yes' % v),
        ('env.json.list', ['list', t], json.dumps([v, fill])),
        ('env.json.dict', ['dict', 'str', t], ' ' + json.dumps({'k': v})),
        ('env.json.tup', ['tup', [t, 'bool']], json.dumps([v, 'on'])),
        ('env.opt.list', ['opt', ['list', t]], '%s,%s' % (v, v)),
        ('env.list.list', ['list', ['list', t]], '%s,%s' % (v, fill)),
        ('env.dict.list', ['dict', 'str', ['list', t]], 'a=%s' % v),
    ]
    return r.sample(out, 3)


def gen_cases(ctx):
    r = ctx.sub_rng('cases')
    rnd = rand_cases(r, ctx.tier)
    cases, seen = [], set()

    def add(tag, ty, v, engines):
        if not ascii_only(v):
            return
        key = json.dumps([ty, v, engines], sort_keys=True)
        if key in seen:
            return
        seen.add(key)
        cases.append({'tag': tag, 'ty': ty, 'val': v, 'engines': engines})

    for t in SCALARS:
        for v in BOUNDARY[t] + rnd[t]:
            for tag, ty, val in contexts(r, t, v, ctx.tier):
                add(tag, ty, val, ENGINES)
            for tag, ty, val in env_string_forms(r, t, v):
                add(tag, ty, val, ['env'])
    # container shape cases (mostly outside the documented domain: model == implementation only)
    for ty, vals in [
        (['tup', ['int', 'bool']], [['1'], ['1', 'yes', 'x'], [], 'ab', {'a': 1, 'b': 2}, None, 5, '[1, "yes"]', '12', '1,yes']),
        (['tup', ['int', ['opt', 'int']]], [['1'], ['1', None], ['1', '2', '3'], [], [None, None]]),
        (['tup', [['opt', 'int'], 'int']], [['1'], [None, '2']]),
        (['tup', ['str', 'str', 'str']], ['a,b', 'a,b,c', 'a,b,c,d,e,f', ['a', 'b', 'c']]),
        (['list', 'int'], ['12', {'1': 2}, 5, None, '', ' [1, 2]', '1,,2', ' 1 , 2 ', '[1, 2', '[]', '{"a": 1}', ',', ',,']),
        (['tupv', 'int'], ['12', {'1': 2}, 5, None, [], '', ',,', '1,2,3', '[1,2,3]', ',']),
        (['dict', 'str', 'int'], [[['a', 1]], 'a=1,b', 'a=1=2', '', ' {"a": "1"}', 'a = 1 ,a= 2', None, 5, '{"a": 1', '=', '=1', 'a=', '[1]']),
        (['dict', 'int', 'int'], [{'1': '2', '01': 3}, '1=2,01=3', {'a': 1}, {'1.5': 1}]),
        (['list', ['list', 'int']], [[['1'], ['2.0']], '1,2', '[[1],[2]]', ['1,2', '3']]),
        (['opt', ['list', 'int']], [None, ['1'], '1,2']),
        (['list', 'bool'], ['yes,no, ON', ['yes', 0, 1.0]]),
        (['list', 'str'], ['a, b ,c', '', [1, None], ' x ']),
        (['dict', 'str', 'str'], ['a=b', 'a = b = c', {'a': None}]),
    ]:
        for v in vals:
            add('shape', ty, v, ENGINES)
    return cases


def scalars_of(ty):
    if isinstance(ty, str):
        return {ty}
    if ty[0] == 'tup':
        return set().union(*[scalars_of(x) for x in ty[1]])
    if ty[0] == 'dict':
        return {ty[1]} | scalars_of(ty[2])
    return scalars_of(ty[1])


def nontrivial(ty, v):
    """some leaf of the value is not already of an annotated scalar type"""
    sc = scalars_of(ty)
    if not sc <= {'str', 'int', 'float', 'bool'}:
        return True
    want = tuple({'str': str, 'int': int, 'float': float, 'bool': bool}[x] for x in sc)
    leafs = []

    def walk(x):
        if isinstance(x, list):
            for y in x:
                walk(y)
        elif isinstance(x, dict):
            for y in x.values():
                walk(y)
        else:
            leafs.append(x)
    walk(v)
    return any(type(x) not in want for x in leafs) or not leafs


# ----------------------------------------------------------------------------------------------
# oracle atoms
def typed_strables(ty, v, out):
    """lists / dicts standing at a scalar position (str(o), Decimal(str(o)))"""
    if isinstance(ty, str):
        if isinstance(v, (list, dict)):
            out[coq_jv(v)] = v
        return
    k = ty[0]
    if k == 'opt':
        typed_strables(ty[1], v, out)
    elif k in ('list', 'tupv') and isinstance(v, (list, dict)):
        for x in v:
            typed_strables(ty[1], x, out)
    elif k == 'tup' and isinstance(v, list):
        for t1, x in zip(ty[1], v):
            typed_strables(t1, x, out)
    elif k == 'dict' and isinstance(v, dict):
        for x in v.values():
            typed_strables(ty[2], x, out)


def collect_atoms(values):
    """strings, numbers and str()-ables that the model may hand to an oracle."""
    strings, numbers, strables = {}, {}, {}

    def add_str(s, depth=0):
        if s in strings or not s.isascii():
            return
        strings[s] = True
        if 'Z' in s:
            add_str(s.replace('Z', '+00:00', 1), depth)
        if depth < 3:
            if True:
                for p in s.split(','):
                    add_str(p.strip(), depth + 1)
                    if '=' in p:
                        a, b = p.split('=', 1)
                        add_str(a.strip(), depth + 1)
                        add_str(b.strip(), depth + 1)
            if s.lstrip()[:1] in ('[', '{'):
                try:
                    walk(json.loads(s), depth + 1)
                except ValueError:
                    pass
            for c in (s if len(s) <= 12 else ''):
                add_str(c, 3)
        try:
            f = float(s)
            add_num(f)
        except ValueError:
            pass

    def add_num(x):
        if isinstance(x, bool):
            x = int(x)
        if isinstance(x, float) and x == 0:
            x = 0.0
        numbers[(type(x).__name__, repr(x))] = x

    def walk(v, depth=0):
        if isinstance(v, str):
            add_str(v, depth)
        elif v is None:
            add_str('None', 3)
        elif isinstance(v, bool):
            add_num(v)
            add_str(str(v), 3)
            add_str(str(int(v)), 3)
        elif isinstance(v, int):
            add_num(v)
            add_str(str(v), 3)
        elif isinstance(v, float):
            add_num(v)
            add_str(str(v), 3)
            strables[coq_jv(v)] = v
        elif isinstance(v, list):
            for x in v:
                walk(x, depth)
        elif isinstance(v, dict):
            for k, x in v.items():
                add_str(k, depth)
                walk(x, depth)

    for v in values:
        walk(v)
    return list(strings), list(numbers.values()), list(strables.values())


def build_prelude(ctx, values, tz, typed=()):
    import pytimeparse
    strings, numbers, strables = collect_atoms(values)
    extra = {}
    for ty, v in typed:
        typed_strables(ty, v, extra)
    values = list(values) + [str(x) for x in extra.values()]
    strings, numbers, strables = collect_atoms(values)
    strables = list({**{coq_jv(x): x for x in strables}, **extra}.values())
    # seconds returned by pytimeparse feed timedelta()
    for s in strings:
        x = pytimeparse.parse(s)
        if x is not None:
            numbers.append(x)
    numbers = list({(type(x).__name__, repr(x)): x for x in numbers}.values())
    orc = ctx.impl('c04_oracle', {'strings': strings, 'numbers': numbers, 'strables': strables}, extra_env={'TZ': tz})

    def table(name, keys, keyf, okf, dflt=None):
        ents = []
        for k, r in zip(keys, orc[name]):
            if r is None or (dflt is not None and r == ['err', dflt]):
                continue
            ents.append('(%s, %s)' % (keyf(k), coq_res(r, okf)))
        return coq_list(ents)

    hexs = lambda h: coq_str(bytes.fromhex(h))
    lines = [
        'Definition color_members : list (jv * pstr) := %s.' % coq_list(['(%s, %s)' % (coq_jv(v), coq_str(n)) for v, n in ENUMS['enum:Color']]),
        'Definition num_members : list (jv * pstr) := %s.' % coq_list(['(%s, %s)' % (coq_jv(v), coq_str(n)) for v, n in ENUMS['enum:Num']]),
        'Definition T_dom : list pstr := %s.' % coq_list([coq_str(x) for x in strings]),
        'Definition T_float : list (pstr * res fl) := %s.' % table('float', strings, coq_str, coq_fl_enc, 'EV'),
        'Definition T_str : list (jv * res pstr) := %s.' % table('str', strables, coq_jv, coq_str),
        'Definition T_dt_iso : list (pstr * res pstr) := %s.' % table('dt_iso', strings, coq_str, coq_str, 'EV'),
        'Definition T_date_iso : list (pstr * res pstr) := %s.' % table('date_iso', strings, coq_str, coq_str, 'EV'),
        'Definition T_time_iso : list (pstr * res pstr) := %s.' % table('time_iso', strings, coq_str, coq_str, 'EV'),
        'Definition T_dt_ts_utc : list (num * res pstr) := %s.' % table('dt_ts_utc', numbers, coq_num, coq_str),
        'Definition T_dt_ts_local : list (num * res pstr) := %s.' % table('dt_ts_local', numbers, coq_num, coq_str),
        'Definition T_date_ts : list (num * res pstr) := %s.' % table('date_ts', numbers, coq_num, coq_str),
        'Definition T_timeparse : list (pstr * res (option num)) := %s.' % table('timeparse', strings, coq_str, coq_numenc),
        'Definition T_timedelta : list (num * res pstr) := %s.' % table('timedelta', numbers, coq_num, coq_str),
        'Definition T_decimal : list (pstr * res pstr) := %s.' % table('decimal', strings, coq_str, coq_str, 'EX'),
        'Definition T_b64 : list (pstr * res pstr) := %s.' % table('b64', strings, coq_str, hexs, 'EV'),
        'Definition T_json : list (pstr * res jv) := %s.' % table('json', strings, coq_str, coq_jenc),
        'Definition ORC : oracles := tbl_oracles T_dom T_float T_str T_dt_iso T_date_iso T_time_iso T_dt_ts_utc T_dt_ts_local '
        'T_date_ts T_timeparse T_timedelta T_decimal T_b64 T_json.',
        'Definition run (e : engine) (t : ty) (j : jv) : pstr := show_res (load ORC e t j).',
        'Definition run_list (j : jv) : pstr := show_res (rmap pv_of_jv (as_list ORC j)).',
        'Definition run_dict (j : jv) : pstr := show_res (rmap pv_of_jv (as_dict ORC j)).',
    ]
    # oracle hypothesis of the v1 theorems: on Python >= 3.11 fromisoformat reads a trailing Z as +00:00
    iso = {}
    for name in ('dt_iso', 'time_iso'):
        iso[name] = dict(zip(strings, orc[name]))
    hyp_bad = []
    for s in strings:
        if s.endswith('Z') and 'Z' not in s[:-1]:
            s2 = s[:-1] + '+00:00'
            for name in ('dt_iso', 'time_iso'):
                if s2 in iso[name] and iso[name][s] != iso[name][s2]:
                    hyp_bad.append((name, s))
    return compile_prelude(ctx, '\n'.join(lines)), hyp_bad, orc, (len(strings), len(numbers), len(strables))


_orc_n = [0]


def compile_prelude(ctx, text):
    """The oracle tables are compiled once into a .vo; every shard only loads it."""
    import os, subprocess
    from lib import coqrun
    _orc_n[0] += 1
    d = os.path.join(ctx.workdir, 'orc%d' % _orc_n[0])
    os.makedirs(d, exist_ok=True)
    name = 'C04Orc%d' % _orc_n[0]
    with open(os.path.join(d, name + '.v'), 'w') as f:
        f.write('From DW Require Import PyStr CoerceModel.\n' + text + '\n')
    p = subprocess.run(['coqc'] + coqrun.QFLAGS + ['-Q', d, 'C04W', os.path.join(d, name + '.v')],
                       capture_output=True, text=True, timeout=600, cwd=d)
    if p.returncode != 0:
        raise coqrun.CoqError('oracle table does not compile: %s' % (p.stderr or p.stdout)[-1500:])
    return 'Add LoadPath "%s" as C04W.\nFrom C04W Require Import %s.' % (d, name)


# ----------------------------------------------------------------------------------------------
KNOWN = {
    'F36-env-fixed-tuple-string': 'EnvWizard: a fixed-arity tuple field cannot be loaded from a string: the element count is checked against len() of the raw string',
}


def has_env_tuple_string(ty, v):
    """a str (or a str produced by shorthand splitting) at a fixed-arity tuple position (EnvWizard)"""
    if isinstance(ty, str):
        return False
    k = ty[0]
    if k == 'opt':
        return v is not None and has_env_tuple_string(ty[1], v)
    if isinstance(v, str):
        if k == 'tup':
            return True
        if k == 'tupv' and v.lstrip()[:1] != '[' and len(v.split(',')) > len(v):
            return True                 # same root cause: one parser per character of the raw string
        st = v.lstrip()
        if st[:1] in ('[', '{'):
            try:
                v = json.loads(v)
            except ValueError:
                return False
        elif k == 'dict':
            v = {a.strip(): b.strip() for a, _, b in (p.partition('=') for p in v.split(','))}
        else:
            v = env_shorthand_list(v)
    if k in ('list', 'tupv'):
        return isinstance(v, list) and any(has_env_tuple_string(ty[1], x) for x in v)
    if k == 'tup':
        return isinstance(v, list) and any(has_env_tuple_string(t1, x) for t1, x in zip(ty[1], v))
    if k == 'dict':
        return isinstance(v, dict) and any(has_env_tuple_string(ty[2], x) for x in v.values())
    return False


def known_region(case, eng):
    if eng == 'env' and has_env_tuple_string(case['ty'], case['val']):
        return 'F36-env-fixed-tuple-string'
    return None


_TAGS = {'S': 'str', 'Y': 'bytes', 'Pdt': 'datetime', 'Pd': 'date', 'Pt': 'time', 'Ptd': 'timedelta(days,s,us)',
         'Pdec': 'Decimal', 'M': 'Enum.'}


def pretty(code):
    """readable form of an encoded outcome (hex payloads decoded)"""
    def sub(m):
        try:
            txt = bytes.fromhex(m.group(2)).decode('utf-8', 'replace')
        except ValueError:
            return m.group(0)
        return '%s(%r) ' % (_TAGS[m.group(1)], txt)
    if code.startswith('E'):
        return code
    out = re.sub(r'I(-?[0-9]+);', r'int(\1) ', code)
    out = re.sub(r'F([^;]*);', r'float(\1) ', out)
    out = out.replace('B1', 'True ').replace('B0', 'False ').replace('N', 'None ')
    return re.sub(r'(Pdec|Pdt|Ptd|Pd|Pt|S|Y|M)([0-9a-f]*);', sub, out).strip()


def check_direct(case, eng, o):
    """Direct predicate. None if it holds / is not applicable, else a description."""
    ref = ref_coerce(case['ty'], case['val'], eng)
    if ref is UNDOC:
        return None, 'undoc'
    if ref is REJECT:
        if 'ok' in o:
            return 'accepted %s, the documentation says it is rejected' % pretty(o['ok']), 'reject'
        return None, 'reject'
    want = enc(ref[1])
    if 'ok' not in o:
        return 'raised %s (%s), documented result %s' % (o.get('err'), (o.get('msg') or '')[:80].replace('\n', ' '), pretty(want)), 'ok'
    if o['ok'] != want:
        return 'loaded %s, documented result %s' % (pretty(o['ok']), pretty(want)), 'ok'
    return None, 'ok'


def model_vs_impl(m, o, eng):
    """None if the model outcome string m matches the implementation outcome o."""
    if 'ok' in o:
        return None if m == 'O' + o['ok'] else 'value'
    if m.startswith('O'):
        return 'value'
    if m == 'E?':
        return 'oracle-miss'
    k = o.get('kind', 'EX')
    if k.startswith('P'):
        k = k[1:] if eng == 'v1' else 'EX'
    if k in ('ET', 'EV', 'EO') and m in ('ET', 'EV', 'EO') and k != m:
        return 'error-class'
    return None


def run_batch(ctx, cases, tz, tag):
    impl = ctx.impl('c04', {'cases': cases}, extra_env={'TZ': tz})
    prelude, hyp_bad, orc, sizes = build_prelude(ctx, [c['val'] for c in cases], tz, [(c['ty'], c['val']) for c in cases])
    ctx.hist('oracle_table_sizes', '%s strings=%d numbers=%d strables=%d' % ((tag,) + sizes))
    ctx.hist('iso_z_premise', '%s: %d strings where fromisoformat reads a trailing Z unlike +00:00 (outside the v1 theorem)' % (tag, len(hyp_bad)))
    exprs, index = [], []
    for i, c in enumerate(cases):
        for eng in c['engines']:
            exprs.append('run %s %s %s' % (COQ_ENGINE[eng], coq_ty(c['ty']), coq_jv(c['val'])))
            index.append((i, eng))
    model = None
    try:
        model = ctx.coq(exprs, ['PyStr', 'CoerceModel'], prelude=prelude, tag='cases_' + tag)
    except Exception as e:
        ctx.broken_tie('model evaluation failed (%s): %s' % (tag, str(e)[-600:]))
    return impl, model, index


def evaluate(ctx, cases, impl, model, index, tz):
    n_tie = 0
    for pos, (i, eng) in enumerate(index):
        c = cases[i]
        o = impl['cases'][i][eng]
        key = json.dumps([c['ty'], c['val'], eng, tz], sort_keys=True)
        ctx.count(1, key=key, nontrivial=nontrivial(c['ty'], c['val']))
        ctx.hist('context', c['tag'])
        ctx.hist('engine', eng)
        region = known_region(c, eng)
        if o.get('phase') == 'setup':
            ctx.violation('loader generation failed for %s (%s): %s' % (json.dumps(c['ty']), eng, o.get('msg')),
                          {'kind': 'case', 'case': c, 'engine': eng, 'tz': tz})
            continue
        # direct predicate
        bad, dom = check_direct(c, eng, o)
        ctx.hist('documented_domain', '%s/%s' % (eng, dom))
        if bad:
            if region and ctx.is_open_region(region):
                ctx.hist('known_region', region)
            elif len(ctx.violations) >= MAX_REPORTED:
                ctx.hist('violations_not_written', eng)
            else:
                ctx.violation('%s %s <- %s: %s' % (eng, json.dumps(c['ty']), json.dumps(c['val'])[:120], bad),
                              {'kind': 'case', 'case': c, 'engine': eng, 'tz': tz})
        # correspondence
        if model is not None:
            ctx.traces_validated += 1
            d = model_vs_impl(model[pos], o, eng)
            if d and region and ctx.finding(region) is not None and bad is None:
                # the model is faithful to a listed defect; here the implementation behaves as documented
                # (defect repaired): FINDING-RESOLVED is printed by replay_known, not a broken tie
                ctx.hist('resolved_region', region)
            elif d:
                ctx.disagreements_checked += 1
                n_tie += 1
                if n_tie <= 6:
                    ctx.broken_tie('Coerce model and implementation disagree (%s): %s %s <- %s' % (d, eng, json.dumps(c['ty']), json.dumps(c['val'])[:100]),
                                   {'case': c, 'engine': eng, 'tz': tz, 'impl': o, 'model': model[pos]})
    return n_tie


# ----------------------------------------------------------------------------------------------
# unit level: the concrete standard-library fragments of the model against Python itself,
# and type_conv.as_list / as_dict called directly
def unit_checks(ctx, cases):
    r = ctx.sub_rng('units')
    strs = [v for v in BOUNDARY['int'] if isinstance(v, str)]
    for _ in range(60 if ctx.tier == 'quick' else 600):
        strs.append(''.join(r.choice('0123456789_+- \t.') for _ in range(r.choice([1, 2, 3, 5, 8]))))
    strs = list(dict.fromkeys(s for s in strs if s.isascii()))
    floats = [v for v in BOUNDARY['int'] if isinstance(v, float)]
    for _ in range(60 if ctx.tier == 'quick' else 600):
        floats.append(math.ldexp(r.getrandbits(r.choice([2, 8, 53])) * r.choice([1, -1]), -r.choice([0, 1, 2, 5, 20, 60])))
    floats = [f if f != 0 else 0.0 for f in floats]
    ints = [0, 1, -1, 9, 10, -10, 10 ** 18, -(10 ** 40)] + [r.getrandbits(80) - 2 ** 79 for _ in range(20)]
    split_strs = [c['val'] for c in cases if isinstance(c['val'], str) and c['engines'] == ['env']][:150]
    split_strs += ['', ',', ',,', 'a', ' a , b ', 'a,b,', '=', 'a=1', 'a=1,b=2', 'a = 1 , a=2', 'a', 'a=b=c', ' [1, "x"]', '[', '{"k": [1]}', ' {', 'x=[1]']
    split_strs = list(dict.fromkeys(split_strs))

    def py(f, *a):
        try:
            return 'O%d' % f(*a)
        except OverflowError:
            return 'EO'
        except ValueError:
            return 'EV'
        except TypeError:
            return 'ET'

    exprs = ['show_resZ (py_int_of_str %s)' % coq_str(s) for s in strs]
    want = [py(int, s) for s in strs]
    exprs += ['show_resZ (fl_round %s)' % coq_fl(f) for f in floats]
    want += [py(round, f) for f in floats]
    exprs += ['(if fl_is_integer %s then S "1" else S "0")' % coq_fl(f) for f in floats]
    want += ['1' if f.is_integer() else '0' for f in floats]
    exprs += ['str_of_Z (%d)%%Z' % z for z in ints]
    want += [str(z) for z in ints]
    exprs += ['show_fl %s' % coq_fl(f) for f in floats]
    want += [enc_float(f) for f in floats]
    n_std = len(exprs)
    impl = ctx.impl('c04', {'cases': [], 'units': {'as_list': split_strs, 'as_dict': split_strs}})
    prelude, _, _, _ = build_prelude(ctx, split_strs, 'UTC')
    exprs += ['run_list (JStr %s)' % coq_str(s) for s in split_strs]
    exprs += ['run_dict (JStr %s)' % coq_str(s) for s in split_strs]
    uw = impl['units']['as_list'] + impl['units']['as_dict']
    try:
        got = ctx.coq(exprs, ['PyStr', 'CoerceModel'], prelude=prelude, tag='units')
    except Exception as e:
        ctx.broken_tie('model evaluation failed (units): %s' % str(e)[-600:])
        return
    labels = (['int(%r)' % s for s in strs] + ['round(%r)' % f for f in floats] + ['%r.is_integer()' % f for f in floats] +
              ['str(%d)' % z for z in ints] + ['canon(%r)' % f for f in floats])
    for lab, g, w in zip(labels, got[:n_std], want):
        ctx.count(1, key='u:' + lab, nontrivial=True)
        ctx.traces_validated += 1
        if g != w:
            ctx.disagreements_checked += 1
            ctx.broken_tie('standard-library fragment of the model disagrees with Python: %s' % lab, {'model': g, 'python': w})
    for j, (s, g, o) in enumerate(zip(split_strs + split_strs, got[n_std:], uw)):
        fn = 'as_list' if j < len(split_strs) else 'as_dict'
        ctx.count(1, key='u:%s:%s' % (fn, s), nontrivial=(',' in s or '=' in s))
        ctx.traces_validated += 1
        w = 'O' + o['ok'] if 'ok' in o else 'E'
        if (g[:1] == 'O') != (w[:1] == 'O') or (g[:1] == 'O' and g != w):
            ctx.disagreements_checked += 1
            ctx.broken_tie('type_conv.%s(%r): model %s, implementation %s' % (fn, s, g, w))
        # direct predicate (C04_env_split): shorthand strings split on the separator and are stripped
        st = s.lstrip()
        if fn == 'as_list' and st[:1] != '[' and 'ok' in o:
            if o['ok'] != enc([p.strip() for p in s.split(',')]):
                ctx.violation('as_list(%r) is not [e.strip() for e in s.split(",")]: %s' % (s, o['ok']), {'kind': 'as_list', 'string': s})
    ctx.hist('units', 'int_strings=%d floats=%d split_strings=%d' % (len(strs), len(floats), len(split_strs)))


# ----------------------------------------------------------------------------------------------
def replay_known(ctx):
    wit = [
        ('F36-env-fixed-tuple-string', {'tag': 'env.tup', 'ty': ['tup', ['int', 'bool']], 'val': '1,yes', 'engines': ['env']}, 'env', 'UTC'),
    ]
    for fid, case, eng, tz in wit:
        if ctx.finding(fid) is None:
            continue
        o = ctx.impl('c04', {'cases': [case]}, extra_env={'TZ': tz})['cases'][0][eng]
        bad, _ = check_direct(case, eng, o)
        ctx.count(1, key='known:' + fid, nontrivial=True)
        ctx.known_finding(fid, still_fails=bool(bad), what='%s [%s]' % (KNOWN[fid], bad) if bad else None)


def has_number_leaf(v):
    if isinstance(v, list):
        return any(has_number_leaf(x) for x in v)
    if isinstance(v, dict):
        return any(has_number_leaf(x) for x in v.values())
    return is_num(v)


CHUNK = 2500          # cases per oracle table / model batch (lookups in the tables are linear)
MAX_REPORTED = 20     # concrete violations written as replay files per run


def run(ctx):
    replay_known(ctx)
    cases = gen_cases(ctx)
    first_impl = None
    for k in range(0, len(cases), CHUNK):
        chunk = cases[k:k + CHUNK]
        impl, model, index = run_batch(ctx, chunk, 'UTC', 'utc%d' % (k // CHUNK))
        evaluate(ctx, chunk, impl, model, index, 'UTC')
        if first_impl is None:
            first_impl = impl
    # numeric timestamps again under a non-UTC zone: aware results must not depend on the machine zone
    ts_cases = [c for c in cases if 'datetime' in json.dumps(c['ty']) and '"date"' not in json.dumps(c['ty'])]
    # numeric timestamps first (v1 included: regression guard for the repaired F35), then ISO strings
    ts_cases.sort(key=lambda c: not has_number_leaf(c['val']))
    ts_cases = ts_cases[:150 if ctx.tier == 'quick' else 1200]
    ctx.hist('non_utc_zone_cases', 'numeric=%d other=%d' % (sum(has_number_leaf(c['val']) for c in ts_cases),
                                                           sum(not has_number_leaf(c['val']) for c in ts_cases)))
    impl2, model2, index2 = run_batch(ctx, ts_cases, 'America/New_York', 'nyc')
    evaluate(ctx, ts_cases, impl2, model2, index2, 'America/New_York')
    unit_checks(ctx, cases)
    for i in (0, 1, min(len(cases), CHUNK) // 2):
        ctx.sample({'case': cases[i], 'impl': first_impl['cases'][i], 'ref_v0': repr(ref_coerce(cases[i]['ty'], cases[i]['val'], 'v0'))[:200]})


def replay(ctx, obj):
    if obj.get('kind') == 'case':
        c, eng, tz = obj['case'], obj['engine'], obj.get('tz', 'UTC')
        c = dict(c, engines=[eng])
        o = ctx.impl('c04', {'cases': [c]}, extra_env={'TZ': tz})['cases'][0][eng]
        bad, dom = check_direct(c, eng, o)
        print('engine=%s type=%s value=%s TZ=%s' % (eng, json.dumps(c['ty']), json.dumps(c['val']), tz))
        print('implementation outcome: %s' % json.dumps(o)[:400])
        print('documented (%s): %s' % (dom, bad or 'as documented'))
        return bad is None
    if obj.get('kind') == 'as_list':
        o = ctx.impl('c04', {'cases': [], 'units': {'as_list': [obj['string']]}})['units']['as_list'][0]
        want = enc([p.strip() for p in obj['string'].split(',')])
        print('as_list(%r) -> %s, expected %s' % (obj['string'], o, want))
        return o.get('ok') == want
    print('replay object names a broken tie, not an input: %s' % json.dumps(obj)[:1000])
    return False
