"""C10 — unknown keys are ignored, rejected or captured exactly as configured.

Theorems: coq/props/C10.v (model coq/model/FieldsUnknown.v).  Correspondence: generated
class trees (depth <= 2) x policy {ignore, raise, CatchAll with / without default} x engine
{default, v1} x tag key or not; documents = a complete document plus extra keys (random,
near-misses of field names, the tag key, non-identifier keys, the internal sentinel),
loaded as HISTORIES in one interpreter (each call repeated n in {1,2,3}, or different
documents interleaved); the model's `v0_run` threads the cache through the same history.
Direct predicates on the implementation for every load, from an independent Python
reference `ref_load` written from the property text.
"""
import json, string, keyword, copy
from lib.coqrun import coq_str, coq_list

META = {
    'id': 'C10',
    'title': 'Unknown keys are ignored, rejected or captured exactly as configured',
    'level': 'proof',
    'technique': 'Coq proof (cache invariant preserved by every load and lifted over arbitrary histories; counting argument for '
                 'the v1 fast path) on a hand-written Gallina model + differential correspondence with the implementation',
    'design_ref': 'DESIGN.md section 4 C10',
    'theorems': ['C10_spec_partial', 'C10_spec_repeat_partial', 'C10_cache_invariant', 'C10_raise', 'C10_mapped_unaffected',
                 'C10_catchall_exact', 'C10_catchall_rt', 'C10_v1_spec_partial', 'C10_v1_count', 'C10_v1_catchall_rt',
                 'C10_v1_refuted_shared_key', 'C10_refuted_sentinel_key', 'C10_refuted_alone_first'],
    'tables': [],
    'level_text': ('Theorems proved in Coq for ALL class configurations (policy x CatchAll x tag key), ALL documents and ALL load '
                   'histories (any sequence of documents through the shared json_to_field cache, hence every repetition count n >= 1) '
                   'about an executable model of the default-engine unknown-key branch with its cache as state, of the v1 '
                   'len(o) != i fast path, and of the CatchAll re-emission in the dumper; two regions are excluded and refuted with '
                   'witnesses that replay on the implementation (open findings F19, F41).  The model is re-validated against the '
                   'implementation on every run.'),
    'level_note': ('Trusted: Coq kernel + vm_compute; the hand-written model (one class level; a nested dataclass is the abstract '
                   'per-field conversion `conv`, composition over nesting is exercised by the harness at depth 2, not proved); key '
                   'resolution is StrConv.resolve_key_v0 (validated by C08). Python dict semantics are modelled, not proved.'),
    'rule': ('classes: 1-3 int fields with canonical snake_case names (+ optional nested dataclass, depth <= 2; v1: Alias / AliasPath '
             'fields), policy in {ignore, raise, CatchAll, CatchAll with default}, optional Meta.tag with tag_key in {__tag__, kind, Type}; '
             'documents: complete (defaulted fields sometimes omitted; default engine: documented casings of the field names) plus 0-3 '
             'extra keys per level drawn from random identifiers / one-edit near-misses of a field-name casing (kept only when they miss '
             'every field: decided independently when the separator-free lower-cased forms differ, by the Coq resolution model otherwise) / '
             'the tag key / non-identifier keys / the internal sentinel; histories of 1-3 loads (same document repeated, or two documents '
             'interleaved), in 40 % preceded by a dump of a hand-built instance; v1 fields with 1-3 alternative AliasPaths / 1-3 aliases; '
             'entry points fromdict / fromlist / JSONWizard.from_dict / from_json.  Non-trivial = some level has an extra key; distinct = distinct (class spec, history).'),
    'trusted_base': ['model coq/model/FieldsUnknown.v transcribes loaders.py:676-760, v1/loaders.py:1045-1260, dumpers.py:470-480 '
                     '(validated by correspondence)'],
    'assumptions': ['a class has either the raise policy or CatchAll fields, not both (the property lists them as alternatives)',
                    'default key transform (to_snake_case) for the default engine; v1_key_case unset for v1',
                    'document keys are str; ASCII upper-case letters only (non-ASCII keys are lower-case)'],
}

RESERVED = {'o', 'cls', 'field', 'fields', 'i', 'e', 'v1', 'tp', 'result', 'config', 'hooks', 'exclude', 'self', 'k', 'v',
            'kind', 'type', 'extras', 'rest', 'aliases', 'catch_all', 'init_kwargs', 'json_key'}
SENTINEL = '<-|CatchAll|->'
CASINGS = ['Camel', 'Pascal', 'Kebab', 'UpperKebab', 'UpperSnake', 'Screaming', 'Snake']


# --------------------------------------------------------------------------- names
def ref_casing(name, c):
    ws = name.split('_')
    cap = [w[0].upper() + w[1:] for w in ws]
    return {'Camel': ws[0] + ''.join(cap[1:]), 'Pascal': ''.join(cap), 'Kebab': '-'.join(ws),
            'UpperKebab': '-'.join(cap), 'UpperSnake': '_'.join(cap), 'Screaming': name.upper(),
            'Snake': name}[c]


def gen_word(r):
    return ''.join(r.choice(string.ascii_lowercase) for _ in range(r.choice([2, 2, 3, 4]))) + \
           ''.join(r.choice(string.digits) for _ in range(r.choice([0, 0, 0, 1])))


def gen_name(r, used):
    while True:
        n = '_'.join(gen_word(r) for _ in range(r.choice([1, 2, 2, 3])))
        if n not in used and n not in RESERVED and not keyword.iskeyword(n):
            used.add(n)
            return n


def gen_key(r, used):
    while True:
        n = ''.join(r.choice(string.ascii_lowercase) for _ in range(r.choice([1, 2, 3]))) + r.choice(['', '1', '_x'])
        if n not in used and n not in RESERVED and not keyword.iskeyword(n):
            used.add(n)
            return n


# --------------------------------------------------------------------------- classes
def gen_level(r, engine, depth, counter, raise_, root):
    counter[0] += 1
    used = set()
    spec = {'name': 'U%d' % counter[0], 'engine': engine, 'raise': raise_, 'tag': None, 'catch': None, 'fields': []}
    shared_top = engine == 'v1' and r.random() < 0.06          # F19 region, generated on purpose (rarely)
    top = gen_key(r, used) if shared_top else None
    for _ in range(r.randint(1, 3)):
        f = {'name': gen_name(r, used), 'kind': 'int', 'default': (-1 if r.random() < 0.3 else None), 'aliases': None, 'path': None}
        if engine == 'v1':
            x = r.random()
            if shared_top:
                f['path'] = [[top, gen_key(r, used)]]
                f['default'] = None       # the sub-path exists whenever the shared top-level key does (model assumption)
            elif x < 0.15:
                f['aliases'] = [gen_key(r, used) for _ in range(r.choice([1, 2, 2, 3]))]
            elif x < 0.27:
                # one or more ALTERNATIVE paths (AliasPath('a.b', 'x.y')) with different top-level keys
                f['path'] = [[gen_key(r, used), gen_key(r, used)] for _ in range(r.choice([1, 2, 2, 3]))]
        spec['fields'].append(f)
    if shared_top and len(spec['fields']) < 2:
        spec['fields'].append({'name': gen_name(r, used), 'kind': 'int', 'default': None, 'aliases': None,
                               'path': [[top, gen_key(r, used)]]})
    if depth > 0 and r.random() < 0.7:
        spec['fields'].append({'name': gen_name(r, used), 'kind': 'nested', 'default': None, 'aliases': None, 'path': None,
                               'cls': gen_level(r, engine, depth - 1, counter, raise_, False)})
    if not raise_ and r.random() < 0.75:
        spec['catch'] = {'name': r.choice(['extras', 'rest', 'unknown_stuff']), 'default': r.random() < 0.5}
    if root and r.random() < 0.4:
        tk = r.choice(['__tag__', '__tag__', 'kind', 'Type'])
        ints = [f['name'] for f in spec['fields'] if f['kind'] == 'int']
        if ints and r.random() < 0.3:
            tk = r.choice(ints)           # Meta.tag_key names one of the class's own fields (upstream issue 148)
        spec['tag'] = {'tag': 'T%d' % counter[0], 'tag_key': tk}
    return spec


def ordered_fields(spec):
    """field_to_parser / dataclass order produced by the runner's build(): required fields, the CatchAll field without
    default, defaulted fields, the CatchAll field with default"""
    req = [f['name'] for f in spec['fields'] if f['default'] is None]
    opt = [f['name'] for f in spec['fields'] if f['default'] is not None]
    c = spec['catch']
    if c and not c['default']:
        req.append(c['name'])
    if c and c['default']:
        opt.append(c['name'])
    return req + opt


def field_keys(spec, f):
    """v1: the top-level keys under which the field is looked up"""
    if f['path']:
        return list(dict.fromkeys(p[0] for p in f['path']))
    if f['aliases']:
        return list(f['aliases'])
    return [f['name']]


def v1_aliases(spec):
    out = []
    if v1_tag(spec):
        out.append(spec['tag']['tag_key'])
    for f in spec['fields']:
        out.extend(field_keys(spec, f))
    return out


def v1_tag(spec):
    return bool(spec['tag']) and spec['tag']['tag_key'] not in ordered_fields(spec)


def in_f19_region(spec):
    ks = [k for f in spec['fields'] for k in set(field_keys(spec, f))]
    return spec['engine'] == 'v1' and len(ks) != len(set(ks))


# --------------------------------------------------------------------------- classification (reference)
def strip_key(k):
    return ''.join(c for c in k.lower() if c not in '_- ')


def classify_v0(spec, k, model_says=None):
    """'tag' | ('field', name) | 'unknown' | 'ask' (ambiguous: the Coq resolution model decides)"""
    names = ordered_fields(spec)
    if spec['tag'] and k == spec['tag']['tag_key'] and k not in names:
        return 'tag'
    if k in names:
        return ('field', k)
    for f in names:
        if k in {ref_casing(f, c) for c in CASINGS}:
            return ('field', f)          # a documented spelling of a canonical name (C08)
    if strip_key(k) not in {strip_key(f) for f in names}:
        return 'unknown'
    if model_says is not None:
        key = (tuple(names), k)
        if key in model_says:
            return ('field', model_says[key]) if model_says[key] is not None else 'unknown'
    return 'ask'


def classify_v1(spec, k):
    if v1_tag(spec) and k == spec['tag']['tag_key']:
        return 'tag'
    for f in spec['fields']:
        if k in field_keys(spec, f):
            return ('field', f['name'])
    return 'unknown'


def classify(spec, k, model_says=None):
    return classify_v1(spec, k) if spec['engine'] == 'v1' else classify_v0(spec, k, model_says)


# --------------------------------------------------------------------------- documents
EXTRA_VALUES = [0, 7, 'v', '', None, True, [1, 2], {'a_b': 1, 'cD': [2]}, 3.5, [], {}]
NONIDENT = ['x-y z', '1abc', '', 'a.b', 'with space', "quo'te", 'dq"x', '$ref', 'ключ', 'tab\tk',
            'CAPS LOCK', '__', '-', '_', 'a' * 40, '{}', 'new\nline', '\\', '[0]']


def near_miss(r, spec):
    names = [f['name'] for f in spec['fields']]
    base = ref_casing(r.choice(names), r.choice(CASINGS))
    op = r.choice(['ins', 'del', 'sub', 'sep', 'dup'])
    i = r.randrange(len(base))
    if op == 'ins':
        return base[:i] + r.choice('xq9_-') + base[i:]
    if op == 'del' and len(base) > 1:
        return base[:i] + base[i + 1:]
    if op == 'sub':
        return base[:i] + r.choice('xq9Z') + base[i + 1:]
    if op == 'sep':
        return base + r.choice(['_', '-', '__', ' '])
    return base[:i] + base[i] + base[i:]


def gen_extra_key(r, spec):
    x = r.random()
    if x < 0.30:
        return 'rand', gen_key(r, set())
    if x < 0.62:
        return 'near', near_miss(r, spec)
    if x < 0.72:
        return 'tagkey', (spec['tag']['tag_key'] if spec['tag'] and r.random() < 0.5 else '__tag__')
    if x < 0.97:
        return 'nonident', r.choice(NONIDENT)
    return 'sentinel', SENTINEL


def gen_base_doc(r, spec):
    doc = {}
    for f in spec['fields']:
        if f['default'] is not None and r.random() < 0.3:
            continue
        if f['kind'] == 'nested':
            val = gen_base_doc(r, f['cls'])
        else:
            val = r.randint(0, 99)
        if spec['engine'] == 'v1':
            if f['path']:
                alts = list(f['path'])
                first = r.choice(alts)
                doc.setdefault(first[0], {})[first[1]] = val
                if len(alts) > 1 and r.random() < 0.2:      # a second alternative too (the first in declaration order wins)
                    other = r.choice([a for a in alts if a is not first])
                    doc.setdefault(other[0], {})[other[1]] = (val if alts.index(other) > alts.index(first) else r.randint(100, 199))
                    if alts.index(other) < alts.index(first):
                        doc[other[0]][other[1]], doc[first[0]][first[1]] = val, r.randint(100, 199)
            elif f['aliases']:
                ks = list(f['aliases'])
                if len(ks) == 2 and r.random() < 0.25:
                    doc[ks[0]] = val; doc[ks[1]] = r.randint(100, 199)     # both aliases present (F16 region, fixed)
                else:
                    doc[r.choice(ks)] = val
            else:
                doc[f['name']] = val
        else:
            doc[ref_casing(f['name'], r.choice(CASINGS)) if r.random() < 0.5 else f['name']] = val
    if spec['tag'] and r.random() < 0.7 and spec['tag']['tag_key'] not in ordered_fields(spec):
        doc[spec['tag']['tag_key']] = spec['tag']['tag']
    if r.random() < 0.3:
        ks = list(doc); r.shuffle(ks); doc = {k: doc[k] for k in ks}
    return doc


def add_extras(r, spec, doc, pending, stats):
    """insert 0-3 extra keys at this level (and recursively); ambiguous near-misses are recorded in `pending`"""
    out = dict(doc)
    for _ in range(r.choice([0, 1, 1, 2, 3])):
        kind, k = gen_extra_key(r, spec)
        if k in out:
            continue
        c = classify(spec, k)
        if c == 'ask':
            pending.append((spec, k))
        elif c != 'unknown' and not (kind == 'tagkey' and c == 'tag'):
            continue                      # hits a field: not an extra key
        items = list(out.items())
        items.insert(r.randint(0, len(items)), (k, copy.deepcopy(r.choice(EXTRA_VALUES))))
        out = dict(items)
        stats.append(kind)
    for f in spec['fields']:
        if f['kind'] == 'nested':
            for k in list(out):
                if classify(spec, k) == ('field', f['name']) and isinstance(out[k], dict):
                    out[k] = add_extras(r, f['cls'], out[k], pending, stats)
    return out


def drop_known_extras(spec, doc, model_says):
    """after phase 0: remove the ambiguous extra keys (near-misses whose separator-free form equals a field's) that the
    resolution model maps to a field: they do not miss every field, so they are not in the property's U"""
    out = {}
    for k, v in doc.items():
        c = classify(spec, k)
        if c == 'ask':
            if classify(spec, k, model_says) != 'unknown':
                continue
        elif isinstance(c, tuple):
            f = next((f for f in spec['fields'] if f['name'] == c[1]), None)
            if f and f['kind'] == 'nested' and isinstance(v, dict):
                v = drop_known_extras(f['cls'], v, model_says)
        out[k] = v
    return out


# --------------------------------------------------------------------------- reference semantics
class RefError(Exception):
    def __init__(self, cls, keys):
        self.cls, self.keys = cls, keys


def level_unknown(spec, doc, ms):
    return [k for k in doc if classify(spec, k, ms) == 'unknown']


def ref_load(spec, doc, ms):
    """independent reference: instance view, raising RefError(class, unknown keys of that level)"""
    unknown = level_unknown(spec, doc, ms)
    fields = {}
    by_name = {f['name']: f for f in spec['fields']}

    def value_of(f, v):
        if f['kind'] == 'nested':
            return ref_load(f['cls'], v, ms)
        return str(v)
    if spec['engine'] == 'v0':
        for k, v in doc.items():
            c = classify(spec, k, ms)
            if c == 'unknown' and spec['raise']:
                raise RefError(spec['name'], [k])
            if isinstance(c, tuple) and c[1] in by_name:
                fields[c[1]] = value_of(by_name[c[1]], v)
    else:
        for f in spec['fields']:
            if f['path']:
                for p in f['path']:       # alternatives in declaration order
                    if isinstance(doc.get(p[0]), dict) and p[1] in doc[p[0]]:
                        fields[f['name']] = value_of(f, doc[p[0]][p[1]])
                        break
                continue
            for k in field_keys(spec, f):
                if k in doc:
                    fields[f['name']] = value_of(f, doc[k])
                    break
        if unknown and spec['raise'] and not spec['catch']:
            raise RefError(spec['name'], sorted(unknown))
    view = {'cls': spec['name'], 'fields': {f['name']: fields.get(f['name'], 'DEFAULT') for f in spec['fields']}, 'catch': None}
    if spec['catch']:
        if unknown or not spec['catch']['default']:
            view['catch'] = {'items': [[k, doc[k]] for k in unknown]}
        else:
            view['catch'] = {'default': True}
    return view


def all_unknown_levels(spec, doc, ms, acc):
    u = level_unknown(spec, doc, ms)
    if u:
        acc.append((spec['name'], u))
    for f in spec['fields']:
        if f['kind'] == 'nested':
            for k, v in doc.items():
                if classify(spec, k, ms) == ('field', f['name']) and isinstance(v, dict):
                    all_unknown_levels(f['cls'], v, ms, acc)
    return acc


def impl_view(res_view, spec):
    """normalise the runner's view: ints as text, default (-1) as DEFAULT"""
    if not isinstance(res_view, dict) or 'bad' in res_view:
        return {'bad': res_view}
    out = {'cls': res_view['cls'], 'fields': {}, 'catch': res_view.get('catch')}
    for f in spec['fields']:
        v = res_view['fields'].get(f['name'])
        if f['kind'] == 'nested' and isinstance(v, dict) and 'cls' in v:
            out['fields'][f['name']] = impl_view(v, f['cls'])
        elif isinstance(v, dict) and 'int' in v:
            out['fields'][f['name']] = 'DEFAULT' if (f['default'] is not None and v['int'] == str(f['default'])) else v['int']
        else:
            out['fields'][f['name']] = {'bad': v}
    return out


def dump_level(dump, spec, path):
    d = dump
    for name in path:
        d = d.get(ref_casing(name, 'Camel')) if isinstance(d, dict) else None
    return d


def check_dump(spec, view, dump, path=()):
    """to_dict(from_dict(d)) contains every captured pair unchanged, at the level where it was captured"""
    if view.get('catch') and 'items' in view['catch']:
        d = dump_level(dump, spec, path)
        if not isinstance(d, dict):
            return 'dump of level %s is not a dict' % '/'.join(path)
        normal = {strip_key(x) for x in ordered_fields(spec) + (v1_aliases(spec) if spec['engine'] == 'v1' else [])}
        for k, v in view['catch']['items']:
            if strip_key(k) in normal:
                continue      # normalises to a field name: outside the property's U (can collide with a dump key)
            if k not in d or d[k] != v or type(d[k]) is not type(v):
                return 'captured pair %r: %r missing from / changed in to_dict output %r' % (k, v, d)
    for f in spec['fields']:
        if f['kind'] == 'nested' and isinstance(view['fields'].get(f['name']), dict) and not f['path'] and not f['aliases']:
            items = (view.get('catch') or {}).get('items') or []
            if any(strip_key(k) == strip_key(f['name']) for k, _ in items):
                continue      # a captured key that normalises to this field's name (outside U) collides with its dump key
            bad = check_dump(f['cls'], view['fields'][f['name']], dump, path + (f['name'],))
            if bad:
                return bad
    return None


def direct_predicate(spec, doc, res, ms):
    if not res.get('input_unchanged', True):
        return 'the input document was mutated'
    try:
        exp = ref_load(spec, doc, ms)
    except RefError as e:
        levels = all_unknown_levels(spec, doc, ms, [])
        if 'ok' in res:
            return 'unknown keys %r under the raise policy, but the load succeeded' % (levels,)
        if res.get('err') != 'UnknownKeysError':
            return 'unknown keys %r under the raise policy, but %s was raised: %s' % (levels, res.get('err'), res.get('msg'))
        if not res.get('renders'):
            return 'UnknownKeysError message cannot be rendered'
        ok = any(res.get('class_name') == cn and res.get('unknown_keys') and set(res['unknown_keys']) <= set(u) for cn, u in levels)
        if not ok:
            return 'UnknownKeysError(%r, class %s) names no unknown key of any level %r' % (res.get('unknown_keys'), res.get('class_name'), levels)
        return None
    if 'ok' not in res:
        return 'expected a successful load, got %s: %s' % (res.get('err'), res.get('msg'))
    got = impl_view(res['ok'], spec)

    def cmp(g, x, where):
        if not isinstance(g, dict) or g.get('cls') != x['cls']:
            return '%s: loaded %r' % (where, g)
        for k, v in x['fields'].items():
            gv = g['fields'].get(k)
            if isinstance(v, dict):
                if not isinstance(gv, dict):
                    return '%s.%s: %r, expected a nested instance' % (where, k, gv)
                bad = cmp(gv, v, where + '.' + k)
                if bad:
                    return bad
            elif gv != v:
                return '%s: mapped field %s = %r, expected %r' % (where, k, gv, v)
        gc, xc = g.get('catch'), x.get('catch')
        if (gc is None) != (xc is None):
            return '%s: catch-all %r, expected %r' % (where, gc, xc)
        if xc is not None:
            if 'default' in xc:
                if gc != xc:
                    return '%s: catch-all %r, expected the default to be kept' % (where, gc)
            else:
                if 'items' not in gc or sorted(map(json.dumps, gc['items'])) != sorted(map(json.dumps, xc['items'])):
                    return '%s: catch-all %r, expected exactly %r' % (where, gc, xc)
        return None
    bad = cmp(got, exp, spec['name'])
    if bad:
        return bad
    if 'dump_err' in res:
        return 'to_dict of the loaded instance failed: %s' % res['dump_err'].get('err')
    return check_dump(spec, exp, res.get('dump'))


def region_of(spec, doc, ms, alone=None):
    """open finding whose region contains this input, or None"""
    for f in spec['fields']:
        # per KEY: the nested class, used alone before, negatively cached exactly these unknown keys
        if spec['engine'] == 'v0' and spec['raise'] and f['kind'] == 'nested' and alone and f['name'] in alone:
            seen = set(level_unknown(f['cls'], alone[f['name']], ms))
            for k, v in doc.items():
                if classify(spec, k, ms) == ('field', f['name']) and isinstance(v, dict):
                    u = level_unknown(f['cls'], v, ms)
                    if u and set(u) <= seen and not level_unknown(spec, doc, ms):
                        return 'F10-C10-alone-first-negative-cache'

    def walk(s, d):
        if s['engine'] == 'v1' and in_f19_region(s) and level_unknown(s, d, ms):
            return 'F19-v1-shared-top-level-key'
        if s['engine'] == 'v0' and s['catch'] and SENTINEL in d:
            return 'F41-catchall-sentinel-key'
        for f in s['fields']:
            if f['kind'] == 'nested':
                for k, v in d.items():
                    if classify(s, k, ms) == ('field', f['name']) and isinstance(v, dict):
                        r = walk(f['cls'], v)
                        if r:
                            return r
        return None
    return walk(spec, doc)


# --------------------------------------------------------------------------- Coq terms
PRELUDE = '''
Definition tconv (tbl : list (pstr * cres pstr)) (f r : pstr) : cres pstr :=
  match assoc r tbl with Some x => x | None => CVal r end.
Definition show_kw (kv : pstr * kwval pstr pstr) : pstr :=
  hex (fst kv) ++ S "=" ++
  match snd kv with
  | KV v => S "V" ++ hex v
  | KCatch items => S "C" ++ join (S "+") (map (fun it => hex (fst it) ++ S "~" ++ hex (snd it)) items)
  end.
Definition show_err (e : uerr) : pstr :=
  match e with
  | UUnknown cn ks => S "U:" ++ cn ++ S ":" ++ join (S ",") (map hex ks)
  | UParse cn fn => S "P:" ++ cn ++ S ":" ++ fn
  | UKeyError k => S "K:" ++ hex k
  end.
Definition show_out (o : outcome pstr pstr) : pstr :=
  match o with OKCall kw => S "O:" ++ join (S ",") (map show_kw kw) | Fail e => show_err e end.
Definition run0 tbl c (docs : list (doc pstr)) : pstr :=
  join (S "|") (map show_out (v0_run (tconv tbl) c (init_cache c) docs)).
Definition run1 tbl c (docs : list (doc pstr)) : pstr :=
  join (S "|") (map (fun d => show_out (v1_load (tconv tbl) c d)) docs).
Definition run0p tbl cpre (dpre : doc pstr) c (docs : list (doc pstr)) : pstr :=
  join (S "|") (map show_out (v0_run (tconv tbl) c (fst (v0_load (tconv tbl) cpre (init_cache cpre) dpre)) docs)).
Definition res0 (fs : list pstr) (k : pstr) : pstr :=
  match resolve_key_v0 fs k with Some f => S "S" ++ hex f | None => S "N" end.
'''


def coq_opt(x):
    return 'None' if x is None else '(Some %s)' % x


def coq_cls(spec):
    c = spec['catch']
    catch = coq_opt('(%s, %s)' % (coq_str(c['name']), 'true' if c['default'] else 'false') if c else None)
    if spec['engine'] == 'v0':
        return ('{| c_name := %s; c_fields := %s; c_catch := %s; c_tag := %s; c_raise := %s |}' %
                (coq_str(spec['name']), coq_list([coq_str(n) for n in ordered_fields(spec)]), catch,
                 coq_opt(coq_str(spec['tag']['tag_key']) if spec['tag'] else None), 'true' if spec['raise'] else 'false'))
    fs = ['(%s, %s)' % (coq_str(f['name']), coq_list([coq_str(k) for k in field_keys(spec, f)])) for f in spec['fields']]
    return ('{| d_name := %s; d_fields := %s; d_catch := %s; d_tag := %s; d_policy := %s |}' %
            (coq_str(spec['name']), coq_list(fs), catch,
             coq_opt(coq_str(spec['tag']['tag_key']) if v1_tag(spec) else None), 'PRaise' if spec['raise'] else 'PIgnore'))


def raw_of(v):
    return json.dumps(v, sort_keys=False, ensure_ascii=True)


def level_docs(spec, loads, ms):
    """model input of one level: per load the flat doc (values as raw text; a nested field's value is '@<load index>')
    and the nested (field, child doc) pairs"""
    flat, children = [], []
    for j, d in enumerate(loads):
        items, ch = [], {}
        for k, v in d.items():
            c = classify(spec, k, ms)
            f = next((f for f in spec['fields'] if isinstance(c, tuple) and f['name'] == c[1]), None)
            if f is not None and f['kind'] == 'nested' and isinstance(v, dict) and not f['path']:
                items.append((k, '@%d' % j)); ch[f['name']] = v
            elif f is not None and f['path'] and spec['engine'] == 'v1':
                items.append((k, raw_of(v)))          # the conversion of a path field extracts the sub-key (table below)
            else:
                items.append((k, raw_of(v)))
        flat.append(items); children.append(ch)
    return flat, children


def coq_docs(flat):
    return coq_list([coq_list(['(%s, %s)' % (coq_str(k), coq_str(v)) for k, v in items]) for items in flat])


def parse_out(s):
    if s.startswith('O:'):
        kw = {}
        body = s[2:]
        for part in (body.split(',') if body else []):
            k, v = part.split('=', 1)
            k = bytes.fromhex(k).decode()
            if v.startswith('V'):
                kw[k] = ('V', bytes.fromhex(v[1:]).decode())
            else:
                items = []
                for it in (v[1:].split('+') if v[1:] else []):
                    a, b = it.split('~')
                    items.append([bytes.fromhex(a).decode(), bytes.fromhex(b).decode()])
                kw[k] = ('C', items)
        return {'ok': kw}
    if s.startswith('U:'):
        return parse_unknown(s)
    if s.startswith('K:'):
        return {'err': 'KeyError', 'key': bytes.fromhex(s[2:]).decode()}
    return {'err': 'ParseError', 'raw': s}


def parse_unknown(s):
    _, cn, ks = s.split(':', 2)
    return {'err': 'UnknownKeysError', 'class_name': cn, 'unknown_keys': sorted(bytes.fromhex(x).decode() for x in ks.split(','))}


def model_view(out, spec, child_views, doc=None):
    """instance view from the model's kwargs (one level); child_views: field name -> view of the nested level;
    doc: the loaded document of this level (a path field's conversion extracts the sub-key of the first
    alternative whose top-level key is present)"""
    kw = out['ok']
    v = {'cls': spec['name'], 'fields': {}, 'catch': None}
    for f in spec['fields']:
        if f['name'] in kw and kw[f['name']][0] == 'V':
            raw = kw[f['name']][1]
            if f['kind'] == 'nested':
                v['fields'][f['name']] = child_views.get(f['name'], {'bad': raw})
            elif f['path'] and spec['engine'] == 'v1':
                try:
                    p0 = next(p for p in f['path'] if doc is not None and p[0] in doc)
                    v['fields'][f['name']] = str(json.loads(raw)[p0[1]])
                except Exception:
                    v['fields'][f['name']] = {'bad': raw}
            else:
                v['fields'][f['name']] = raw
        else:
            v['fields'][f['name']] = 'DEFAULT'
    c = spec['catch']
    if c:
        if c['name'] in kw and kw[c['name']][0] == 'C':
            v['catch'] = {'items': [[k, json.loads(x)] for k, x in kw[c['name']][1]]}
        elif c['name'] in kw:
            v['catch'] = {'bad': kw[c['name']]}
        else:
            v['catch'] = {'default': True}
    return v


def impl_compare_view(res, spec):
    """the implementation's outcome in the model's vocabulary"""
    if 'ok' in res:
        return {'ok': impl_view(res['ok'], spec)}
    if res.get('err') == 'UnknownKeysError':
        return {'err': 'UnknownKeysError', 'class_name': res.get('class_name'), 'unknown_keys': sorted(res.get('unknown_keys') or [])}
    if res.get('err') == 'KeyError':
        return {'err': 'KeyError', 'key': (res.get('msg') or '').strip("'")}
    return {'err': res.get('err')}


# --------------------------------------------------------------------------- run
def build_cases(ctx):
    r = ctx.sub_rng('cases')
    n = 900 if ctx.tier == "quick" else 8000
    counter = [0]
    cases, pending = [], []
    for _ in range(n):
        engine = r.choice(['v0', 'v1'])
        raise_ = r.random() < 0.3
        spec = gen_level(r, engine, r.choice([0, 1, 1]), counter, raise_, True)
        stats = []
        base = gen_base_doc(r, spec)
        d1 = add_extras(r, spec, base, pending, stats)
        pat = r.random()
        if pat < 0.6:
            loads = [d1] * r.choice([1, 2, 3])
            hist = 'repeat%d' % len(loads)
        else:
            d2 = add_extras(r, spec, gen_base_doc(r, spec), pending, stats)
            loads = r.choice([[d1, d2, d1], [d2, d1], [d1, base, d1]])
            hist = 'mixed%d' % len(loads)
        # operations before the first load of the root class: the nested class used ALONE (its own default policy,
        # the per-class key cache is shared with the nested loader generated later), a dump of a hand-built instance
        alone = {}
        for f in spec['fields']:
            if f['kind'] == 'nested' and r.random() < 0.6:
                reuse = [d[k] for d in loads for k in d if classify(spec, k) == ('field', f['name']) and isinstance(d[k], dict)]
                if reuse and r.random() < 0.5:
                    alone[f['name']] = copy.deepcopy(r.choice(reuse))        # the same unknown keys come back later
                else:
                    alone[f['name']] = add_extras(r, f['cls'], gen_base_doc(r, f['cls']), pending, [])
                # the sentinel key in an ALONE load poisons the class (F41, variant c of the witness): kept out of the histories
                alone[f['name']].pop(SENTINEL, None)
        cases.append({'cls': spec, 'loads': loads, 'hist': hist, 'extra_kinds': stats,
                      'pre': {'dump': r.random() < 0.4, 'alone': alone},
                      'entry': r.choice(['fromdict', 'fromdict', 'jsonwizard', 'from_json', 'fromlist'])})
    return cases, pending


def run(ctx):
    cases, pending = build_cases(ctx)

    # ---- phase 0: ambiguous near-misses are classified by the Coq resolution model -----------
    ms = {}
    model_ok = True
    amb = sorted({(tuple(ordered_fields(s)), k) for s, k in pending if s['engine'] == 'v0'})
    try:
        if amb:
            outs = ctx.coq(['res0 %s %s' % (coq_list([coq_str(f) for f in fs]), coq_str(k)) for fs, k in amb],
                           ['FieldsUnknown'], prelude=PRELUDE, tag='phase0')
            for (fs, k), o in zip(amb, outs):
                ms[(fs, k)] = None if o == 'N' else bytes.fromhex(o[1:]).decode()
    except Exception as ex:
        model_ok = False
        ctx.broken_tie('model evaluation failed (phase 0): %s' % str(ex)[:400])
        # fail safe: without the model drop every ambiguous key
        for a in amb:
            ms[a] = a[0][0]
    ctx.hist('ambiguous_near_misses', 'resolve=%d miss=%d' % (sum(1 for v in ms.values() if v is not None),
                                                              sum(1 for v in ms.values() if v is None)))
    for c in cases:
        c['loads'] = [drop_known_extras(c['cls'], d, ms) for d in c['loads']]
        for f in c['cls']['fields']:
            if f['name'] in c['pre']['alone']:
                c['pre']['alone'][f['name']] = drop_known_extras(f['cls'], c['pre']['alone'][f['name']], ms)

    # ---- implementation ------------------------------------------------------------------------
    impl = ctx.impl('c10', {'cases': [{'cls': c['cls'], 'loads': c['loads'], 'pre': c['pre'], 'entry': c['entry']} for c in cases],
                            'witness': [{'kind': 'F19'}, {'kind': 'F41'}, {'kind': 'F10alone'}]})
    w19, w22, w10 = impl['witness']
    resolved = set()     # findings whose witness no longer fails: the faithful (defective) model is not compared in their region
    if ctx.finding('F19-v1-shared-top-level-key'):
        still = bool(w19.get('accepted_unknown'))
        ctx.known_finding('F19-v1-shared-top-level-key', still_fails=still)
        ctx.count(1, key='witness:F19', nontrivial=True)
        if not still:
            resolved.add('F19-v1-shared-top-level-key')
    if ctx.finding('F41-catchall-sentinel-key'):
        still = bool(w22.get('with_default', {}).get('err') == 'KeyError' or w22.get('no_default_dropped') or w22.get('poisoned'))
        ctx.known_finding('F41-catchall-sentinel-key', still_fails=still)
        ctx.count(1, key='witness:F41', nontrivial=True)
        if not still:
            resolved.add('F41-catchall-sentinel-key')
    if ctx.finding('F10-C10-alone-first-negative-cache'):
        still = bool(w10.get('seen_key_accepted'))
        ctx.known_finding('F10-C10-alone-first-negative-cache', still_fails=still)
        ctx.count(1, key='witness:F10alone', nontrivial=True)
        if not still:
            resolved.add('F10-C10-alone-first-negative-cache')
    if not w10.get('unseen_key_rejected', True):
        ctx.violation('default engine: nested class loaded alone first, then a strict recursive outer class: an unknown nested key that '
                      'was never seen before is accepted', {'kind': 'F10alone'})

    # ---- model, phase 1 (nested levels) and phase 2 (root levels) ------------------------------
    def level_expr(spec, flat, tbl):
        t = coq_list(['(%s, %s)' % (coq_str(k), v) for k, v in tbl])
        return '%s %s %s %s' % ('run0' if spec['engine'] == 'v0' else 'run1', t, coq_cls(spec), coq_docs(flat))

    child_out = {}          # case index -> field name -> list (per load) of parsed outcome / None
    if model_ok:
        try:
            exprs1, where1 = [], []
            prepared = []
            for ci, c in enumerate(cases):
                flat, children = level_docs(c['cls'], c['loads'], ms)
                prepared.append((flat, children))
                for f in c['cls']['fields']:
                    if f['kind'] != 'nested':
                        continue
                    idx = [j for j, ch in enumerate(children) if f['name'] in ch]
                    if not idx:
                        continue
                    cflat, _ = level_docs(f['cls'], [children[j][f['name']] for j in idx], ms)
                    if f['cls']['engine'] == 'v0' and f['name'] in c['pre']['alone']:
                        # the nested class was loaded ALONE first (default policy), same per-class key cache
                        aflat, _ = level_docs(f['cls'], [c['pre']['alone'][f['name']]], ms)
                        exprs1.append('run0p [] %s %s %s %s' % (coq_cls(dict(f['cls'], **{'raise': False})), coq_docs(aflat)[1:-1],
                                                              coq_cls(f['cls']), coq_docs(cflat)))
                    else:
                        exprs1.append(level_expr(f['cls'], cflat, []))
                    where1.append((ci, f['name'], idx))
            outs1 = ctx.coq(exprs1, ['FieldsUnknown'], prelude=PRELUDE, tag='phase1') if exprs1 else []
            for (ci, fname, idx), o in zip(where1, outs1):
                parts = o.split('|')
                child_out.setdefault(ci, {})[fname] = {j: p for j, p in zip(idx, parts)}
            exprs2 = []
            for ci, c in enumerate(cases):
                flat, children = prepared[ci]
                tbl = []
                for fname, per in child_out.get(ci, {}).items():
                    for j, p in per.items():
                        if p.startswith('U:'):
                            u = parse_unknown(p)
                            tbl.append(('@%d' % j, '(CNested (UUnknown %s %s))' % (coq_str(u['class_name']),
                                        coq_list([coq_str(bytes.fromhex(x).decode()) for x in p.split(':', 2)[2].split(',')]))))
                        elif p.startswith('K:'):
                            tbl.append(('@%d' % j, '(CNested (UKeyError %s))' % coq_str(bytes.fromhex(p[2:]).decode())))
                exprs2.append(level_expr(c['cls'], flat, tbl))
            outs2 = ctx.coq(exprs2, ['FieldsUnknown'], prelude=PRELUDE, tag='phase2')
        except Exception as ex:
            model_ok = False
            ctx.broken_tie('model evaluation failed: %s' % str(ex)[:500])

    # ---- compare -------------------------------------------------------------------------------
    n_dis = 0
    for ci, c in enumerate(cases):
        spec = c['cls']
        ctx.hist('engine/policy', '%s/%s/%s%s' % (spec['engine'], 'raise' if spec['raise'] else 'ignore',
                                                  ('catch_default' if spec['catch']['default'] else 'catch') if spec['catch'] else 'nocatch',
                                                  '/tag' if spec['tag'] else ''))
        ctx.hist('history', ('alone-first+' if c['pre']['alone'] else '') + ('dump-first+' if c['pre']['dump'] else '') + c['hist'])
        ctx.hist('entry_point', c['entry'])
        ctx.hist('depth', 2 if any(f['kind'] == 'nested' for f in spec['fields']) else 1)
        for k in c['extra_kinds']:
            ctx.hist('extra_key_kind', k)
        results = impl['cases'][ci]
        mparts = outs2[ci].split('|') if model_ok else None
        for j, (d, res) in enumerate(zip(c['loads'], results)):
            nontriv = bool(all_unknown_levels(spec, d, ms, []))
            ctx.count(1, key='c:%s|%d|%s' % (json.dumps(spec, sort_keys=True), j, json.dumps(c['loads'][:j + 1])), nontrivial=nontriv)
            ctx.hist('outcome', spec['engine'] + '/' + ('ok' if 'ok' in res else res.get('err', '?')))
            bad = direct_predicate(spec, d, res, ms)
            if bad:
                reg = region_of(spec, d, ms, c['pre']['alone'])
                if reg and ctx.is_open_region(reg):
                    ctx.hist('known_region', reg)
                else:
                    ctx.violation('%s engine, class %s, load %d of the history, document %s: %s' %
                                  (spec['engine'], spec['name'], j + 1, json.dumps(d)[:200], bad),
                                  {'kind': 'case', 'cls': spec, 'loads': c['loads'], 'index': j, 'pre': c['pre'], 'entry': c['entry'], 'model_says': [[list(k[0]), k[1], v] for k, v in ms.items() if k[0] == tuple(ordered_fields(spec))]})
            if model_ok and region_of(spec, d, ms, c['pre']['alone']) in resolved:
                ctx.hist('resolved_region_direct_predicate_only', region_of(spec, d, ms, c['pre']['alone']))
            elif model_ok:
                ctx.traces_validated += 1
                mo = parse_out(mparts[j]) if not mparts[j].startswith('U:') else parse_unknown(mparts[j])
                if 'ok' in mo:
                    cviews = {}
                    for fname, per in child_out.get(ci, {}).items():
                        if j in per and per[j].startswith('O:'):
                            fspec = next(f['cls'] for f in spec['fields'] if f['name'] == fname)
                            cviews[fname] = model_view(parse_out(per[j]), fspec, {}, prepared[ci][1][j].get(fname))
                    mo = {'ok': model_view(mo, spec, cviews, d)}
                io = impl_compare_view(res, spec)
                if 'ok' in mo and 'ok' in io:
                    same = json.dumps(mo, sort_keys=True) == json.dumps(io, sort_keys=True)
                else:
                    same = mo == io
                if not same:
                    n_dis += 1
                    ctx.disagreements_checked += 1
                    if n_dis <= 5:
                        ctx.broken_tie('FieldsUnknown model and implementation disagree (%s engine)' % spec['engine'],
                                       {'cls': spec, 'loads': c['loads'], 'index': j, 'impl': io, 'model': mo})
    for c, rs in list(zip(cases, impl['cases']))[:3]:
        ctx.sample({'class': c['cls'], 'history': c['loads'], 'impl_outcomes': [(r.get('ok') or {k: r.get(k) for k in ('err', 'class_name', 'unknown_keys')}) for r in rs]})


def replay(ctx, obj):
    if obj.get('kind') == 'case':
        ms = {(tuple(a), b): c for a, b, c in obj.get('model_says', [])}
        results = ctx.impl('c10', {'cases': [{'cls': obj['cls'], 'loads': obj['loads'], 'pre': obj.get('pre'),
                                              'entry': obj.get('entry', 'fromdict')}]})['cases'][0]
        ok = True
        for j, (d, res) in enumerate(zip(obj['loads'], results)):
            bad = direct_predicate(obj['cls'], d, res, ms)
            print('load %d: %s -> %s' % (j + 1, json.dumps(d)[:300], bad or 'property holds'))
            if bad and j == obj.get('index', j):
                ok = False
        return ok
    fid = obj.get('finding') or ''
    if obj.get('kind') == 'F10alone' or fid.startswith('F10'):
        w = ctx.impl('c10', {'witness': [{'kind': 'F10alone'}]})['witness'][0]
        print('witness outcome: %s' % json.dumps(w)[:600])
        return bool(w.get('unseen_key_rejected')) and (obj.get('kind') == 'F10alone' or not w.get('seen_key_accepted'))
    if obj.get('kind') in ('F19', 'F41') or fid.startswith('F19') or fid.startswith('F41'):
        kind = 'F19' if (obj.get('kind') == 'F19' or fid.startswith('F19')) else 'F41'
        w = ctx.impl('c10', {'witness': [{'kind': kind}]})['witness'][0]
        print('witness outcome: %s' % json.dumps(w)[:600])
        if kind == 'F19':
            return not w.get('accepted_unknown')
        return not (w.get('with_default', {}).get('err') == 'KeyError' or w.get('no_default_dropped') or w.get('poisoned'))
    print('replay object names a broken tie, not an input: %s' % json.dumps(obj)[:1000])
    return False
