"""C10 — unknown keys are ignored, rejected or captured exactly as configured.

Theorems: coq/props/C10.v (model coq/model/FieldsUnknown.v).  Correspondence: generated
class trees (depth <= 2) x policy {ignore, raise, CatchAll with / without default} x engine
{default, v1} x tag key or not; documents = a complete document plus extra keys (random,
near-misses of field names, the tag key, non-identifier keys, the internal sentinel),
loaded as HISTORIES in one interpreter (each call repeated n in {1,2,3}, or different
documents interleaved); the model's `v0_run` threads the cache through the same history.
Direct predicates on the implementation for every load, from an independent Python
reference `ref_load` written from the property text.
"""
import json, string, keyword, copy
from lib.coqrun import coq_str, coq_list

META = {
    'id': 'C10',
    'title': 'Unknown keys are ignored, rejected or captured exactly as configured',
    'level': 'proof',
    'technique': 'Coq proof (cache invariant preserved by every load and lifted over arbitrary histories; counting argument for '
                 'the v1 fast path; fold of Meta binds; generation histories; dump composed with the skip rules) on a hand-written '
                 'Gallina model + differential correspondence with the implementation',
    'design_ref': 'DESIGN.md section 4 C10',
    'theorems': ['C10_spec_partial', 'C10_spec_repeat_partial', 'C10_cache_invariant', 'C10_raise', 'C10_mapped_unaffected',
                 'C10_catchall_exact', 'C10_catchall_rt', 'C10_v1_spec_partial', 'C10_v1_count', 'C10_v1_catchall_rt',
                 'C10_v1_refuted_shared_key', 'C10_refuted_sentinel_key', 'C10_refuted_alone_first',
                 'C10_cfg_last_wins', 'C10_cfg_valid', 'C10_cfg_spelling', 'C10_cfg_v1_partial', 'C10_cfg_v0_partial',
                 'C10_gen_history', 'C10_gen_count_independent', 'C10_gen_history_spec_partial', 'C10_gen_never_fails',
                 'C10_multi_root_partial', 'C10_gen_class_regular', 'C10_gen_default_factory', 'C10_gen_pre_fix_refuted',
                 'C10_dump_catch_exact', 'C10_dump_skip_if_irrelevant', 'C10_dump_catch_rt_v1', 'C10_dump_catch_rt_v0'],
    'tables': [],
    'level_text': ('Theorems proved in Coq for ALL class configurations (policy x CatchAll x tag key), ALL documents and ALL load '
                   'histories (any sequence of documents through the shared json_to_field cache, hence every repetition count n >= 1) '
                   'about an executable model of the default-engine unknown-key branch with its cache as state, of the v1 '
                   'len(o) != i fast path, and of the CatchAll re-emission in the dumper; for EVERY sequence of Meta binds (inner Meta, '
                   'LoadMeta, DumpMeta; any order, number and spelling) the policy the generator reads is the last explicitly written '
                   'one, normalised; for ALL histories of loader generations and loads across roots the outcome of a load does not '
                   'depend on the generations that preceded it (v1; default engine: across roots when no ignore-policy load precedes a '
                   'raise-policy load); for ALL dump settings (exclude, skip_defaults, Meta.skip_if, skip_defaults_if, per-field SkipIf, '
                   'key transform) and all truth tables of the conditions the CatchAll branch writes exactly the captured pairs unless the '
                   'CatchAll FIELD is excluded / skipped as a defaulted field.  Three regions are excluded and refuted with witnesses that '
                   'replay on the implementation (open findings F19, F41, F10-C10-alone-first); F91 is fixed (d23b12f): the repaired marker is '
                   'modelled, its region is covered by the full statement, the pre-fix marker is refuted as a named variant.  The model is re-validated against '
                   'the implementation on every run.'),
    'level_note': ('Trusted: Coq kernel + vm_compute; the hand-written model (one class level; a nested dataclass is the abstract '
                   'per-field conversion `conv`, composition over nesting is exercised by the harness at depth 2, not proved); key '
                   'resolution is StrConv.resolve_key_v0 (validated by C08). Python dict semantics are modelled, not proved. The truth of '
                   'a skip condition on a value is a parameter of the dump model (every operator / value: C11); the instance the '
                   'constructor builds from the keyword arguments is a hypothesis of the load-then-dump theorems (C09).'),
    'rule': ('classes: 1-3 int fields with canonical snake_case names (+ optional nested dataclass, depth <= 2; v1: Alias / AliasPath '
             'fields), policy in {ignore, raise, CatchAll, CatchAll with default}, optional Meta.tag with tag_key in {__tag__, kind, Type}; '
             'documents: complete (defaulted fields sometimes omitted; default engine: documented casings of the field names) plus 0-3 '
             'extra keys per level drawn from random identifiers / one-edit near-misses of a field-name casing (kept only when they miss '
             'every field: decided independently when the separator-free lower-cased forms differ, by the Coq resolution model otherwise) / '
             'the tag key / non-identifier keys / the internal sentinel; histories of 1-3 loads (same document repeated, or two documents '
             'interleaved), in 40 % preceded by a dump of a hand-built instance; v1 fields with 1-3 alternative AliasPaths / 1-3 aliases; '
             'entry points fromdict / fromlist / JSONWizard.from_dict / from_json.  Stream A (half of the cases): the policy is configured '
             'by a PROGRAM of 1-4 Meta binds (JSONPyWizard implicit DumpMeta, inner Meta, LoadMeta, DumpMeta; each writing or not '
             'v1_on_unknown_key / raise_on_unknown_json_key in a random spelling: KeyAction member, name in any case, None, \'\', '
             'bool / int / str truthiness), plus a systematic block RAISE x every spelling x written by the 1st / 2nd / 3rd bind x base.  '
             'Stream B: one class (CatchAll none / required / default / default_factory at any place) generated alone and nested '
             'under 1-2 roots at plain / list / dict / Optional position, 3-6 operations, every order of first use (systematic for '
             'engine x CatchAll kind), roots with or without the raise policy.  Stream C: one class with a CatchAll field x '
             'Meta.skip_if / skip_defaults_if / skip_defaults / key transform / SkipIf on ordinary fields and on the CatchAll field x '
             'asdict(exclude, skip_defaults) calls; every operator of the condition table at every placement (systematic) with values '
             'None/bool/int/str/list/dict/the captured dict.  Non-trivial = some level has an extra key; distinct = distinct (class spec, history).'),
    'trusted_base': ['model coq/model/FieldsUnknown.v transcribes loaders.py:676-760, v1/loaders.py:960-1290 (generation: init-field table, '
                     'CatchAll index, positional call), dumpers.py:420-490 (skip flags and the CatchAll branch), bases_meta.py:124-221 '
                     '(bind_to), bases.py:81-98 (__and__), utils/type_conv.py:185-244 (as_enum) (validated by correspondence)'],
    'assumptions': ['a class has either the raise policy or CatchAll fields, not both (the property lists them as alternatives)',
                    'default key transform (to_snake_case) for the default engine; v1_key_case unset for v1',
                    'document keys are str; ASCII upper-case letters only (non-ASCII keys are lower-case)',
                    'Meta binds happen before the first load / dump of the class (a later bind does not reach a cached loader: C06/C07)',
                    'the CatchAll FIELD is subject to the field-level rules of C11: exclude, and the skip-defaults rule for a defaulted field '
                    '(value equal to the default, or Meta.skip_defaults_if true on the captured dict) — recorded interpretation'],
}

RESERVED = {'o', 'cls', 'field', 'fields', 'i', 'e', 'v1', 'tp', 'result', 'config', 'hooks', 'exclude', 'self', 'k', 'v',
            'kind', 'type', 'extras', 'rest', 'aliases', 'catch_all', 'init_kwargs', 'json_key'}
SENTINEL = '<-|CatchAll|->'
CASINGS = ['Camel', 'Pascal', 'Kebab', 'UpperKebab', 'UpperSnake', 'Screaming', 'Snake']


# --------------------------------------------------------------------------- names
def ref_casing(name, c):
    ws = name.split('_')
    cap = [w[0].upper() + w[1:] for w in ws]
    return {'Camel': ws[0] + ''.join(cap[1:]), 'Pascal': ''.join(cap), 'Kebab': '-'.join(ws),
            'UpperKebab': '-'.join(cap), 'UpperSnake': '_'.join(cap), 'Screaming': name.upper(),
            'Snake': name}[c]


def gen_word(r):
    return ''.join(r.choice(string.ascii_lowercase) for _ in range(r.choice([2, 2, 3, 4]))) + \
           ''.join(r.choice(string.digits) for _ in range(r.choice([0, 0, 0, 1])))


def gen_name(r, used):
    while True:
        n = '_'.join(gen_word(r) for _ in range(r.choice([1, 2, 2, 3])))
        if n not in used and n not in RESERVED and not keyword.iskeyword(n):
            used.add(n)
            return n


def gen_key(r, used):
    while True:
        n = ''.join(r.choice(string.ascii_lowercase) for _ in range(r.choice([1, 2, 3]))) + r.choice(['', '1', '_x'])
        if n not in used and n not in RESERVED and not keyword.iskeyword(n):
            used.add(n)
            return n


# --------------------------------------------------------------------------- classes
def gen_level(r, engine, depth, counter, raise_, root):
    counter[0] += 1
    used = set()
    spec = {'name': 'U%d' % counter[0], 'engine': engine, 'raise': raise_, 'tag': None, 'catch': None, 'fields': []}
    shared_top = engine == 'v1' and r.random() < 0.06          # F19 region, generated on purpose (rarely)
    top = gen_key(r, used) if shared_top else None
    for _ in range(r.randint(1, 3)):
        f = {'name': gen_name(r, used), 'kind': 'int', 'default': (-1 if r.random() < 0.3 else None), 'aliases': None, 'path': None}
        if engine == 'v1':
            x = r.random()
            if shared_top:
                f['path'] = [[top, gen_key(r, used)]]
                f['default'] = None       # the sub-path exists whenever the shared top-level key does (model assumption)
            elif x < 0.15:
                f['aliases'] = [gen_key(r, used) for _ in range(r.choice([1, 2, 2, 3]))]
            elif x < 0.27:
                # one or more ALTERNATIVE paths (AliasPath('a.b', 'x.y')) with different top-level keys
                f['path'] = [[gen_key(r, used), gen_key(r, used)] for _ in range(r.choice([1, 2, 2, 3]))]
        spec['fields'].append(f)
    if shared_top and len(spec['fields']) < 2:
        spec['fields'].append({'name': gen_name(r, used), 'kind': 'int', 'default': None, 'aliases': None,
                               'path': [[top, gen_key(r, used)]]})
    if depth > 0 and r.random() < 0.7:
        spec['fields'].append({'name': gen_name(r, used), 'kind': 'nested', 'default': None, 'aliases': None, 'path': None,
                               'cls': gen_level(r, engine, depth - 1, counter, raise_, False)})
    if not raise_ and r.random() < 0.75:
        spec['catch'] = {'name': r.choice(['extras', 'rest', 'unknown_stuff']), 'default': r.random() < 0.5}
    if root and r.random() < 0.4:
        tk = r.choice(['__tag__', '__tag__', 'kind', 'Type'])
        ints = [f['name'] for f in spec['fields'] if f['kind'] == 'int']
        if ints and r.random() < 0.3:
            tk = r.choice(ints)           # Meta.tag_key names one of the class's own fields (upstream issue 148)
        spec['tag'] = {'tag': 'T%d' % counter[0], 'tag_key': tk}
    return spec


def ordered_fields(spec):
    """field_to_parser / dataclass order produced by the runner's build(): spec['order'] when given, else required fields,
    the CatchAll field without default, defaulted fields, the CatchAll field with default"""
    if spec.get('order'):
        return list(spec['order'])
    req = [f['name'] for f in spec['fields'] if f['default'] is None]
    opt = [f['name'] for f in spec['fields'] if f['default'] is not None]
    c = spec['catch']
    if c and not c['default']:
        req.append(c['name'])
    if c and c['default']:
        opt.append(c['name'])
    return req + opt


def field_keys(spec, f):
    """v1: the top-level keys under which the field is looked up"""
    if f['path']:
        return list(dict.fromkeys(p[0] for p in f['path']))
    if f['aliases']:
        return list(f['aliases'])
    return [f['name']]


def v1_aliases(spec):
    out = []
    if v1_tag(spec):
        out.append(spec['tag']['tag_key'])
    for f in spec['fields']:
        out.extend(field_keys(spec, f))
    return out


def v1_tag(spec):
    return bool(spec['tag']) and spec['tag']['tag_key'] not in ordered_fields(spec)


def in_f19_region(spec):
    ks = [k for f in spec['fields'] for k in set(field_keys(spec, f))]
    return spec['engine'] == 'v1' and len(ks) != len(set(ks))


# --------------------------------------------------------------------------- configuration entry points (region A)
ACTION_SPELLINGS = {'RAISE': [{'enum': 'RAISE'}, {'str': 'RAISE'}, {'str': 'raise'}, {'str': 'Raise'}],
                    'IGNORE': [{'enum': 'IGNORE'}, {'str': 'IGNORE'}, {'str': 'ignore'}, {'none': 1}, {'str': ''}],
                    'WARN': [{'enum': 'WARN'}, {'str': 'warn'}, {'str': 'WARN'}]}
RAISE_SPELLINGS = {True: [{'bool': True}, {'int': 1}, {'str': 'yes'}, {'int': 7}],
                   False: [{'bool': False}, {'int': 0}, {'str': ''}, {'none': 1}]}


def ref_action(sp):
    """documented normalisation of a v1_on_unknown_key spelling (independent of the library): KeyAction member or its name in
    any letter case (spaces as underscores); None and '' mean unset"""
    if 'enum' in sp:
        return sp['enum']
    if 'str' in sp and sp['str'] != '':
        return sp['str'].upper().replace(' ', '_')
    return None


def ref_truthy(sp):
    return bool(sp.get('bool', False)) or bool(sp.get('int', 0)) or bool(sp.get('str', ''))


def ref_effective(ops):
    """(v1 policy name or None, raise flag): the LAST explicitly written value of each setting wins"""
    act, rz = None, False
    for op in ops:
        if 'action' in op:
            act = ref_action(op['action'])
        if 'raise' in op:
            rz = ref_truthy(op['raise'])
    return act, rz


def gen_binds(r, engine, want_raise):
    """a bind program in execution order: [JSONPyWizard's implicit DumpMeta], [inner Meta], LoadMeta / DumpMeta binds; every
    Meta that can carry load settings writes each of the two policy settings or not, in a random spelling; a final bind
    restores the wanted policy when the random program configured the other one"""
    base = r.choice(['plain', 'plain', 'wizard', 'wizard', 'pywizard'])
    ops = []
    if base == 'pywizard':
        ops.append({'via': 'implicit'})
    if base != 'plain' and r.random() < 0.65:
        ops.append({'via': 'inner'})
    for _ in range(r.choice([0, 1, 1, 2, 3]) if ops else r.choice([1, 1, 2, 3])):
        ops.append({'via': r.choice(['load', 'load', 'load', 'dump'])})
    if not any(op['via'] in ('inner', 'load') for op in ops):
        ops.append({'via': 'load'})
    for op in ops:
        if op['via'] in ('inner', 'load'):
            if r.random() < (0.6 if engine == 'v1' else 0.25):
                op['action'] = r.choice(ACTION_SPELLINGS[r.choice(['RAISE', 'RAISE', 'IGNORE', 'WARN'])])
            if r.random() < (0.6 if engine == 'v0' else 0.25):
                op['raise'] = r.choice(RAISE_SPELLINGS[r.random() < 0.5])
    act, rz = ref_effective(ops)
    have = (act == 'RAISE') if engine == 'v1' else rz
    if have != want_raise:
        fix = {'via': 'load'}
        if engine == 'v1':
            fix['action'] = r.choice(ACTION_SPELLINGS['RAISE' if want_raise else r.choice(['IGNORE', 'WARN'])])
        else:
            fix['raise'] = r.choice(RAISE_SPELLINGS[want_raise])
        ops.append(fix)
    return {'base': base, 'ops': ops}


def systematic_binds():
    """entry point x spelling x bind position, for the RAISE policy of each engine: the policy is written by the 1st, 2nd or 3rd
    bind, in every spelling, after binds that write nothing / the opposite policy"""
    out = []
    for engine in ('v0', 'v1'):
        spellings = ACTION_SPELLINGS['RAISE'] if engine == 'v1' else RAISE_SPELLINGS[True]
        key = 'action' if engine == 'v1' else 'raise'
        opposite = ({'str': 'ignore'}, {'enum': 'IGNORE'}) if engine == 'v1' else ({'bool': False}, {'int': 0})
        n = 0
        for base in ('plain', 'wizard', 'pywizard'):
            for pos in (0, 1, 2):
                for sp in spellings:
                    n += 1
                    ops = [{'via': 'implicit'}] if base == 'pywizard' else []
                    prior = []
                    if pos >= 1:
                        prior.append({'via': 'inner'} if base != 'plain' and n % 2 else {'via': 'load'})
                    if pos >= 2:
                        prior.append({'via': 'dump'} if n % 3 == 0 else {'via': 'load', key: opposite[n % 2]})
                    if pos >= 1 and n % 4 == 0 and prior[0]['via'] != 'dump':
                        prior[0][key] = opposite[n % 2]
                    final = {'via': 'inner' if (pos == 0 and base != 'plain' and n % 2) else 'load', key: sp}
                    out.append((engine, {'base': base, 'ops': ops + prior + [final]}))
    return out


def finish_binds(spec):
    """engine / tag settings travel in the first Meta that can carry load settings"""
    first = next(op for op in spec['binds']['ops'] if op['via'] in ('inner', 'load'))
    extra = {}
    if spec['engine'] == 'v1':
        extra['v1'] = True
    if spec.get('tag'):
        extra['tag'] = spec['tag']['tag']
        if spec['tag'].get('tag_key'):
            extra['tag_key'] = spec['tag']['tag_key']
    first['extra'] = extra

    def down(sp):
        for f in sp['fields']:
            if f['kind'] == 'nested':
                f['cls']['rootbinds'] = spec['binds']
                down(f['cls'])
    down(spec)


# --------------------------------------------------------------------------- classification (reference)
def strip_key(k):
    return ''.join(c for c in k.lower() if c not in '_- ')


def classify_v0(spec, k, model_says=None):
    """'tag' | ('field', name) | 'unknown' | 'ask' (ambiguous: the Coq resolution model decides)"""
    names = ordered_fields(spec)
    if spec['tag'] and k == spec['tag']['tag_key'] and k not in names:
        return 'tag'
    if k in names:
        return ('field', k)
    for f in names:
        if k in {ref_casing(f, c) for c in CASINGS}:
            return ('field', f)          # a documented spelling of a canonical name (C08)
    if strip_key(k) not in {strip_key(f) for f in names}:
        return 'unknown'
    if model_says is not None:
        key = (tuple(names), k)
        if key in model_says:
            return ('field', model_says[key]) if model_says[key] is not None else 'unknown'
    return 'ask'


def classify_v1(spec, k):
    if v1_tag(spec) and k == spec['tag']['tag_key']:
        return 'tag'
    for f in spec['fields']:
        if k in field_keys(spec, f):
            return ('field', f['name'])
    return 'unknown'


def classify(spec, k, model_says=None):
    return classify_v1(spec, k) if spec['engine'] == 'v1' else classify_v0(spec, k, model_says)


# --------------------------------------------------------------------------- documents
EXTRA_VALUES = [0, 7, 'v', '', None, True, [1, 2], {'a_b': 1, 'cD': [2]}, 3.5, [], {}]
NONIDENT = ['x-y z', '1abc', '', 'a.b', 'with space', "quo'te", 'dq"x', '$ref', 'ключ', 'tab\tk',
            'CAPS LOCK', '__', '-', '_', 'a' * 40, '{}', 'new\nline', '\\', '[0]']


def near_miss(r, spec):
    names = [f['name'] for f in spec['fields']]
    base = ref_casing(r.choice(names), r.choice(CASINGS))
    op = r.choice(['ins', 'del', 'sub', 'sep', 'dup'])
    i = r.randrange(len(base))
    if op == 'ins':
        return base[:i] + r.choice('xq9_-') + base[i:]
    if op == 'del' and len(base) > 1:
        return base[:i] + base[i + 1:]
    if op == 'sub':
        return base[:i] + r.choice('xq9Z') + base[i + 1:]
    if op == 'sep':
        return base + r.choice(['_', '-', '__', ' '])
    return base[:i] + base[i] + base[i:]


def gen_extra_key(r, spec):
    x = r.random()
    if x < 0.30:
        return 'rand', gen_key(r, set())
    if x < 0.62:
        return 'near', near_miss(r, spec)
    if x < 0.72:
        return 'tagkey', (spec['tag']['tag_key'] if spec['tag'] and r.random() < 0.5 else '__tag__')
    if x < 0.97:
        return 'nonident', r.choice(NONIDENT)
    return 'sentinel', SENTINEL


def gen_base_doc(r, spec):
    doc = {}
    for f in spec['fields']:
        if f['default'] is not None and r.random() < 0.3:
            continue
        if f['kind'] == 'nested':
            val = gen_base_doc(r, f['cls'])
        else:
            val = r.randint(0, 99)
        if spec['engine'] == 'v1':
            if f['path']:
                alts = list(f['path'])
                first = r.choice(alts)
                doc.setdefault(first[0], {})[first[1]] = val
                if len(alts) > 1 and r.random() < 0.2:      # a second alternative too (the first in declaration order wins)
                    other = r.choice([a for a in alts if a is not first])
                    doc.setdefault(other[0], {})[other[1]] = (val if alts.index(other) > alts.index(first) else r.randint(100, 199))
                    if alts.index(other) < alts.index(first):
                        doc[other[0]][other[1]], doc[first[0]][first[1]] = val, r.randint(100, 199)
            elif f['aliases']:
                ks = list(f['aliases'])
                if len(ks) == 2 and r.random() < 0.25:
                    doc[ks[0]] = val; doc[ks[1]] = r.randint(100, 199)     # both aliases present (F16 region, fixed)
                else:
                    doc[r.choice(ks)] = val
            else:
                doc[f['name']] = val
        else:
            doc[ref_casing(f['name'], r.choice(CASINGS)) if r.random() < 0.5 else f['name']] = val
    if spec['tag'] and r.random() < 0.7 and spec['tag']['tag_key'] not in ordered_fields(spec):
        doc[spec['tag']['tag_key']] = spec['tag']['tag']
    if r.random() < 0.3:
        ks = list(doc); r.shuffle(ks); doc = {k: doc[k] for k in ks}
    return doc


def add_extras(r, spec, doc, pending, stats):
    """insert 0-3 extra keys at this level (and recursively); ambiguous near-misses are recorded in `pending`"""
    out = dict(doc)
    for _ in range(r.choice([0, 1, 1, 2, 3])):
        kind, k = gen_extra_key(r, spec)
        if k in out:
            continue
        c = classify(spec, k)
        if c == 'ask':
            pending.append((spec, k))
        elif c != 'unknown' and not (kind == 'tagkey' and c == 'tag'):
            continue                      # hits a field: not an extra key
        items = list(out.items())
        items.insert(r.randint(0, len(items)), (k, copy.deepcopy(r.choice(EXTRA_VALUES))))
        out = dict(items)
        stats.append(kind)
    for f in spec['fields']:
        if f['kind'] == 'nested':
            for k in list(out):
                if classify(spec, k) == ('field', f['name']) and isinstance(out[k], dict):
                    out[k] = add_extras(r, f['cls'], out[k], pending, stats)
    return out


def drop_known_extras(spec, doc, model_says):
    """after phase 0: remove the ambiguous extra keys (near-misses whose separator-free form equals a field's) that the
    resolution model maps to a field: they do not miss every field, so they are not in the property's U"""
    out = {}
    for k, v in doc.items():
        c = classify(spec, k)
        if c == 'ask':
            if classify(spec, k, model_says) != 'unknown':
                continue
        elif isinstance(c, tuple):
            f = next((f for f in spec['fields'] if f['name'] == c[1]), None)
            if f and f['kind'] == 'nested' and isinstance(v, dict):
                v = drop_known_extras(f['cls'], v, model_says)
        out[k] = v
    return out


# --------------------------------------------------------------------------- reference semantics
class RefError(Exception):
    def __init__(self, cls, keys):
        self.cls, self.keys = cls, keys


def level_unknown(spec, doc, ms):
    return [k for k in doc if classify(spec, k, ms) == 'unknown']


def ref_load(spec, doc, ms):
    """independent reference: instance view, raising RefError(class, unknown keys of that level)"""
    unknown = level_unknown(spec, doc, ms)
    fields = {}
    by_name = {f['name']: f for f in spec['fields']}

    def value_of(f, v):
        if f['kind'] == 'nested':
            return ref_load(f['cls'], v, ms)
        return str(v)
    if spec['engine'] == 'v0':
        for k, v in doc.items():
            c = classify(spec, k, ms)
            if c == 'unknown' and spec['raise']:
                raise RefError(spec['name'], [k])
            if isinstance(c, tuple) and c[1] in by_name:
                fields[c[1]] = value_of(by_name[c[1]], v)
    else:
        for f in spec['fields']:
            if f['path']:
                for p in f['path']:       # alternatives in declaration order
                    if isinstance(doc.get(p[0]), dict) and p[1] in doc[p[0]]:
                        fields[f['name']] = value_of(f, doc[p[0]][p[1]])
                        break
                continue
            for k in field_keys(spec, f):
                if k in doc:
                    fields[f['name']] = value_of(f, doc[k])
                    break
        if unknown and spec['raise'] and not spec['catch']:
            raise RefError(spec['name'], sorted(unknown))
    view = {'cls': spec['name'], 'fields': {f['name']: fields.get(f['name'], 'DEFAULT') for f in spec['fields']}, 'catch': None}
    if spec['catch']:
        if unknown or not spec['catch']['default']:
            view['catch'] = {'items': [[k, doc[k]] for k in unknown]}
        else:
            view['catch'] = {'default': True}
    return view


def all_unknown_levels(spec, doc, ms, acc):
    u = level_unknown(spec, doc, ms)
    if u:
        acc.append((spec['name'], u))
    for f in spec['fields']:
        if f['kind'] == 'nested':
            for k, v in doc.items():
                if classify(spec, k, ms) == ('field', f['name']) and isinstance(v, dict):
                    all_unknown_levels(f['cls'], v, ms, acc)
    return acc


def impl_view(res_view, spec):
    """normalise the runner's view: ints as text, default (-1) as DEFAULT"""
    if not isinstance(res_view, dict) or 'bad' in res_view:
        return {'bad': res_view}
    out = {'cls': res_view['cls'], 'fields': {}, 'catch': res_view.get('catch')}
    for f in spec['fields']:
        v = res_view['fields'].get(f['name'])
        if f['kind'] == 'nested' and isinstance(v, dict) and 'cls' in v:
            out['fields'][f['name']] = impl_view(v, f['cls'])
        elif isinstance(v, dict) and 'int' in v:
            out['fields'][f['name']] = 'DEFAULT' if (f['default'] is not None and v['int'] == str(f['default'])) else v['int']
        else:
            out['fields'][f['name']] = {'bad': v}
    return out


def dump_level(dump, spec, path):
    d = dump
    for name in path:
        if not isinstance(d, dict):
            return None
        d = d.get(ref_casing(name, 'Camel')) if ref_casing(name, 'Camel') in d else d.get(name)
    return d


def check_dump(spec, view, dump, path=()):
    """to_dict(from_dict(d)) contains every captured pair unchanged, at the level where it was captured"""
    if view.get('catch') and 'items' in view['catch']:
        d = dump_level(dump, spec, path)
        if not isinstance(d, dict):
            return 'dump of level %s is not a dict' % '/'.join(path)
        normal = {strip_key(x) for x in ordered_fields(spec) + (v1_aliases(spec) if spec['engine'] == 'v1' else [])}
        for k, v in view['catch']['items']:
            if strip_key(k) in normal:
                continue      # normalises to a field name: outside the property's U (can collide with a dump key)
            if k not in d or d[k] != v or type(d[k]) is not type(v):
                return 'captured pair %r: %r missing from / changed in to_dict output %r' % (k, v, d)
    for f in spec['fields']:
        if f['kind'] == 'nested' and isinstance(view['fields'].get(f['name']), dict) and not f['path'] and not f['aliases']:
            items = (view.get('catch') or {}).get('items') or []
            if any(strip_key(k) == strip_key(f['name']) for k, _ in items):
                continue      # a captured key that normalises to this field's name (outside U) collides with its dump key
            bad = check_dump(f['cls'], view['fields'][f['name']], dump, path + (f['name'],))
            if bad:
                return bad
    return None


def direct_predicate(spec, doc, res, ms):
    if not res.get('input_unchanged', True):
        return 'the input document was mutated'
    try:
        exp = ref_load(spec, doc, ms)
    except RefError as e:
        levels = all_unknown_levels(spec, doc, ms, [])
        if 'ok' in res:
            return 'unknown keys %r under the raise policy, but the load succeeded' % (levels,)
        if res.get('err') != 'UnknownKeysError':
            return 'unknown keys %r under the raise policy, but %s was raised: %s' % (levels, res.get('err'), res.get('msg'))
        if not res.get('renders'):
            return 'UnknownKeysError message cannot be rendered'
        ok = any(res.get('class_name') == cn and res.get('unknown_keys') and set(res['unknown_keys']) <= set(u) for cn, u in levels)
        if not ok:
            return 'UnknownKeysError(%r, class %s) names no unknown key of any level %r' % (res.get('unknown_keys'), res.get('class_name'), levels)
        return None
    if 'ok' not in res:
        return 'expected a successful load, got %s: %s' % (res.get('err'), res.get('msg'))
    got = impl_view(res['ok'], spec)

    def cmp(g, x, where):
        if not isinstance(g, dict) or g.get('cls') != x['cls']:
            return '%s: loaded %r' % (where, g)
        for k, v in x['fields'].items():
            gv = g['fields'].get(k)
            if isinstance(v, dict):
                if not isinstance(gv, dict):
                    return '%s.%s: %r, expected a nested instance' % (where, k, gv)
                bad = cmp(gv, v, where + '.' + k)
                if bad:
                    return bad
            elif gv != v:
                return '%s: mapped field %s = %r, expected %r' % (where, k, gv, v)
        gc, xc = g.get('catch'), x.get('catch')
        if (gc is None) != (xc is None):
            return '%s: catch-all %r, expected %r' % (where, gc, xc)
        if xc is not None:
            if 'default' in xc:
                if gc != xc:
                    return '%s: catch-all %r, expected the default to be kept' % (where, gc)
            else:
                if 'items' not in gc or sorted(map(json.dumps, gc['items'])) != sorted(map(json.dumps, xc['items'])):
                    return '%s: catch-all %r, expected exactly %r' % (where, gc, xc)
        return None
    bad = cmp(got, exp, spec['name'])
    if bad:
        return bad
    if 'dump_err' in res:
        return 'to_dict of the loaded instance failed: %s' % res['dump_err'].get('err')
    return check_dump(spec, exp, res.get('dump'))


def region_of(spec, doc, ms, alone=None):
    """open finding whose region contains this input, or None"""
    for f in spec['fields']:
        # per KEY: the nested class, used alone before, negatively cached exactly these unknown keys
        if spec['engine'] == 'v0' and spec['raise'] and f['kind'] == 'nested' and alone and f['name'] in alone:
            seen = set(level_unknown(f['cls'], alone[f['name']], ms))
            for k, v in doc.items():
                if classify(spec, k, ms) == ('field', f['name']) and isinstance(v, dict):
                    u = level_unknown(f['cls'], v, ms)
                    if u and set(u) <= seen and not level_unknown(spec, doc, ms):
                        return 'F10-C10-alone-first-negative-cache'

    def walk(s, d):
        if s['engine'] == 'v1' and in_f19_region(s) and level_unknown(s, d, ms):
            return 'F19-v1-shared-top-level-key'
        if s['engine'] == 'v0' and s['catch'] and SENTINEL in d:
            return 'F41-catchall-sentinel-key'
        for f in s['fields']:
            if f['kind'] == 'nested':
                for k, v in d.items():
                    if classify(s, k, ms) == ('field', f['name']) and isinstance(v, dict):
                        r = walk(f['cls'], v)
                        if r:
                            return r
        return None
    return walk(spec, doc)


# --------------------------------------------------------------------------- Coq terms
PRELUDE = '''
Definition tconv (tbl : list (pstr * cres pstr)) (f r : pstr) : cres pstr :=
  match assoc r tbl with Some x => x | None => CVal r end.
Definition show_kw (kv : pstr * kwval pstr pstr) : pstr :=
  hex (fst kv) ++ S "=" ++
  match snd kv with
  | KV v => S "V" ++ hex v
  | KCatch items => S "C" ++ join (S "+") (map (fun it => hex (fst it) ++ S "~" ++ hex (snd it)) items)
  end.
Definition show_err (e : uerr) : pstr :=
  match e with
  | UUnknown cn ks => S "U:" ++ cn ++ S ":" ++ join (S ",") (map hex ks)
  | UParse cn fn => S "P:" ++ cn ++ S ":" ++ fn
  | UKeyError k => S "K:" ++ hex k
  end.
Definition show_out (o : outcome pstr pstr) : pstr :=
  match o with OKCall kw => S "O:" ++ join (S ",") (map show_kw kw) | Fail e => show_err e end.
Definition run0 tbl c (docs : list (doc pstr)) : pstr :=
  join (S "|") (map show_out (v0_run (tconv tbl) c (init_cache c) docs)).
Definition run1 tbl c (docs : list (doc pstr)) : pstr :=
  join (S "|") (map (fun d => show_out (v1_load (tconv tbl) c d)) docs).
Definition run0p tbl cpre (dpre : doc pstr) c (docs : list (doc pstr)) : pstr :=
  join (S "|") (map show_out (v0_run (tconv tbl) c (fst (v0_load (tconv tbl) cpre (init_cache cpre) dpre)) docs)).
Definition cfg1 (bs : list metadict) (c : v1cls) : v1cls :=
  match v1_configured c bs with Some c' => c' | None => v1_with_policy c PWarn end.
Definition cfg0 (bs : list metadict) (c : v0cls) : v0cls :=
  match v0_configured c bs with Some c' => c' | None => c end.
Definition show_gout (g : gout pstr pstr) : pstr :=
  match g with GOut o => show_out o | GTypeError p => S "T:" ++ hex p | GValueError => S "G:" end.
Definition rung (src : v1src) (pols : list v1policy) (ops : list (nat * doc pstr)) : pstr :=
  join (S "|") (map show_gout (g_run (tconv []) src (fun r => nth r pols PIgnore) (g_init src)
                                     (map (fun ro => OpLoad (fst ro) (snd ro)) ops))).
Fixpoint op_run0 (c : v0cls) (st : cache) (docs : list (doc pstr)) : cache * list pstr :=
  match docs with
  | [] => (st, [])
  | d :: r => let '(st1, o) := v0_load (tconv []) c st d in
              match o with
              | OKCall _ => let '(st2, os) := op_run0 c st1 r in (st2, show_out o :: os)
              | Fail _ => (st1, [show_out o])
              end
  end.
Fixpoint run0m_go (cs : list v0cls) (c0 : v0cls) (st : cache) (ops : list (nat * list (doc pstr))) : list pstr :=
  match ops with
  | [] => []
  | (r, docs) :: rest => let '(st1, os) := op_run0 (nth r cs c0) st docs in join (S ";") os :: run0m_go cs c0 st1 rest
  end.
Definition run0m (cs : list v0cls) (ops : list (nat * list (doc pstr))) : pstr :=
  match cs with [] => S "" | c0 :: _ => join (S "|") (run0m_go cs c0 (init_cache c0) ops) end.
Definition ctest_tbl (tbl : list ((nat * pstr) * option bool)) (c : nat) (f : pstr) : option bool :=
  match find (fun e => Nat.eqb (fst (fst e)) c && pstr_eqb (snd (fst e)) f) tbl with Some e => snd e | None => None end.
Definition show_xval (v : xval pstr pstr) : pstr :=
  match v with
  | XField (KV x) => S "F" ++ hex x
  | XField (KCatch _) => S "F" ++ hex (S "null")
  | XRaw r => S "R" ++ hex r
  | XTag t => S "T" ++ hex t
  end.
Definition rundump (tbl : list ((nat * pstr) * option bool)) (isd names : list pstr) (dkeys : list (pstr * pstr)) (cf : pstr)
           (dflts : list pstr) (skip_if sdi : option nat) (own : list (pstr * nat)) (exclude : option (list pstr)) (sd : bool)
           (inst : list (pstr * kwval pstr pstr)) : pstr :=
  let cfg := {| dc_fields := names; dc_key := fun f => match assoc f dkeys with Some k => k | None => f end;
                dc_catch := Some cf; dc_has_default := fun f => mem_str f dflts; dc_skip_if := skip_if;
                dc_skip_defaults_if := sdi; dc_field_skip := fun f => assoc f own; dc_tag := None |} in
  match dump_cfg (ctest_tbl tbl) (fun f => mem_str f isd) cfg {| da_exclude := exclude; da_skip_defaults := sd |} inst with
  | None => S "ERR"
  | Some pairs => join (S ",") (map (fun kv => hex (fst kv) ++ S "=" ++ show_xval (snd kv)) (to_dict pairs))
  end.
Definition res0 (fs : list pstr) (k : pstr) : pstr :=
  match resolve_key_v0 fs k with Some f => S "S" ++ hex f | None => S "N" end.
'''


def coq_opt(x):
    return 'None' if x is None else '(Some %s)' % x


def coq_pyv(sp):
    if 'enum' in sp:
        return '(PvAction %s)' % {'RAISE': 'PRaise', 'IGNORE': 'PIgnore', 'WARN': 'PWarn'}[sp['enum']]
    if 'str' in sp:
        return '(PvStr %s)' % coq_str(sp['str'])
    if 'bool' in sp:
        return '(PvBool %s)' % ('true' if sp['bool'] else 'false')
    if 'int' in sp:
        return '(PvInt %d%%N)' % sp['int']
    return 'PvNone'


def coq_binds(binds):
    return coq_list(['{| md_action := %s; md_raise := %s |}' % (coq_opt(coq_pyv(op['action']) if 'action' in op else None),
                                                                 coq_opt(coq_pyv(op['raise']) if 'raise' in op else None))
                     for op in binds['ops']])


def coq_cls(spec, configured=True):
    """the class as the model sees it; when the case has a bind program the policy is COMPUTED by the model from the binds
    (FieldsUnknown.v1_configured / v0_configured), for nested levels from the root's binds (cascade)"""
    c = spec['catch']
    catch = coq_opt('(%s, %s)' % (coq_str(c['name']), 'true' if c['default'] else 'false') if c else None)
    binds = (spec.get('binds') or spec.get('rootbinds')) if configured else None
    if spec['engine'] == 'v0':
        t = ('{| c_name := %s; c_fields := %s; c_catch := %s; c_tag := %s; c_raise := %s |}' %
             (coq_str(spec['name']), coq_list([coq_str(n) for n in ordered_fields(spec)]), catch,
              coq_opt(coq_str(spec['tag']['tag_key']) if spec['tag'] else None),
              'false' if binds else ('true' if spec['raise'] else 'false')))
        return '(cfg0 %s %s)' % (coq_binds(binds), t) if binds else t
    fs = ['(%s, %s)' % (coq_str(f['name']), coq_list([coq_str(k) for k in field_keys(spec, f)])) for f in spec['fields']]
    t = ('{| d_name := %s; d_fields := %s; d_catch := %s; d_tag := %s; d_policy := %s |}' %
         (coq_str(spec['name']), coq_list(fs), catch,
          coq_opt(coq_str(spec['tag']['tag_key']) if v1_tag(spec) else None),
          'PIgnore' if binds else ('PRaise' if spec['raise'] else 'PIgnore')))
    return '(cfg1 %s %s)' % (coq_binds(binds), t) if binds else t


def raw_of(v):
    return json.dumps(v, sort_keys=False, ensure_ascii=True)


def level_docs(spec, loads, ms):
    """model input of one level: per load the flat doc (values as raw text; a nested field's value is '@<load index>')
    and the nested (field, child doc) pairs"""
    flat, children = [], []
    for j, d in enumerate(loads):
        items, ch = [], {}
        for k, v in d.items():
            c = classify(spec, k, ms)
            f = next((f for f in spec['fields'] if isinstance(c, tuple) and f['name'] == c[1]), None)
            if f is not None and f['kind'] == 'nested' and isinstance(v, dict) and not f['path']:
                items.append((k, '@%d' % j)); ch[f['name']] = v
            elif f is not None and f['path'] and spec['engine'] == 'v1':
                items.append((k, raw_of(v)))          # the conversion of a path field extracts the sub-key (table below)
            else:
                items.append((k, raw_of(v)))
        flat.append(items); children.append(ch)
    return flat, children


def coq_docs(flat):
    return coq_list([coq_list(['(%s, %s)' % (coq_str(k), coq_str(v)) for k, v in items]) for items in flat])


def parse_out(s):
    if s.startswith('O:'):
        kw = {}
        body = s[2:]
        for part in (body.split(',') if body else []):
            k, v = part.split('=', 1)
            k = bytes.fromhex(k).decode()
            if v.startswith('V'):
                kw[k] = ('V', bytes.fromhex(v[1:]).decode())
            else:
                items = []
                for it in (v[1:].split('+') if v[1:] else []):
                    a, b = it.split('~')
                    items.append([bytes.fromhex(a).decode(), bytes.fromhex(b).decode()])
                kw[k] = ('C', items)
        return {'ok': kw}
    if s.startswith('U:'):
        return parse_unknown(s)
    if s.startswith('K:'):
        return {'err': 'KeyError', 'key': bytes.fromhex(s[2:]).decode()}
    return {'err': 'ParseError', 'raw': s}


def parse_unknown(s):
    _, cn, ks = s.split(':', 2)
    return {'err': 'UnknownKeysError', 'class_name': cn, 'unknown_keys': sorted(bytes.fromhex(x).decode() for x in ks.split(','))}


def model_view(out, spec, child_views, doc=None):
    """instance view from the model's kwargs (one level); child_views: field name -> view of the nested level;
    doc: the loaded document of this level (a path field's conversion extracts the sub-key of the first
    alternative whose top-level key is present)"""
    kw = out['ok']
    v = {'cls': spec['name'], 'fields': {}, 'catch': None}
    for f in spec['fields']:
        if f['name'] in kw and kw[f['name']][0] == 'V':
            raw = kw[f['name']][1]
            if f['kind'] == 'nested':
                v['fields'][f['name']] = child_views.get(f['name'], {'bad': raw})
            elif f['path'] and spec['engine'] == 'v1':
                try:
                    p0 = next(p for p in f['path'] if doc is not None and p[0] in doc)
                    v['fields'][f['name']] = str(json.loads(raw)[p0[1]])
                except Exception:
                    v['fields'][f['name']] = {'bad': raw}
            else:
                v['fields'][f['name']] = raw
        else:
            v['fields'][f['name']] = 'DEFAULT'
    c = spec['catch']
    if c:
        if c['name'] in kw and kw[c['name']][0] == 'C':
            v['catch'] = {'items': [[k, json.loads(x)] for k, x in kw[c['name']][1]]}
        elif c['name'] in kw:
            v['catch'] = {'bad': kw[c['name']]}
        elif c.get('factory'):
            v['catch'] = {'items': []}            # not passed: the constructor calls default_factory=dict
        else:
            v['catch'] = {'default': True}
    return v


def impl_compare_view(res, spec):
    """the implementation's outcome in the model's vocabulary"""
    if 'ok' in res:
        return {'ok': impl_view(res['ok'], spec)}
    if res.get('err') == 'UnknownKeysError':
        return {'err': 'UnknownKeysError', 'class_name': res.get('class_name'), 'unknown_keys': sorted(res.get('unknown_keys') or [])}
    if res.get('err') == 'KeyError':
        return {'err': 'KeyError', 'key': (res.get('msg') or '').strip("'")}
    return {'err': res.get('err')}


# --------------------------------------------------------------------------- region B: generations
POSITIONS = ['plain', 'list', 'dict', 'opt']


def gen_world(r, counter, forced=None):
    """ONE class whose loader is generated several times: alone and nested under 1-2 roots (plain / list / dict / Optional
    position), in every order of first use; CatchAll field (none / required / plain default / default_factory) at a random
    place among the fields of its kind"""
    counter[0] += 1
    engine = forced['engine'] if forced else r.choice(['v0', 'v1'])
    used = set()
    inner = {'name': 'G%d' % counter[0], 'engine': engine, 'raise': False, 'tag': None, 'catch': None, 'fields': []}
    for _ in range(r.randint(1, 3)):
        f = {'name': gen_name(r, used), 'kind': 'int', 'default': (-1 if r.random() < 0.45 else None), 'aliases': None, 'path': None}
        if engine == 'v1' and r.random() < 0.15:
            f['aliases'] = [gen_key(r, used) for _ in range(r.choice([1, 2]))]
        inner['fields'].append(f)
    req = [f['name'] for f in inner['fields'] if f['default'] is None]
    opt = [f['name'] for f in inner['fields'] if f['default'] is not None]
    kind = forced['kind'] if forced else r.choice(['none', 'none', 'required', 'default', 'default', 'factory'])
    if forced and kind == 'factory' and not opt:
        inner['fields'][-1]['default'] = -1                      # former F91 region: a defaulted field BEFORE the CatchAll field
        req = [f['name'] for f in inner['fields'] if f['default'] is None]
        opt = [f['name'] for f in inner['fields'] if f['default'] is not None]
    if kind != 'none':
        cname = r.choice(['extras', 'rest', 'unknown_stuff'])
        inner['catch'] = {'name': cname, 'default': kind == 'default', 'factory': kind == 'factory'}
        if forced and kind == 'factory':
            opt.append(cname)
        else:
            (req if kind == 'required' else opt).insert(r.randint(0, len(req if kind == 'required' else opt)), cname)
    inner['order'] = req + opt
    roots = []
    for i in range(2 if forced else r.choice([1, 2, 2])):
        roots.append({'name': 'R%d_%d' % (counter[0], i), 'pos': r.choice(POSITIONS),
                      'raise': (inner['catch'] is None and r.random() < 0.5)})
    return {'inner': inner, 'roots': roots, 'ops': []}


def gen_world_ops(r, w, pending, order=None):
    inner = w['inner']
    ids = [-1] + list(range(len(w['roots'])))
    r.shuffle(ids)                                  # order of FIRST use
    if order is not None:
        ids = list(order)
    elif r.random() < 0.25:
        ids = [i for i in ids if i >= 0] or ids     # never used alone
    seq = list(ids) + [r.choice(ids) for _ in range(r.choice([0, 1, 2, 3]))]
    pool = []
    for _ in range(r.choice([1, 2, 2])):
        d = add_extras(r, inner, gen_base_doc(r, inner), pending, [])
        d.pop(SENTINEL, None)
        pool.append(d)
    pool.append(gen_base_doc(r, inner))
    for i in seq:
        n = 1 if (i < 0 or w['roots'][i]['pos'] in ('plain', 'opt')) else r.choice([1, 2, 2])
        w['ops'].append({'root': i, 'docs': [copy.deepcopy(r.choice(pool)) for _ in range(n)]})


def root_policy(w, i):
    return i >= 0 and bool(w['roots'][i]['raise'])


def in_f91_region(spec):
    """the FORMER F91 region (fixed by d23b12f; generated on purpose so that a regression gives a concrete input):
    v1, CatchAll field with a default_factory declared after a defaulted field"""
    c = spec.get('catch')
    if spec['engine'] != 'v1' or not c or not c.get('factory'):
        return False
    order = ordered_fields(spec)
    dflt = {f['name'] for f in spec['fields'] if f['default'] is not None}
    return any(n in dflt for n in order[:order.index(c['name'])])


def coq_src(spec):
    c = spec['catch']
    by = {f['name']: f for f in spec['fields']}
    items = []
    for n in ordered_fields(spec):
        if c and n == c['name']:
            items.append('{| if_name := %s; if_keys := [%s]; if_default := %s |}' %
                         (coq_str(n), coq_str(n), 'true' if (c['default'] or c.get('factory')) else 'false'))
        else:
            f = by[n]
            items.append('{| if_name := %s; if_keys := %s; if_default := %s |}' %
                         (coq_str(n), coq_list([coq_str(k) for k in field_keys(spec, f)]), 'true' if f['default'] is not None else 'false'))
    # the CATCH_ALL marker is COMPUTED by the model from the field table (FieldsUnknown.class_marker: '?' iff the field has a
    # default or a default_factory — class_helper after fix d23b12f)
    return '(mk_src %s %s %s None)' % (coq_str(spec['name']), coq_list(items), coq_opt(coq_str(c['name']) if c else None))


def gen_model_expr(w, ms):
    inner = w['inner']
    pols = ['PIgnore'] + ['PRaise' if rt['raise'] else 'PIgnore' for rt in w['roots']]
    if inner['engine'] == 'v1':
        ops = []
        for op in w['ops']:
            flat, _ = level_docs(inner, op['docs'], ms)
            for items in flat:
                ops.append('(%d, %s)' % (op['root'] + 1, coq_list(['(%s, %s)' % (coq_str(k), coq_str(v)) for k, v in items])))
        return 'rung %s %s %s' % (coq_src(inner), coq_list(pols), coq_list(ops))
    classes = [coq_cls(dict(inner, **{'raise': p == 'PRaise'}), configured=False) for p in pols]
    ops = []
    for op in w['ops']:
        flat, _ = level_docs(inner, op['docs'], ms)
        ops.append('(%d, %s)' % (op['root'] + 1, coq_docs(flat)))
    return 'run0m %s %s' % (coq_list(classes), coq_list(ops))


def parse_gout(s):
    if s.startswith('T:'):
        return {'err': 'TypeError', 'param': bytes.fromhex(s[2:]).decode()}
    if s.startswith('G:'):
        return {'err': 'ValueError'}
    return parse_out(s) if not s.startswith('U:') else parse_unknown(s)


def check_gen_world(ctx, w, results, mline, ms, resolved):
    """direct predicate (every inner load = the reference of a PRISTINE class under its root's policy) + correspondence"""
    inner = w['inner']
    v1 = inner['engine'] == 'v1'
    seen_lax = set()          # unknown keys negatively cached by loads under an ignore-policy generation (default engine)
    # model outcomes: v1 one per inner doc (pure, all evaluated); v0 per op, aborted at the first failure
    if mline is not None:
        if v1:
            flat_out = mline.split('|') if mline else []
            it = iter(flat_out)
            mops = [[next(it) for _ in op['docs']] for op in w['ops']]
        else:
            mops = [seg.split(';') for seg in mline.split('|')]
    sig = json.dumps({k: w[k] for k in ('inner', 'roots')}, sort_keys=True)
    for oi, (op, res) in enumerate(zip(w['ops'], results)):
        spec = dict(inner, **{'raise': root_policy(w, op['root'])})
        exp, first_bad = [], None
        for j, d in enumerate(op['docs']):
            try:
                exp.append(ref_load(spec, d, ms))
            except RefError as e:
                first_bad = (j, e)
                break
        nontriv = any(level_unknown(spec, d, ms) for d in op['docs'])
        ctx.count(1, key='g:%s|%d|%s' % (sig, oi, json.dumps(w['ops'][:oi + 1])), nontrivial=nontriv)
        ctx.hist('gen_outcome', inner['engine'] + '/' + ('ok' if 'ok' in res else res.get('err', '?')))
        bad = None
        if not res.get('input_unchanged', True):
            bad = 'the input document was mutated'
        elif first_bad is not None:
            j, e = first_bad
            u = level_unknown(spec, op['docs'][j], ms)
            if 'ok' in res:
                bad = 'unknown keys %r of class %s under the raise policy of the root, but the load succeeded' % (u, inner['name'])
            elif res.get('err') != 'UnknownKeysError':
                bad = 'unknown keys %r under the raise policy, but %s was raised: %s' % (u, res.get('err'), res.get('msg'))
            elif not res.get('renders'):
                bad = 'UnknownKeysError message cannot be rendered'
            elif not (res.get('class_name') == inner['name'] and res.get('unknown_keys') and set(res['unknown_keys']) <= set(u)):
                bad = 'UnknownKeysError(%r, class %s) names no unknown key of %r' % (res.get('unknown_keys'), res.get('class_name'), u)
        elif 'ok' not in res:
            bad = 'expected a successful load, got %s: %s' % (res.get('err'), res.get('msg'))
        else:
            got = [impl_view(v, inner) for v in res['ok']]
            if len(got) != len(exp):
                bad = 'loaded %d nested instances, expected %d' % (len(got), len(exp))
            for g, x, d, dump in zip(got, exp, op['docs'], res.get('dumps') or []):
                if bad:
                    break
                if json.dumps(g.get('fields'), sort_keys=True) != json.dumps(x['fields'], sort_keys=True):
                    bad = 'mapped fields %r, expected %r (document %s)' % (g.get('fields'), x['fields'], json.dumps(d)[:150])
                elif (g.get('catch') is None) != (x['catch'] is None):
                    bad = 'catch-all %r, expected %r' % (g.get('catch'), x['catch'])
                elif x['catch'] is not None and 'default' in x['catch'] and g['catch'] != x['catch']:
                    bad = 'catch-all %r, expected the default to be kept' % (g['catch'],)
                elif x['catch'] is not None and 'items' in x['catch'] and (
                        'items' not in g['catch'] or sorted(map(json.dumps, g['catch']['items'])) != sorted(map(json.dumps, x['catch']['items']))):
                    bad = 'catch-all %r, expected exactly %r (document %s)' % (g['catch'], x['catch'], json.dumps(d)[:150])
                else:
                    bad = check_dump(inner, x, dump)
        # regions
        reg = None
        if in_f91_region(inner):
            ctx.hist('former_F91_region', 'ok' if not bad else 'FAILS')
        if not v1 and spec['raise'] and first_bad is not None:
            u = set(level_unknown(spec, op['docs'][first_bad[0]], ms))
            if u and u <= seen_lax:
                reg = 'F10-C10-alone-first-negative-cache'
        if bad:
            if reg and ctx.is_open_region(reg):
                ctx.hist('known_region', reg)
            else:
                ctx.violation('%s engine, class %s generated for %d roots (%s), operation %d of the history (through %s): %s' %
                              (inner['engine'], inner['name'], len(w['roots']), ','.join(rt['pos'] for rt in w['roots']), oi + 1,
                               'the class alone' if op['root'] < 0 else 'root %d' % op['root'], bad),
                              {'kind': 'gen', 'world': w, 'index': oi,
                               'model_says': [[list(k[0]), k[1], v] for k, v in ms.items() if k[0] == tuple(ordered_fields(inner))]})
        # correspondence
        if mline is not None and not (reg in resolved):
            ctx.traces_validated += 1
            mo = [parse_gout(x) for x in mops[oi]]
            same = True
            if True:
                mfail = next((m for m in mo if 'ok' not in m), None)
                if mfail is not None:
                    io = impl_compare_view(res, inner) if 'ok' not in res else {'ok': 1}
                    same = (mfail == io) if mfail.get('err') == 'UnknownKeysError' else (mfail.get('err') == io.get('err'))
                elif 'ok' not in res:
                    same = False
                else:
                    mv = [model_view(m, inner, {}, d) for m, d in zip(mo, op['docs'])]
                    same = json.dumps(mv, sort_keys=True) == json.dumps([impl_view(v, inner) for v in res['ok']], sort_keys=True)
            if not same:
                ctx.disagreements_checked += 1
                ctx.broken_tie('FieldsUnknown generation model and implementation disagree (%s engine)' % inner['engine'],
                               {'world': w, 'index': oi, 'impl': {k: res.get(k) for k in ('ok', 'err', 'class_name', 'unknown_keys')}, 'model': mo})
        # history bookkeeping for the F10 region: what an ignore-policy load of the default engine caches negatively
        if not v1 and not spec['raise'] and 'ok' in res:
            for d in op['docs']:
                seen_lax.update(level_unknown(spec, d, ms))
        elif not v1 and not spec['raise']:
            for d in op['docs']:
                seen_lax.update(level_unknown(spec, d, ms))


# --------------------------------------------------------------------------- region C: dump settings x CatchAll
COND_OPS = ['EQ', 'NE', 'LT', 'LE', 'GT', 'GE', 'IS', 'IS_NOT', 'IS_TRUTHY', 'IS_FALSY']
COND_VALUES = [None, True, False, 0, 1, 5, -1, '', 'x', {}, [], 3.5, '@captured']
KEY_TRANSFORMS = [None, 'CAMEL', 'PASCAL', 'LISP', 'SNAKE', 'NONE']


def gen_cond(r):
    op = r.choice(COND_OPS)
    if op in ('IS_TRUTHY', 'IS_FALSY'):
        return {'op': op}
    if op in ('IS', 'IS_NOT'):
        return {'op': op, 'val': r.choice([None, True, False])}      # identity with a singleton only (C11 covers the rest)
    return {'op': op, 'val': r.choice(COND_VALUES)}


def gen_dump_case(r, counter, pending, forced=None):
    counter[0] += 1
    engine = forced['engine'] if forced else r.choice(['v0', 'v1'])
    used = set()
    spec = {'name': 'D%d' % counter[0], 'engine': engine, 'raise': False, 'tag': None, 'catch': None, 'fields': []}
    for _ in range(r.randint(1, 3)):
        spec['fields'].append({'name': gen_name(r, used), 'kind': 'int', 'default': (r.choice([-1, 0, 3]) if r.random() < 0.5 else None),
                               'aliases': None, 'path': None, 'skip_if': (gen_cond(r) if r.random() < 0.2 else None)})
    req = [f['name'] for f in spec['fields'] if f['default'] is None]
    opt = [f['name'] for f in spec['fields'] if f['default'] is not None]
    kind = forced['kind'] if forced else r.choice(['required', 'default', 'default', 'factory'])
    cname = r.choice(['extras', 'rest', 'unknown_stuff'])
    spec['catch'] = {'name': cname, 'default': kind == 'default', 'factory': kind == 'factory',
                     'skip_if': (gen_cond(r) if r.random() < 0.3 else None)}
    if kind == 'required':
        req.insert(r.randint(0, len(req)), cname)
    else:
        opt.insert(r.randint(0, len(opt)), cname)
    spec['order'] = req + opt
    meta = {'skip_if': gen_cond(r) if r.random() < 0.55 else None,
            'skip_defaults_if': gen_cond(r) if r.random() < 0.35 else None,
            'skip_defaults': r.choice([None, None, True, False]),
            'key_transform': r.choice(KEY_TRANSFORMS)}
    doc = gen_base_doc(r, spec)
    for _ in range(r.choice([0, 1, 1, 2, 3])):
        kind_, k = gen_extra_key(r, spec)
        if kind_ in ('sentinel', 'tagkey') or k in doc or strip_key(k) in {strip_key(n) for n in ordered_fields(spec)}:
            continue
        doc[k] = copy.deepcopy(r.choice(EXTRA_VALUES))
    if forced:
        # one operator of the table at one placement; the document has captured pairs
        cond = {'op': forced['op']} if forced['op'] in ('IS_TRUTHY', 'IS_FALSY') else \
               {'op': forced['op'], 'val': r.choice([None, True, False]) if forced['op'] in ('IS', 'IS_NOT') else r.choice(COND_VALUES)}
        meta['skip_if'] = cond if forced['place'] == 'skip_if' else None
        meta['skip_defaults_if'] = cond if forced['place'] == 'skip_defaults_if' else None
        spec['catch']['skip_if'] = cond if forced['place'] == 'own' else None
        if not any(classify(spec, k) == 'unknown' for k in doc):
            doc[gen_key(r, set(doc))] = copy.deepcopy(r.choice(EXTRA_VALUES))
    names = ordered_fields(spec)
    calls = []
    for _ in range(r.choice([1, 2, 3])):
        ex = r.choice([None, None, None, [], [cname], r.sample(names, r.randint(1, len(names))), ['no_such_field']])
        calls.append({'exclude': ex, 'skip_defaults': r.choice([None, None, True, False])})
    return {'cls': spec, 'meta': meta, 'doc': doc, 'calls': calls}


def py_cond(c, v, captured):
    """truth of a condition on a value with plain Python operators (independent of the library); 'E' = TypeError"""
    import operator
    op = c['op']
    if op == 'IS_TRUTHY':
        return bool(v)
    if op == 'IS_FALSY':
        return not v
    cv = c['val']
    if cv == '@captured':
        cv = captured
    try:
        return bool({'EQ': operator.eq, 'NE': operator.ne, 'LT': operator.lt, 'LE': operator.le, 'GT': operator.gt,
                     'GE': operator.ge, 'IS': operator.is_, 'IS_NOT': operator.is_not}[op](v, cv))
    except TypeError:
        return 'E'


def dump_key_ref(name, kt):
    return {None: lambda: ref_casing(name, 'Camel'), 'CAMEL': lambda: ref_casing(name, 'Camel'), 'PASCAL': lambda: ref_casing(name, 'Pascal'),
            'LISP': lambda: ref_casing(name, 'Kebab'), 'SNAKE': lambda: name, 'NONE': lambda: name}[kt]()


def dump_reference(case, call, captured):
    """instance values, default table and the field-level decisions the documentation gives (C11 rules); returns
    (values, catch_field_skipped | 'E', some consulted test raises TypeError)"""
    spec, meta = case['cls'], case['meta']
    c = spec['catch']
    vals, dflt = {}, {}
    for f in spec['fields']:
        key = next((k for k in case['doc'] if classify(spec, k) == ('field', f['name'])), None)
        vals[f['name']] = case['doc'][key] if key is not None else f['default']
        if f['default'] is not None:
            dflt[f['name']] = f['default']
    if c['default']:
        dflt[c['name']] = None
        vals[c['name']] = dict(captured) if captured else None
    else:
        vals[c['name']] = dict(captured)
        if c.get('factory'):
            dflt[c['name']] = {}
    sd = call['skip_defaults'] if call.get('skip_defaults') is not None else bool(meta.get('skip_defaults') or meta.get('skip_defaults_if') is not None)
    ex = set(call['exclude']) if call.get('exclude') is not None else set()
    tests = {}          # (cond id, field) -> True / False / 'E'   (oracle of the model; ids: 0 skip_if, 1 skip_defaults_if, 2+i own)
    any_error = False
    catch_skipped = None
    for i, n in enumerate(ordered_fields(spec)):
        own = c.get('skip_if') if n == c['name'] else next(f for f in spec['fields'] if f['name'] == n).get('skip_if')
        for cid, cond in ((0, meta.get('skip_if')), (1, meta.get('skip_defaults_if')), (2 + i, own)):
            if cond is not None:
                tests[(cid, n)] = py_cond(cond, vals[n], captured)
        skipped = n in ex
        if not skipped and sd and n in dflt:
            t = tests[(1, n)] if meta.get('skip_defaults_if') is not None else (vals[n] == dflt[n])
            if t == 'E':
                any_error = True
                if n == c['name']:
                    catch_skipped = 'E'
                continue
            skipped = t
        if n == c['name']:
            catch_skipped = skipped or (n in dflt and vals[n] == dflt[n])
        elif not skipped:
            cond_id = (2 + i) if own is not None else (0 if meta.get('skip_if') is not None else None)
            if cond_id is not None and tests[(cond_id, n)] == 'E':
                any_error = True
    return vals, dflt, tests, sd, catch_skipped, any_error


def dump_model_expr(case, call, captured):
    spec, meta = case['cls'], case['meta']
    c = spec['catch']
    vals, dflt, tests, sd, _, _ = dump_reference(case, call, captured)
    names = ordered_fields(spec)
    tbl = coq_list(['((%d, %s), %s)' % (cid, coq_str(n), {True: 'Some true', False: 'Some false', 'E': 'None'}[t])
                    for (cid, n), t in sorted(tests.items())])
    isd = coq_list([coq_str(n) for n in names if n in dflt and vals[n] == dflt[n]])
    own = []
    for i, n in enumerate(names):
        o = c.get('skip_if') if n == c['name'] else next(f for f in spec['fields'] if f['name'] == n).get('skip_if')
        if o is not None:
            own.append('(%s, %d)' % (coq_str(n), 2 + i))
    inst = []
    for n in names:
        v = vals[n]
        if n == c['name'] and isinstance(v, dict):
            inst.append('(%s, KCatch %s)' % (coq_str(n), coq_list(['(%s, %s)' % (coq_str(k), coq_str(raw_of(x))) for k, x in v.items()])))
        else:
            inst.append('(%s, KV %s)' % (coq_str(n), coq_str(raw_of(v))))
    return ('rundump %s %s %s %s %s %s %s %s %s %s %s %s' %
            (tbl, isd, coq_list([coq_str(n) for n in names]),
             coq_list(['(%s, %s)' % (coq_str(n), coq_str(dump_key_ref(n, meta.get('key_transform')))) for n in names]),
             coq_str(c['name']), coq_list([coq_str(n) for n in names if n in dflt]),
             coq_opt('0' if meta.get('skip_if') is not None else None), coq_opt('1' if meta.get('skip_defaults_if') is not None else None),
             coq_list(own), coq_opt(coq_list([coq_str(x) for x in call['exclude']]) if call.get('exclude') is not None else None),
             'true' if sd else 'false', coq_list(inst)))


def check_dump_case(ctx, case, res, mlines, ms, resolved):
    spec, meta = case['cls'], case['meta']
    c = spec['catch']
    sig = json.dumps({k: case[k] for k in ('cls', 'meta', 'doc')}, sort_keys=True)
    captured = {k: v for k, v in case['doc'].items() if classify(spec, k, ms) == 'unknown'}
    where = '%s engine, class %s (CatchAll %s%s), Meta %s, document %s' % (
        spec['engine'], spec['name'], 'default_factory' if c.get('factory') else ('with default' if c['default'] else 'required'),
        ', own SkipIf %s' % json.dumps(c['skip_if']) if c.get('skip_if') else '',
        json.dumps({k: v for k, v in meta.items() if v is not None}), json.dumps(case['doc'])[:200])
    # the load itself
    lo = res['load']
    try:
        exp = ref_load(spec, case['doc'], ms)
    except RefError:
        exp = None
    bad = None
    if exp is not None:
        # the view cannot tell a loaded value that equals the default from the default: same normalisation on both sides
        for f in spec['fields']:
            if f['default'] is not None and exp['fields'].get(f['name']) == str(f['default']):
                exp['fields'][f['name']] = 'DEFAULT'
    if 'ok' not in lo:
        bad = 'expected a successful load, got %s: %s' % (lo.get('err'), lo.get('msg'))
    else:
        g = impl_view(lo['ok'], spec)
        if json.dumps(g.get('fields'), sort_keys=True) != json.dumps(exp['fields'], sort_keys=True):
            bad = 'mapped fields %r, expected %r' % (g.get('fields'), exp['fields'])
        elif 'default' in exp['catch'] and g.get('catch') != exp['catch']:
            bad = 'catch-all %r, expected the default to be kept' % (g.get('catch'),)
        elif 'items' in exp['catch'] and ('items' not in (g.get('catch') or {}) or
                                          sorted(map(json.dumps, g['catch']['items'])) != sorted(map(json.dumps, exp['catch']['items']))):
            bad = 'catch-all %r, expected exactly %r' % (g.get('catch'), exp['catch'])
    if bad:
        ctx.count(1, key='d:%s|load' % sig, nontrivial=bool(captured))
        ctx.violation('%s: %s' % (where, bad), {'kind': 'dump', 'case': case, 'index': -1})
        return
    dump_keys = {dump_key_ref(f['name'], meta.get('key_transform')) for f in spec['fields']}
    for ci, (call, out) in enumerate(zip(case['calls'], res['calls'])):
        vals, dflt, tests, sd, catch_skipped, any_error = dump_reference(case, call, captured)
        ctx.count(1, key='d:%s|%d|%s' % (sig, ci, json.dumps(call)), nontrivial=bool(captured))
        ctx.hist('dump_catch_field', 'skipped' if catch_skipped is True else ('TypeError' if catch_skipped == 'E' else ('emitted' if captured else 'empty')))
        for k in ('skip_if', 'skip_defaults_if'):
            if meta.get(k) is not None:
                ctx.hist('dump_meta_' + k, '%s on captured=%s' % (meta[k]['op'], py_cond(meta[k], vals[c['name']], captured)))
        bad = None
        if 'items' not in out:
            if not (out.get('err') == 'TypeError' and any_error):
                bad = 'to_dict raised %s (%s) although no consulted skip condition raises' % (out.get('err'), out.get('msg'))
        elif any_error and catch_skipped == 'E':
            bad = None            # C11: which test is consulted first is not fixed by the documentation
        else:
            d = dict((k, v) for k, v in out['items'])
            others = [k for k in d if k not in dump_keys]
            if catch_skipped is True:
                if others:
                    bad = 'the CatchAll field is excluded / skipped as a defaulted field, but %r were written' % (others,)
            else:
                for k, v in captured.items():
                    if k in dump_keys:
                        continue
                    if k not in d or d[k] != v or type(d[k]) is not type(v):
                        bad = 'captured pair %r: %r missing from / changed in to_dict output %r' % (k, v, d)
                        break
                if not bad and sorted(others) != sorted(k for k in captured if k not in dump_keys):
                    bad = 'top-level keys %r written besides the fields, expected exactly the captured keys %r' % (others, sorted(captured))
        if bad:
            ctx.violation('%s, asdict(%s): %s' % (where, json.dumps(call), bad), {'kind': 'dump', 'case': case, 'index': ci})
        if mlines is not None:
            ctx.traces_validated += 1
            m = mlines[ci]
            if m == 'ERR':
                same = 'items' not in out and out.get('err') in ('TypeError', 'AttributeError')
            else:
                mitems = []
                for part in (m.split(',') if m else []):
                    k, v = part.split('=', 1)
                    mitems.append([bytes.fromhex(k).decode(), json.loads(bytes.fromhex(v[1:]).decode())])
                same = 'items' in out and json.dumps(mitems) == json.dumps(out['items'])
            if not same:
                ctx.disagreements_checked += 1
                ctx.broken_tie('FieldsUnknown dump model and implementation disagree (%s engine)' % spec['engine'],
                               {'case': case, 'call': call, 'impl': out, 'model': m})


# --------------------------------------------------------------------------- run
def build_cases(ctx):
    r = ctx.sub_rng('cases')
    n = 900 if ctx.tier == "quick" else 8000
    counter = [0]
    cases, pending = [], []
    sysb = systematic_binds()
    for _ in range(n):
        # the systematic bind programs (RAISE written by the k-th bind in every spelling) are consumed first
        engine = sysb[-1][0] if sysb else r.choice(['v0', 'v1'])
        raise_ = True if sysb else r.random() < 0.3
        spec = gen_level(r, engine, r.choice([0, 1, 1]), counter, raise_, True)
        if sysb or r.random() < 0.5:
            # region A: the policy reaches the generator through a PROGRAM of Meta binds (entry point x spelling x order)
            spec['binds'] = gen_binds(r, engine, raise_)
            finish_binds(spec)
        stats = []
        base = gen_base_doc(r, spec)
        d1 = add_extras(r, spec, base, pending, stats)
        pat = r.random()
        if pat < 0.6:
            loads = [d1] * r.choice([1, 2, 3])
            hist = 'repeat%d' % len(loads)
        else:
            d2 = add_extras(r, spec, gen_base_doc(r, spec), pending, stats)
            loads = r.choice([[d1, d2, d1], [d2, d1], [d1, base, d1]])
            hist = 'mixed%d' % len(loads)
        # operations before the first load of the root class: the nested class used ALONE (its own default policy,
        # the per-class key cache is shared with the nested loader generated later), a dump of a hand-built instance
        alone = {}
        for f in spec['fields']:
            if f['kind'] == 'nested' and r.random() < 0.6:
                reuse = [d[k] for d in loads for k in d if classify(spec, k) == ('field', f['name']) and isinstance(d[k], dict)]
                if reuse and r.random() < 0.5:
                    alone[f['name']] = copy.deepcopy(r.choice(reuse))        # the same unknown keys come back later
                else:
                    alone[f['name']] = add_extras(r, f['cls'], gen_base_doc(r, f['cls']), pending, [])
                # the sentinel key in an ALONE load poisons the class (F41, variant c of the witness): kept out of the histories
                alone[f['name']].pop(SENTINEL, None)
        if sysb and spec.get('binds') and not alone:
            spec['binds'] = sysb.pop()[1]
            finish_binds(spec)
        cases.append({'cls': spec, 'loads': loads, 'hist': hist, 'extra_kinds': stats,
                      'pre': {'dump': r.random() < 0.4, 'alone': alone},
                      'entry': (r.choice(['fromdict', 'fromlist']) if spec.get('binds') and spec['binds']['base'] == 'plain'
                                else r.choice(['fromdict', 'fromdict', 'jsonwizard', 'from_json', 'fromlist']))})
    return cases, pending


def build_gen_worlds(ctx, pending):
    r = ctx.sub_rng('gen')
    counter = [0]
    worlds = []
    import itertools
    # systematic: engine x CatchAll kind x every order of first use of (alone, root 0, root 1)
    for engine in ('v1', 'v0'):
        for kind in ('default', 'required', 'none', 'factory'):
            for order in itertools.permutations([-1, 0, 1]):
                w = gen_world(r, counter, forced={'engine': engine, 'kind': kind})
                gen_world_ops(r, w, pending, order=order)
                worlds.append(w)
    for _ in range(130 if ctx.tier == 'quick' else 1500):
        w = gen_world(r, counter)
        gen_world_ops(r, w, pending)
        worlds.append(w)
    return worlds


def build_dump_cases(ctx, pending):
    r = ctx.sub_rng('dump')
    counter = [0]
    out = []
    forced = [{'engine': e, 'kind': k, 'op': op, 'place': pl} for op in COND_OPS for pl in ('skip_if', 'skip_defaults_if', 'own')
              for e, k in (('v0', 'default'), ('v1', 'default'), ('v0', 'required'), ('v1', 'required'))]
    for i in range(len(forced) + (160 if ctx.tier == 'quick' else 2500)):
        c = gen_dump_case(r, counter, pending, forced=forced[i] if i < len(forced) else None)
        for k in list(c['doc']):
            if isinstance(classify(c['cls'], k), tuple) and r.random() < 0.7:
                c['doc'][k] = r.choice([0, 1, 3, 5, -1, 50])          # values that equal a default / are falsy, so the rules vary
        out.append(c)
    return out


def run(ctx):
    cases, pending = build_cases(ctx)
    worlds = build_gen_worlds(ctx, pending)
    dcases = build_dump_cases(ctx, pending)

    # ---- phase 0: ambiguous near-misses are classified by the Coq resolution model -----------
    ms = {}
    model_ok = True
    amb = sorted({(tuple(ordered_fields(s)), k) for s, k in pending if s['engine'] == 'v0'})
    try:
        if amb:
            outs = ctx.coq(['res0 %s %s' % (coq_list([coq_str(f) for f in fs]), coq_str(k)) for fs, k in amb],
                           ['FieldsUnknown'], prelude=PRELUDE, tag='phase0')
            for (fs, k), o in zip(amb, outs):
                ms[(fs, k)] = None if o == 'N' else bytes.fromhex(o[1:]).decode()
    except Exception as ex:
        model_ok = False
        ctx.broken_tie('model evaluation failed (phase 0): %s' % str(ex)[:400])
        # fail safe: without the model drop every ambiguous key
        for a in amb:
            ms[a] = a[0][0]
    ctx.hist('ambiguous_near_misses', 'resolve=%d miss=%d' % (sum(1 for v in ms.values() if v is not None),
                                                              sum(1 for v in ms.values() if v is None)))
    for c in cases:
        c['loads'] = [drop_known_extras(c['cls'], d, ms) for d in c['loads']]
        for f in c['cls']['fields']:
            if f['name'] in c['pre']['alone']:
                c['pre']['alone'][f['name']] = drop_known_extras(f['cls'], c['pre']['alone'][f['name']], ms)
    for w in worlds:
        for op in w['ops']:
            op['docs'] = [drop_known_extras(w['inner'], d, ms) for d in op['docs']]
    for c in dcases:
        # the comparison value '@captured' stands for (a copy of) the dict the CatchAll field will hold
        captured = {k: v for k, v in c['doc'].items() if classify(c['cls'], k, ms) == 'unknown'}
        conds = [c['meta'].get('skip_if'), c['meta'].get('skip_defaults_if'), c['cls']['catch'].get('skip_if')] + \
                [f.get('skip_if') for f in c['cls']['fields']]
        for cond in conds:
            if cond is not None and cond.get('val') == '@captured':
                cond['val'] = copy.deepcopy(captured)

    # ---- implementation ------------------------------------------------------------------------
    impl = ctx.impl('c10', {'cases': [{'cls': c['cls'], 'loads': c['loads'], 'pre': c['pre'], 'entry': c['entry']} for c in cases],
                            'witness': [{'kind': 'F19'}, {'kind': 'F41'}, {'kind': 'F10alone'}, {'kind': 'F91'}],
                            'gen': worlds, 'dump': dcases})
    w19, w22, w10, w91 = impl['witness']
    resolved = set()     # findings whose witness no longer fails: the faithful (defective) model is not compared in their region
    if ctx.finding('F19-v1-shared-top-level-key'):
        still = bool(w19.get('accepted_unknown'))
        ctx.known_finding('F19-v1-shared-top-level-key', still_fails=still)
        ctx.count(1, key='witness:F19', nontrivial=True)
        if not still:
            resolved.add('F19-v1-shared-top-level-key')
    if ctx.finding('F41-catchall-sentinel-key'):
        still = bool(w22.get('with_default', {}).get('err') == 'KeyError' or w22.get('no_default_dropped') or w22.get('poisoned'))
        ctx.known_finding('F41-catchall-sentinel-key', still_fails=still)
        ctx.count(1, key='witness:F41', nontrivial=True)
        if not still:
            resolved.add('F41-catchall-sentinel-key')
    if ctx.finding('F10-C10-alone-first-negative-cache'):
        still = bool(w10.get('seen_key_accepted'))
        ctx.known_finding('F10-C10-alone-first-negative-cache', still_fails=still)
        ctx.count(1, key='witness:F10alone', nontrivial=True)
        if not still:
            resolved.add('F10-C10-alone-first-negative-cache')
    ctx.count(1, key='witness:F91', nontrivial=True)
    if w91.get('mapped_field_changed') or w91.get('known_doc_rejected') or not w91.get('factory_first_ok', True):
        ctx.violation('v1 engine (F91, fixed by d23b12f, has returned): a CatchAll field with default_factory declared after a defaulted field: '
                      '{"a": 1, "zz": 5} must load as A(a=1, b=3, rest={"zz": 5}) and {"a": 1, "b": 2} must load; witness outcome %s'
                      % json.dumps(w91), {'kind': 'F91'})
    if not w10.get('unseen_key_rejected', True):
        ctx.violation('default engine: nested class loaded alone first, then a strict recursive outer class: an unknown nested key that '
                      'was never seen before is accepted', {'kind': 'F10alone'})

    # ---- model, phase 1 (nested levels) and phase 2 (root levels) ------------------------------
    def level_expr(spec, flat, tbl):
        t = coq_list(['(%s, %s)' % (coq_str(k), v) for k, v in tbl])
        return '%s %s %s %s' % ('run0' if spec['engine'] == 'v0' else 'run1', t, coq_cls(spec), coq_docs(flat))

    child_out = {}          # case index -> field name -> list (per load) of parsed outcome / None
    if model_ok:
        try:
            exprs1, where1 = [], []
            prepared = []
            for ci, c in enumerate(cases):
                flat, children = level_docs(c['cls'], c['loads'], ms)
                prepared.append((flat, children))
                for f in c['cls']['fields']:
                    if f['kind'] != 'nested':
                        continue
                    idx = [j for j, ch in enumerate(children) if f['name'] in ch]
                    if not idx:
                        continue
                    cflat, _ = level_docs(f['cls'], [children[j][f['name']] for j in idx], ms)
                    if f['cls']['engine'] == 'v0' and f['name'] in c['pre']['alone']:
                        # the nested class was loaded ALONE first (default policy), same per-class key cache
                        aflat, _ = level_docs(f['cls'], [c['pre']['alone'][f['name']]], ms)
                        exprs1.append('run0p [] %s %s %s %s' % (coq_cls(dict(f['cls'], **{'raise': False}), configured=False), coq_docs(aflat)[1:-1],
                                                              coq_cls(f['cls']), coq_docs(cflat)))
                    else:
                        exprs1.append(level_expr(f['cls'], cflat, []))
                    where1.append((ci, f['name'], idx))
            outs1 = ctx.coq(exprs1, ['FieldsUnknown'], prelude=PRELUDE, tag='phase1') if exprs1 else []
            for (ci, fname, idx), o in zip(where1, outs1):
                parts = o.split('|')
                child_out.setdefault(ci, {})[fname] = {j: p for j, p in zip(idx, parts)}
            exprs2 = []
            for ci, c in enumerate(cases):
                flat, children = prepared[ci]
                tbl = []
                for fname, per in child_out.get(ci, {}).items():
                    for j, p in per.items():
                        if p.startswith('U:'):
                            u = parse_unknown(p)
                            tbl.append(('@%d' % j, '(CNested (UUnknown %s %s))' % (coq_str(u['class_name']),
                                        coq_list([coq_str(bytes.fromhex(x).decode()) for x in p.split(':', 2)[2].split(',')]))))
                        elif p.startswith('K:'):
                            tbl.append(('@%d' % j, '(CNested (UKeyError %s))' % coq_str(bytes.fromhex(p[2:]).decode())))
                exprs2.append(level_expr(c['cls'], flat, tbl))
            outs2 = ctx.coq(exprs2, ['FieldsUnknown'], prelude=PRELUDE, tag='phase2')
        except Exception as ex:
            model_ok = False
            ctx.broken_tie('model evaluation failed: %s' % str(ex)[:500])

    # ---- compare -------------------------------------------------------------------------------
    n_dis = 0
    for ci, c in enumerate(cases):
        spec = c['cls']
        ctx.hist('engine/policy', '%s/%s/%s%s' % (spec['engine'], 'raise' if spec['raise'] else 'ignore',
                                                  ('catch_default' if spec['catch']['default'] else 'catch') if spec['catch'] else 'nocatch',
                                                  '/tag' if spec['tag'] else ''))
        ctx.hist('history', ('alone-first+' if c['pre']['alone'] else '') + ('dump-first+' if c['pre']['dump'] else '') + c['hist'])
        ctx.hist('entry_point', c['entry'])
        if spec.get('binds'):
            ctx.hist('bind_program', spec['binds']['base'] + ':' + '>'.join(
                op['via'] + ('+' + ('E' if 'enum' in op['action'] else 'S' if op['action'].get('str') else 'N') if 'action' in op else '')
                + ('+r' if 'raise' in op else '') for op in spec['binds']['ops']))
        ctx.hist('depth', 2 if any(f['kind'] == 'nested' for f in spec['fields']) else 1)
        for k in c['extra_kinds']:
            ctx.hist('extra_key_kind', k)
        results = impl['cases'][ci]
        mparts = outs2[ci].split('|') if model_ok else None
        for j, (d, res) in enumerate(zip(c['loads'], results)):
            nontriv = bool(all_unknown_levels(spec, d, ms, []))
            ctx.count(1, key='c:%s|%d|%s' % (json.dumps(spec, sort_keys=True), j, json.dumps(c['loads'][:j + 1])), nontrivial=nontriv)
            ctx.hist('outcome', spec['engine'] + '/' + ('ok' if 'ok' in res else res.get('err', '?')))
            bad = direct_predicate(spec, d, res, ms)
            if bad:
                reg = region_of(spec, d, ms, c['pre']['alone'])
                if reg and ctx.is_open_region(reg):
                    ctx.hist('known_region', reg)
                else:
                    ctx.violation('%s engine, class %s, load %d of the history, document %s: %s' %
                                  (spec['engine'], spec['name'], j + 1, json.dumps(d)[:200], bad),
                                  {'kind': 'case', 'cls': spec, 'loads': c['loads'], 'index': j, 'pre': c['pre'], 'entry': c['entry'], 'model_says': [[list(k[0]), k[1], v] for k, v in ms.items() if k[0] == tuple(ordered_fields(spec))]})
            if model_ok and region_of(spec, d, ms, c['pre']['alone']) in resolved:
                ctx.hist('resolved_region_direct_predicate_only', region_of(spec, d, ms, c['pre']['alone']))
            elif model_ok:
                ctx.traces_validated += 1
                mo = parse_out(mparts[j]) if not mparts[j].startswith('U:') else parse_unknown(mparts[j])
                if 'ok' in mo:
                    cviews = {}
                    for fname, per in child_out.get(ci, {}).items():
                        if j in per and per[j].startswith('O:'):
                            fspec = next(f['cls'] for f in spec['fields'] if f['name'] == fname)
                            cviews[fname] = model_view(parse_out(per[j]), fspec, {}, prepared[ci][1][j].get(fname))
                    mo = {'ok': model_view(mo, spec, cviews, d)}
                io = impl_compare_view(res, spec)
                if 'ok' in mo and 'ok' in io:
                    same = json.dumps(mo, sort_keys=True) == json.dumps(io, sort_keys=True)
                else:
                    same = mo == io
                if not same:
                    n_dis += 1
                    ctx.disagreements_checked += 1
                    if n_dis <= 5:
                        ctx.broken_tie('FieldsUnknown model and implementation disagree (%s engine)' % spec['engine'],
                                       {'cls': spec, 'loads': c['loads'], 'index': j, 'impl': io, 'model': mo})
    # ---- region B: generations ------------------------------------------------------------------
    glines = None
    if model_ok:
        try:
            glines = ctx.coq([gen_model_expr(w, ms) for w in worlds], ['FieldsUnknown'], prelude=PRELUDE, tag='gen')
        except Exception as ex:
            ctx.broken_tie('model evaluation failed (generations): %s' % str(ex)[:400])
    for wi, w in enumerate(worlds):
        ctx.hist('gen_world', '%s/%s/roots=%s' % (w['inner']['engine'],
                                                   ('factory' if w['inner']['catch'].get('factory') else 'catch_default' if w['inner']['catch']['default'] else 'catch')
                                                   if w['inner']['catch'] else 'nocatch', '+'.join(rt['pos'] + ('!' if rt['raise'] else '') for rt in w['roots'])))
        ctx.hist('gen_first_use', '>'.join(dict.fromkeys('alone' if op['root'] < 0 else 'root%d' % op['root'] for op in w['ops'])))
        check_gen_world(ctx, w, impl['gen'][wi], glines[wi] if glines is not None else None, ms, resolved)
    # ---- region C: dump settings x CatchAll ----------------------------------------------------------
    dlines = None
    if model_ok:
        try:
            exprs, owner = [], []
            for di, c in enumerate(dcases):
                captured = {k: v for k, v in c['doc'].items() if classify(c['cls'], k, ms) == 'unknown'}
                for call in c['calls']:
                    exprs.append(dump_model_expr(c, call, captured)); owner.append(di)
            outs = ctx.coq(exprs, ['FieldsUnknown'], prelude=PRELUDE, tag='dump')
            dlines = {}
            for di, o in zip(owner, outs):
                dlines.setdefault(di, []).append(o)
        except Exception as ex:
            ctx.broken_tie('model evaluation failed (dump): %s' % str(ex)[:400])
    for di, c in enumerate(dcases):
        ctx.hist('dump_case', '%s/%s/kt=%s' % (c['cls']['engine'], 'factory' if c['cls']['catch'].get('factory') else
                                               ('catch_default' if c['cls']['catch']['default'] else 'catch'), c['meta'].get('key_transform')))
        check_dump_case(ctx, c, impl['dump'][di], dlines.get(di) if dlines is not None else None, ms, resolved)
    for c, rs in list(zip(cases, impl['cases']))[:3]:
        ctx.sample({'class': c['cls'], 'history': c['loads'], 'impl_outcomes': [(r.get('ok') or {k: r.get(k) for k in ('err', 'class_name', 'unknown_keys')}) for r in rs]})


class Ctx_probe:
    """collects the violations of one replayed case (regions of open findings are still honoured)"""
    def __init__(self, ctx):
        self.ctx, self.found, self.traces_validated, self.disagreements_checked = ctx, [], 0, 0

    def count(self, *a, **k): pass
    def hist(self, *a, **k): pass
    def broken_tie(self, *a, **k): pass
    def is_open_region(self, fid): return self.ctx.is_open_region(fid)
    def violation(self, what, obj): self.found.append(what)


def replay(ctx, obj):
    if obj.get('kind') == 'case':
        ms = {(tuple(a), b): c for a, b, c in obj.get('model_says', [])}
        results = ctx.impl('c10', {'cases': [{'cls': obj['cls'], 'loads': obj['loads'], 'pre': obj.get('pre'),
                                              'entry': obj.get('entry', 'fromdict')}]})['cases'][0]
        ok = True
        for j, (d, res) in enumerate(zip(obj['loads'], results)):
            bad = direct_predicate(obj['cls'], d, res, ms)
            print('load %d: %s -> %s' % (j + 1, json.dumps(d)[:300], bad or 'property holds'))
            if bad and j == obj.get('index', j):
                ok = False
        return ok
    if obj.get('kind') == 'gen':
        ms = {(tuple(a), b): c for a, b, c in obj.get('model_says', [])}
        res = ctx.impl('c10', {'gen': [obj['world']]})['gen'][0]
        probe = Ctx_probe(ctx)
        check_gen_world(probe, obj['world'], res, None, ms, set())
        for v in probe.found:
            print(v)
        print('property holds on every operation of the history' if not probe.found else '%d failing operation(s)' % len(probe.found))
        return not probe.found
    if obj.get('kind') == 'dump':
        res = ctx.impl('c10', {'dump': [obj['case']]})['dump'][0]
        probe = Ctx_probe(ctx)
        check_dump_case(probe, obj['case'], res, None, {}, set())
        for v in probe.found:
            print(v)
        print('property holds' if not probe.found else '%d failing call(s)' % len(probe.found))
        return not probe.found
    fid = obj.get('finding') or ''
    if obj.get('kind') == 'F91' or fid.startswith('F91'):
        w = ctx.impl('c10', {'witness': [{'kind': 'F91'}]})['witness'][0]
        print('witness outcome: %s' % json.dumps(w)[:600])
        return bool(w.get('factory_first_ok')) and not (w.get('mapped_field_changed') or w.get('known_doc_rejected'))
    if obj.get('kind') == 'F10alone' or fid.startswith('F10'):
        w = ctx.impl('c10', {'witness': [{'kind': 'F10alone'}]})['witness'][0]
        print('witness outcome: %s' % json.dumps(w)[:600])
        return bool(w.get('unseen_key_rejected')) and (obj.get('kind') == 'F10alone' or not w.get('seen_key_accepted'))
    if obj.get('kind') in ('F19', 'F41') or fid.startswith('F19') or fid.startswith('F41'):
        kind = 'F19' if (obj.get('kind') == 'F19' or fid.startswith('F19')) else 'F41'
        w = ctx.impl('c10', {'witness': [{'kind': kind}]})['witness'][0]
        print('witness outcome: %s' % json.dumps(w)[:600])
        if kind == 'F19':
            return not w.get('accepted_unknown')
        return not (w.get('with_default', {}).get('err') == 'KeyError' or w.get('no_default_dropped') or w.get('poisoned'))
    print('replay object names a broken tie, not an input: %s' % json.dumps(obj)[:1000])
    return False
