"""C05 — load returns a conforming instance or raises; it never mutates its input.

Theorems: coq/props/C05.v (model coq/model/CoreLoad.v; conformance coq/model/CoreSchema.v).
Correspondence: the model's `load` (with the oracle table computed by the real stdlib
functions) against fromdict of the default engine on well-typed documents and the malformed
stream.  Direct predicates on the implementation, BOTH engines (default and v1): every
returned instance passes the independent Python conformance checker; the input document
equals its deep copy taken before the call; from_json agrees.
v1 engine: theorems C05_v1_* (model coq/model/V1Base.v V1Gen.v V1Eval.v shared with C02/C14; conformance
coq/model/V1Conf.v; proofs coq/proofs/V1ConfProofs.v); correspondence run_v1_model below (runner harness/impl/c02.py).
"""
import json, copy
from props.core_gen import Gen, systematic_types, type_stats, type_depth
import re
CANON = re.compile(r'^[a-z]{2,}[0-9]*(_[a-z]{2,}[0-9]*)*$')


def all_canonical(ty):
    ok = True
    if ty['t'] == 'data':
        ok = all(CANON.match(f['name']) for f in ty['fields'])
    subs = [ty[k] for k in ('e', 'kt', 'vt') if k in ty] + list(ty.get('es', []))
    subs += [f['ty'] if isinstance(f, dict) else f[1] for f in ty.get('fields', [])]
    subs += [ft for _, ft in ty.get('req', []) + ty.get('opt', [])]
    return ok and all(all_canonical(x) for x in subs)


META = {
    'id': 'C05',
    'title': 'Load returns a conforming instance or raises; it never mutates its input',
    'level': 'proof',
    'technique': 'Coq proof (induction over the type grammar with inversion on each parser success path) on a hand-written '
                 'Gallina model of loaders.py/parsers.py; for v1: induction over the call budget and the mutual type grammar on the '
                 'loader specification load_v1, lifted to the generated code through compiler correctness (C02_gen_sound) '
                 '+ differential correspondence + direct conformance predicate on both engines',
    'design_ref': 'DESIGN.md section 4 C05',
    'theorems': ['C05_v0_conforms_lax', 'C05_v0_partial', 'C05_refuted_tuple_short', 'C05_refuted_union_none_first',
                 'C05_refuted_none_annotation', 'C05_load_hooks_table',
                 'C05_v1_conforms', 'C05_v1_cls_conforms', 'C05_v1_code_conforms_partial', 'C05_v1_code_conforms_coherent_partial',
                 'C05_v1_table_oracle', 'C05_v1_leaf_premise_needed'],
    'tables': ['CoreDumpHooks'],
    'level_text': ('Proved in Coq for EVERY annotation of the grammar, EVERY oracle behaviour of the stdlib functions and EVERY '
                   'input value (no well-typedness hypothesis): whatever the default-engine loader model returns is a value of the '
                   'annotated type, up to exactly two leniencies (a `None` annotation keeps its input, a fixed tuple with optional '
                   'members may come back short; Union[None, X] keeps its input through the None member) - each proved to be a real violation of the '
                   'strict statement by a witness (C05_refuted_*), replayed on the implementation as findings F45, F46, F55; on the region '
                   'safe_ty the strict statement is proved (C05_v0_partial). The model is re-validated against fromdict on well-typed '
                   'and malformed documents on every run. v1 engine (model shared with C02/C14): for EVERY class table (cyclic included), EVERY '
                   'annotation of the v1 grammar, EVERY input value, EVERY budget and EVERY leaf-conversion oracle that returns values of the '
                   'leaf\'s own type (leaf_sound, the one premise; decided on the oracle tables and audited on the implementation on every run), '
                   'whatever the loader specification load_v1 returns is a value of the annotated type (conforms_v1: exact container kind, element '
                   'types, hashable set elements / dict keys, fixed-tuple arity, dict/defaultdict factory, NamedTuple, TypedDict required and declared '
                   'keys, Literal by value and type, Optional, Union member, nested dataclass with every init field) - strict, except that a field '
                   'whose key is absent holds the default its class declares; and so is whatever the GENERATED CODE returns, under the decidable '
                   'premise of compiler correctness (function names of the final recursion guard distinct; fails only for F9 of C02). No leniency '
                   'of the default engine exists in v1 (probed on /repo and refuted for none). On every run load_cls, run_main and conforms_v1 '
                   'are compared with the v1 loads of the implementation and with an independent Python conformance checker on well-typed and '
                   'malformed documents, and the two checkers are compared on mutated (mostly non-conforming) values.'),
    'level_note': ('Trusted: Coq kernel + vm_compute; the hand-written model; the oracle table (answers of int()/float()/str()/'
                   'fromisoformat/fromtimestamp/UUID/Decimal/Path/pytimeparse computed by the real functions on the leaves of each '
                   'document). Input immutability is carried by the direct predicate only (a pure model cannot mutate). '
                   'v1: direct predicate only (no theorem).'),
    'rule': ('class models: every leaf type x every container position (19 contexts) to depth 2 (quick) / 3 (thorough: a seed-rotated quarter of depth 3) in classes of <= 4 fields '
             '+ random class models (quick 60, thorough 500) + 12 regression models of repaired findings + models with two DIFFERENT Enum classes of one __name__ on different '
             'fields (quick 8, thorough 40) + classes with several fields whose annotations are equal but written differently (Union[None,X] / Optional[X] / X|None, List / list) '
             'in every declaration order + Unions whose members are parametrised containers of every element type (list[str], dict[str,str], set[Decimal] ...) + nested '
             'dataclass SUBCLASSES whose base class is loaded on its own first (history x inheritance, both engines). Names: 30% from the wider snake grammar; Literals include same-typed numeric member sets (Literal[0,1,2], Literal[True]). '
             'Per class: 1 well-typed document + k random mutations (quick 4, thorough 6: junk from a 40-value pool, keys dropped/renamed/added, lists truncated/extended/doubled) '
             '+ m systematic single-position mutations sampled from the enumeration over EVERY position (quick 12, thorough 16; at least 2-3 of each kind): scalar -> each ==-but-differently-typed value '
             '(1 / 1.0 / True, "1" / 1) and by a scalar of every OTHER JSON kind (retype), list -> one shorter / one longer, position -> null. Each document x {default, v1, from_json}; every document OBJECT is loaded twice '
             '(same outcome required) and compared with its deep copy afterwards. History axis: for half of the class models the well-typed document is written by the independent '
             'reference encoder so that the FIRST operation on the classes is a load (no dump before), for the other half it is asdict output. '
             'Non-trivial: the document differs from the well-typed one or the class has a container/union/class layer. Distinct: distinct (class digest | document digest | engine). '
             'v1 model stream: class models in the vocabulary of the v1 model (quick 20, thorough 110): 4 fields drawn from {every leaf, every Union/Literal atom} x '
             '{bare, each of 19 container contexts} + a sample of depth-2 compositions, + a nested chain Root -> container of Mid -> Optional[Leaf] with a recursive edge, '
             'Literal / Union members and defaulted fields; key case None / AUTO / CAMEL; 1 well-typed document + 12 (quick) / 24 (thorough) mutations (junk from a 32-value pool, '
             'list shorter / longer / doubled, key dropped / upper-cased / added / duplicated, ==-but-differently-typed scalars); 4 / 8 mutated VALUES per model for the '
             'checker-vs-checker comparison; every leaf-oracle answer audited.'),
    'trusted_base': ['model coq/model/CoreLoad.v (parser per annotation, scalar coercions, Union scan + tag dispatch, Literal, tuple arity window, '
                     'TypedDict required keys, cls_fromdict key resolution and defaults)',
                     'harness/impl/core_rt.py conforms(): independent Python conformance checker',
                     'harness/impl/c05.py oracle_table(): stdlib answers for the model',
                     'v1: models coq/model/V1Base.v V1Gen.v V1Eval.v (specification load_v1 and generated-code evaluator; compiler correctness '
                     'proved in V1GenSound.v), coq/model/V1Conf.v (conforms_v1), harness/impl/c02.py (v1 runner, leaf oracle), '
                     'harness/props/c05.py v1_conf(): independent Python conformance checker over runner trees'],
    'assumptions': ['v1: leaf_sound - a leaf conversion that returns, returns a value of its own leaf type (premise of C05_v1_*; '
                    'table_sound decides it on each oracle table, C05_v1_table_oracle; audited on the implementation on every run)',
                    'defaults declared in a class conform to their annotation (wf_ty) - a non-conforming default is the declaration, not the loader',
                    'model inputs outside the modelled fragment (non-ASCII str where the loader iterates/lower()s it, tokens/bytes as input) give '
                    'Err EUnmodelled and are excluded from the model comparison (counted in the evidence)'],
}

FINDINGS = ['F45-short-tuple-with-optional-members', 'F46-none-annotation-accepts-anything', 'F55-v0-union-none-first']


def coq_eval_sharded(ctx, exprs, imports, tag='cases', shard=40):
    """Like ctx.coq but with small shards: the expressions carry large literal terms,
    so elaboration time dominates and more, smaller coqc processes use the cores better."""
    import os
    from lib import coqrun
    d = os.path.join(ctx.workdir, tag)
    return coqrun.coq_eval(exprs, imports, d, jobs=6, timeout=900, shard=shard)


def coq_eval_groups(ctx, groups, imports, tag='groups', jobs=6):
    """groups: list of (prelude text, [expr]).  One coqc process per group (its prelude holds the
    definitions shared by the group's expressions, e.g. one oracle table per class model), at most
    `jobs` processes at a time (memory: literal terms are expensive to elaborate)."""
    import os, concurrent.futures as cf
    from lib import coqrun

    def one(ix):
        prelude, exprs = groups[ix]
        d = os.path.join(ctx.workdir, '%s_%d' % (tag, ix))
        return coqrun.coq_eval(exprs, imports, d, prelude=prelude, jobs=1, timeout=900, shard=max(1, len(exprs)))
    out = []
    with cf.ThreadPoolExecutor(max_workers=jobs) as ex:
        for r in ex.map(one, range(len(groups))):
            out.extend(r)
    return out


# ---- canonicalisation of the show text (sets and plain dicts are unordered) ----------------
def parse_show(s, i=0):
    """Parse CoreValues.show_pv text into a nested tuple; returns (node, next index)."""
    c = s[i]
    if c in 'NTF':
        return c, i + 1
    if c in 'IDSBEK?':
        j = s.index(';', i)
        return s[i:j + 1], j + 1
    if c == '[':
        kind, old = s[i + 1], s[i + 2]
        i += 3
        items = []
        while s[i] != ']':
            n, i = parse_show(s, i)
            items.append(n)
        return ('[', kind, old, items), i + 1
    if c == '{':
        kind, old = s[i + 1], s[i + 2]
        i += 3
        items = []
        while s[i] != '}':
            k, i = parse_show(s, i)
            v, i = parse_show(s, i)
            items.append((k, v))
        return ('{', kind, old, items), i + 1
    if c in '<(':
        close = '>' if c == '<' else ')'
        j = s.index(':', i)
        head = s[i:j + 1]
        i = j + 1
        items = []
        while s[i] != close:
            n, i = parse_show(s, i)
            items.append(n)
        return (c, head, items), i + 1
    raise ValueError('bad show text at %d: %r' % (i, s[i:i + 20]))


NEG_ZERO_ELEM = {'D' + '-0x0.0p+0'.encode().hex() + ';': 'D' + '0x0.0p+0'.encode().hex() + ';'}


def py_eq_class(x):
    """Representative of a set element's Python-equality class where it is coarser than the model's
    structural equality: 0.0 == -0.0, Decimal('1.0') == Decimal('1') == Decimal('1E+0')."""
    x = NEG_ZERO_ELEM.get(x, x)
    if x.startswith('Kc') and x.endswith(';'):
        import decimal
        try:
            d = decimal.Decimal(bytes.fromhex(x[2:-1]).decode())
            if d.is_finite():
                return 'Kc' + str(d.normalize() + 0).encode().hex() + ';'
        except Exception:
            pass
    return x


def canon_node(n):
    if isinstance(n, str):
        return n
    if n[0] == '[':
        items = [canon_node(x) for x in n[3]]
        if n[1] in 'sf':
            # Python set semantics: elements that are == collapse.  The model's element equality is
            # structural (ordered lists for inner frozensets, float tokens by text), so compare modulo
            # the two structural differences that are == in Python: inner-set order (already canonical
            # here) and 0.0 / -0.0.
            items = sorted(set(py_eq_class(x) for x in items))
        return '[' + n[1] + ''.join(items) + ']'
    if n[0] == '{':
        items = [canon_node(k) + canon_node(v) for k, v in n[3]]
        if n[1] == 'd':
            items.sort()
        return '{' + n[1] + ''.join(items) + '}'
    return n[0] + n[1] + ''.join(canon_node(x) for x in n[2]) + ('>' if n[0] == '<' else ')')


def canon_show(s):
    if s.startswith('!') or s.startswith('?'):
        return s
    try:
        n, i = parse_show(s)
        return canon_node(n) if i == len(s) else '?trailing:' + s
    except Exception:
        return '?unparsed:' + s


# ---- cases -----------------------------------------------------------------------------------
def make_cases(ctx):
    cases = []
    r = ctx.sub_rng('sys')
    g = Gen(r, {'neg_timedelta': False, 'nonfinite': False, 'ext_names': 0.3, 'wild_names': 0.1, 'same_named_enums': 0.4,
               'name_families': 0.3, 'spellings': 0.3, 'no_flag': True})
    items = systematic_types(g, 2 if ctx.tier == 'quick' else 3)
    if ctx.tier != 'quick':
        d3 = [it for it in items if it[0].count('<') == 2]
        items = [it for it in items if it[0].count('<') < 2] + [it for i, it in enumerate(d3) if i % 4 == ctx.seed % 4]
    n_mut = 4 if ctx.tier == 'quick' else 6
    # bytes/bytearray never load from JSON text in the default engine: keep them apart so that they
    # do not turn every document of a class into an error
    items = [it for it in items if 'bytes' not in it[0] and 'bytearray' not in it[0]] + \
            [it for it in items if 'bytes' in it[0] or 'bytearray' in it[0]]
    for i in range(0, len(items), 4):
        chunk = items[i:i + 4]
        root = g.root([t for _, t in chunk], bases=['JSONWizard'] if (i // 4) % 2 == 0 else [])
        cases.append({'root': root, 'value': g.value(root), 'seed': r.getrandbits(48), 'n_mut': n_mut,
                      'labels': [l for l, _ in chunk], 'src': 'systematic'})
    # regression inputs of the repaired findings F44 (null at a Union without None, default engine) and
    # F47 (v1: Union with a container member and a scalar member given a container that fails to parse)
    g3 = Gen(ctx.sub_rng('regress'), {})
    U = lambda *es: {'t': 'union', 'es': list(es)}
    I, S_, Fl, B = {'t': 'int'}, {'t': 'str'}, {'t': 'float'}, {'t': 'bool'}
    LI = {'t': 'seq', 'k': 'list', 'e': I}
    SI = {'t': 'seq', 'k': 'set', 'e': I}
    DI = {'t': 'dict', 'k': 'dict', 'kt': S_, 'vt': I}
    TI = {'t': 'tuple', 'es': [I, S_]}
    regress = [
        (U(I, S_), [None, 1, 'a', 1.5, True, [None]]),
        (U(Fl, B, S_), [None, [], {}]),
        ({'t': 'seq', 'k': 'list', 'e': U(I, S_)}, [[1, None], [None], ['a', None, 2]]),
        ({'t': 'tuple', 'es': [U(I, S_), I]}, [[None, 1], [1, None]]),
        ({'t': 'dict', 'k': 'dict', 'kt': S_, 'vt': U(LI, S_)}, [{'k': None}, {'k': ['a']}]),
        (U(LI, S_), [['a'], [1, 'Z'], ['1'], [[1]], [None], None, [1.5]]),
        (U(LI, I), [['a'], [1, 'Z'], [True]]),
        (U(DI, S_), [{'a': 'x'}, {'a': [1]}, {'a': None}]),
        (U(SI, S_), [['a'], [1, 'b']]),
        (U(TI, S_), [['a', 1], [1], [1, 2, 3]]),
        (U(LI, Fl, S_), [['a'], [1.5], ['1.5']]),
        ({'t': 'seq', 'k': 'list', 'e': U(LI, S_)}, [[['a']], [[1], ['b']]]),
    ]
    for ri, (ty, vals) in enumerate(regress):
        root = g3.root([copy.deepcopy(ty)], names=['val'], bases=['JSONWizard'] if ri % 2 == 0 else [])
        cases.append({'root': root, 'value': g3.value(root), 'seed': ri, 'n_mut': 2, 'labels': ['regress'], 'src': 'regress',
                      'extra_docs': [{'val': v} for v in vals]})
    # declaration styles: two DIFFERENT Enum classes with the same __name__ on different fields of one class
    # (directly, in a list, Optional, as dict value), members overlapping in value
    g5 = Gen(ctx.sub_rng('samename'), {'ext_names': 0.3})
    for ri in range(8 if ctx.tier == 'quick' else 40):
        mix = g5.r.choice(['plain', 'str', 'int'])
        def mk(off):
            i = g5.fresh()
            if mix == 'int':
                mem = [['M%d' % j, {'v': 'int', 'x': str(v)}] for j, v in enumerate([1, 2 + off, 3])]
            else:
                mem = [['M%d' % j, {'v': 'str', 'x': v}] for j, v in enumerate(['open', ['closed', 'done'][off], 'held'])]
            return {'t': 'enum', 'id': i, 'name': 'Status', 'mix': mix, 'members': mem}
        e1, e2 = mk(0), mk(1)
        w = g5.r.choice([None, 'list', 'opt', 'dictval', 'tuple2'])
        t2 = e2 if w is None else g5.wrap(w, e2)
        tys = [e1, t2] if ri % 2 == 0 else [t2, e1]
        root = g5.root(tys, bases=['JSONWizard'] if ri % 2 == 0 else [])
        cases.append({'root': root, 'value': g5.value(root), 'seed': 1000 + ri, 'n_mut': 2, 'labels': ['samename'] * 2, 'src': 'samename'})
    r2 = ctx.sub_rng('rand')
    for j in range(60 if ctx.tier == 'quick' else 500):
        g2 = Gen(r2, {'neg_timedelta': False, 'nonfinite': False, 'ext_names': 0.3, 'wild_names': 0.1, 'same_named_enums': 0.4,
               'name_families': 0.3, 'spellings': 0.3, 'no_flag': True})
        nf = r2.choice([1, 2, 3, 4])
        tys = [g2.rand_type(r2.choice([1, 2, 3])) for _ in range(nf)]
        defaults = {}
        for k, t in enumerate(tys):
            if r2.random() < 0.3:
                defaults[k] = g2.value(t)
        aliases = {k: r2.choice(['Alias', 'my-key', 'x.y', 'K']) + str(k) * (k > 0) for k in range(nf) if r2.random() < 0.15}
        root = g2.root(tys, aliases=aliases, defaults=defaults, bases=['JSONWizard'] if j % 2 == 0 else [])

        def tag_nested(t):
            if t['t'] == 'data' and t is not root and r2.random() < 0.5:
                t['tag'] = 'T%d' % t['id']
            for k in ('e', 'kt', 'vt'):
                if k in t: tag_nested(t[k])
            for e in t.get('es', []): tag_nested(e)
            for f in t.get('fields', []): tag_nested(f['ty'] if isinstance(f, dict) else f[1])
            for _, ft in t.get('req', []) + t.get('opt', []): tag_nested(ft)
        tag_nested(root)
        cases.append({'root': root, 'value': g2.value(root), 'seed': r2.getrandbits(48), 'n_mut': n_mut,
                      'labels': ['rand'] * nf, 'src': 'random'})
    # declaration styles: one class, several fields whose annotations are EQUAL but written differently
    # (Union[None, X] / Optional[X] / Union[X, None] / X | None; List[int] / list[int]; Dict / dict), in every order
    g6 = Gen(ctx.sub_rng('spell'), {'ext_names': 0.3, 'no_flag': True})
    import itertools
    xs_pool = [{'t': 'int'}, {'t': 'seq', 'k': 'list', 'e': {'t': 'int'}}, {'t': 'tok', 'k': 'date'}, {'t': 'str'},
               {'t': 'dict', 'k': 'dict', 'kt': {'t': 'str'}, 'vt': {'t': 'int'}}, None]
    si = 0
    for X in xs_pool:
        if X is None:
            i0 = g6.fresh(); a0 = g6.names(1)[0]
            X = {'t': 'data', 'id': i0, 'name': 'K%d' % i0, 'tag': None, 'fields': [{'name': a0, 'ty': {'t': 'int'}, 'alias': None, 'default': None}]}
        forms = [{'t': 'union', 'es': [{'t': 'none'}, X]}, {'t': 'opt', 'e': X}, {'t': 'opt', 'e': X, 'spell': 'union'}, {'t': 'opt', 'e': X, 'spell': 'pep604'}]
        if X['t'] in ('seq', 'dict'):
            forms += [dict(X, spell='builtin'), dict(X, spell='typing')]
        perms = list(itertools.permutations(range(len(forms)), 2)) if ctx.tier == 'quick' else list(itertools.permutations(range(len(forms)), 3))
        g6.r.shuffle(perms)
        for perm in perms[:6 if ctx.tier == 'quick' else 20]:
            tys = [copy.deepcopy(forms[k]) for k in perm]
            root = g6.root(tys, bases=['JSONWizard'] if si % 2 == 0 else [])
            # keep the declaration order of the permutation (no defaults here)
            cases.append({'root': root, 'value': g6.value(root), 'seed': 3000 + si, 'n_mut': 2, 'labels': ['spell'] * len(tys), 'src': 'spellings'})
            si += 1
    # Union members that are PARAMETRISED containers of every element type (str included) next to a scalar member
    g7 = Gen(ctx.sub_rng('unioncont'), {'ext_names': 0.3, 'no_flag': True})
    ui = 0
    for el in ('str', 'int', 'float', 'bool', 'decimal', 'date', 'enum_str', 'any'):
        for cont in ('list', 'dictval', 'set', 'vartuple'):
            if cont == 'set' and el == 'any':
                continue
            inner = g7.wrap(cont, g7.leaf(el))
            if inner is None:
                continue
            for other in ([{'t': 'int'}], [{'t': 'none'}, {'t': 'bool'}]):
                es = [inner] + copy.deepcopy(other)
                g7.r.shuffle(es)
                if es[0]['t'] == 'none':
                    es = es[1:] + es[:1]
                root = g7.root([{'t': 'union', 'es': es}], bases=[])
                v = g7.value(root)
                v['xs'][0] = g7.value(inner)
                cases.append({'root': root, 'value': v, 'seed': 4000 + ui, 'n_mut': 3, 'n_sys': 8, 'labels': ['unioncont'], 'src': 'unioncont'})
                ui += 1
    rh = ctx.sub_rng('history')
    for c in cases:
        if '"base"' in json.dumps(c['root']):
            c['pre_load_bases'] = rh.random() < 0.6      # history x inheritance: base classes loaded alone first
        c.setdefault('n_sys', 12 if ctx.tier == 'quick' else 16)
        c['exact_keys'] = not all_canonical(c['root'])
        c['load_first'] = rh.random() < 0.5       # history: first load before / after the first dump of the classes
    return cases


def strip(c, extra=None):
    d = {k: c[k] for k in ('root', 'value', 'seed', 'n_mut', 'n_sys', 'extra_docs', 'load_first', 'pre_load_bases', 'exact_keys') if k in c}
    if extra is not None:
        d['extra_docs'] = extra
        d['n_mut'] = 0
        d['n_sys'] = 0
    return d


def judge(ctx, engine, o, in_model_region=True):
    """Direct predicate on one load outcome. Returns (violations, known_regions)."""
    bad, known = [], []
    if not o.get('input_same', True):
        bad.append('%s: the input document was mutated by the load' % engine)
    if o.get('second_same') is False:
        bad.append('%s: loading the same document object a second time gives a different outcome (%s)' % (engine, o.get('second')))
    if 'show' in o and o.get('conf') is not None:
        rules = o.get('lax_rules') or []
        if o.get('lax_conf') is None and rules and all(ctx.is_open_region(x) for x in rules):
            known.extend(rules)
        else:
            bad.append('%s: returned a non-conforming instance: %s' % (engine, o['conf']))
    return bad, known


def run(ctx):
    # ---- listed findings: replay the witnesses -------------------------------------------------
    for f in ctx.findings('open'):
        w = f.get('witness')
        if w and w.get('kind') == 'doc':
            res = ctx.impl('c05', {'cases': [strip(w['case'], [w['doc']])]})['cases'][0]
            rec = [d for d in res['docs'] if d['kind'] == 'listed'][0]
            o = rec[w.get('engine', 'v0')]
            fails = ('show' in o and o.get('conf') is not None)
            ctx.count(1, key='witness:' + f['id'])
            ctx.known_finding(f['id'], still_fails=fails)

    cases = make_cases(ctx)
    results = []
    B = 150
    for i in range(0, len(cases), B):
        results.extend(ctx.impl('c05', {'cases': [strip(c) for c in cases[i:i + B]]}, timeout=1500)['cases'])

    # ---- model -----------------------------------------------------------------------------------
    # one group of <= 8 class models per coqc process; per class model one shared oracle table
    groups, where = [], []
    cur_pre, cur_ex, cur_n = [], [], 0
    for ci, (c, res) in enumerate(zip(cases, results)):
        if 'setup_err' in res or 'skip' in res:
            continue
        lets = ''.join('let %s := %s in ' % (n, t) for n, t in res['lets'])
        entries, seen = [], set()
        for d in res['docs']:
            for e in d.get('tbl', []):
                if e not in seen:
                    seen.add(e); entries.append(e)
        cur_pre.append('Definition ty_%d : ty := %s%s.' % (ci, lets, res['coq_t']))
        cur_pre.append('Definition tbl_%d : list ((pstr * pv) * option pv) := [%s].' % (ci, '; '.join(entries)))
        for di, d in enumerate(res['docs']):
            if 'coq_j' in d:
                cur_ex.append('show_res (load (tbl_orc tbl_%d) (mkL (S "__tag__")) ty_%d %s)' % (ci, ci, d['coq_j']))
                where.append((ci, di))
        cur_n += 1
        if cur_n >= 8:
            groups.append(('\n'.join(cur_pre), cur_ex)); cur_pre, cur_ex, cur_n = [], [], 0
    if cur_ex:
        groups.append(('\n'.join(cur_pre), cur_ex))
    model = {}
    try:
        outs = coq_eval_groups(ctx, groups, ['CoreLoad'])
        model = dict(zip(where, outs))
    except Exception as e:
        ctx.broken_tie('model evaluation failed: %s' % str(e)[:800])

    # ---- compare + direct predicates ---------------------------------------------------------------
    n_dis = n_unmod = n_cmp = 0
    for ci, (c, res) in enumerate(zip(cases, results)):
        if 'skip' in res:
            ctx.hist('skipped', res['skip'])
            continue
        if 'setup_err' in res:
            ctx.violation('harness could not build a generated case (generator bug)', {'kind': 'setup', 'case': strip(c), 'err': res['setup_err']}, no_input=True)
            continue
        for t in c['root']['fields']:
            h = {}
            type_stats(t['ty'], h)
            for k in h:
                ctx.hist('type_constructor', k)
        for di, d in enumerate(res['docs']):
            key = '%s|%s' % (json.dumps(c['root'], sort_keys=True)[:300], json.dumps(d.get('doc'), sort_keys=True, default=str)[:300])
            for eng in ('v0', 'v1', 'v0_json'):
                if eng not in d:
                    continue
                o = d[eng]
                ctx.count(1, key=eng + '|' + key, nontrivial=(d['kind'] != 'welltyped' or any(f['ty']['t'] not in ('int', 'str', 'bool', 'float') for f in c['root']['fields'])))
                ctx.hist('outcome_' + eng, 'returns' if 'show' in o else 'raises')
                if 'err' in o:
                    ctx.hist('error_' + eng, o['err'])
                bad, known = judge(ctx, eng, o)
                for kf in known:
                    ctx.hist('known_region', kf)
                if bad:
                    ctx.violation('C05 direct predicate fails: %s' % '; '.join(bad),
                                  {'kind': 'doc', 'case': strip(c), 'doc': d.get('doc'), 'engine': eng})
            ctx.hist('doc_kind', d['kind'])
            ctx.hist('history', 'load-first' if c.get('load_first') else 'dump-first')
            m = model.get((ci, di))
            if m is None:
                continue
            if res.get('alias_reordered'):
                # typing returned a cached alias with another Union argument order inside this very class model
                ctx.hist('model_skipped', 'typing alias cache reordered a Union')
                continue
            if res.get('f56'):
                # finding F56 (listed under C01): defaultdict[..., X | Y] cannot be loaded at all (TypeError); not in the model
                ctx.hist('model_skipped', 'F56 defaultdict pep604 union value')
                continue
            o = d['v0']
            if m.startswith('!U') or m.startswith('!M'):
                n_unmod += 1
                ctx.hist('model_skipped', m[:40])
                continue
            n_cmp += 1
            ctx.traces_validated += 1
            impl_txt = canon_show(o['show']) if 'show' in o else '!R'
            model_txt = '!R' if m.startswith('!R') else canon_show(m)
            if impl_txt != model_txt:
                n_dis += 1
                ctx.disagreements_checked += 1
                if n_dis <= 5:
                    ctx.broken_tie('load model and fromdict disagree',
                                   {'case': strip(c), 'doc': d.get('doc'), 'impl': (o.get('show') or o.get('err'))[:1200], 'model': m[:1200]})
            if len(ctx.samples) < 6 and d['kind'] != 'welltyped' and (ci % 7 == 0):
                ctx.sample({'fields': [(f['name'], f['ty']['t']) for f in c['root']['fields']][:4], 'doc': json.dumps(d.get('doc'), default=str)[:200],
                            'default_engine': o.get('show', o.get('err'))[:120], 'v1': d['v1'].get('show', d['v1'].get('err'))[:120], 'model': m[:120]})
    ctx.notes.append('classes=%d documents=%d model_compared=%d model_skipped(unmodelled/oracle)=%d disagreements=%d' % (
        len(cases), sum(len(r.get('docs', [])) for r in results), n_cmp, n_unmod, n_dis))
    if n_cmp and n_unmod > 0.25 * (n_cmp + n_unmod):
        ctx.broken_tie('more than 25%% of the documents fall outside the modelled fragment (%d of %d)' % (n_unmod, n_cmp + n_unmod))
    # ---- v1 engine: specification / generated code / conforms_v1 against the implementation and the Python checker
    run_v1_model(ctx)


# ============================================================================ v1 engine: model tie
# Class models in the vocabulary of the v1 model (props/c02gen.py, props/c02.py: read-only, shared with
# C02 / C14), run by the v1 runner harness/impl/c02.py.  Per document: load_cls (specification) and run_main
# (generated code) of the Gallina model, the verdicts of conforms_v1 on what the model returns, the audit of the
# oracle table (premise leaf_sound of C05_v1_conforms) - against the implementation's outcome and against the
# independent Python conformance checker below (transcribed from the property text, over runner trees).
V1_JUNK = [['N'], ['B', True], ['B', False], ['I', '0'], ['I', '1'], ['I', '-7'], ['I', str(2 ** 70)], ['F', (1.5).hex()], ['F', (1.0).hex()],
           ['F', 'nan'], ['F', 'inf'], ['S', ''], ['S', 'abc'], ['S', '1'], ['S', '1.5'], ['S', 'true'], ['S', 'r'], ['S', '2020-01-01'],
           ['S', '12:30:00'], ['S', 'YQ=='], ['S', '00000000-0000-0000-0000-000000000000'], ['L', []], ['L', [['I', '1']]],
           ['L', [['S', 'a'], ['S', 'b']]], ['L', [['N']]], ['L', [['L', [['I', '1']]]]], ['D', None, []],
           ['D', None, [[['S', 'a'], ['I', '1']]]], ['L', [['I', '1'], ['I', '2'], ['I', '3']]], ['L', [['B', True], ['S', 'x']]],
           ['D', None, [[['S', 'rk'], ['S', '1']], [['S', 'zz'], ['N']]]], ['S', 'ab']]


def v1_leaf_conf(l, v):
    """a value of a leaf annotation: the concrete Python type (bool is not an int)"""
    if l == 'any':
        return True
    tag = {'str': 'S', 'int': 'I', 'float': 'F', 'bool': 'B', 'none': 'N', 'nonebare': 'N', 'bytes': 'Y', 'bytearray': 'A'}.get(l)
    if tag is not None:
        return v[0] == tag
    return v[0] == 'O' and v[1] == l


def v1_conf(t, v, m):
    """independent conformance checker over runner trees (harness/impl/c02.py tree_of); None = conforms, else why not"""
    from props import c02gen as G
    k = t['k']
    if k == 'leaf':
        return None if v1_leaf_conf(t['l'], v) else 'leaf %s holds %s' % (t['l'], v[0] + (':' + str(v[1]) if v[0] == 'O' else ''))
    if k == 'seq':
        if v[0] != G.SEQ_TAG[t['kind']]:
            return '%s holds %s' % (t['kind'], v[0])
        for x in v[1]:
            w = v1_conf(t['t'], x, m)
            if w: return w
        return None
    if k == 'tuple':
        if v[0] != 'T' or len(v[1]) != len(t['ts']):
            return 'fixed tuple of %d holds %s/%s' % (len(t['ts']), v[0], len(v[1]) if v[0] == 'T' else '-')
        for tt, x in zip(t['ts'], v[1]):
            w = v1_conf(tt, x, m)
            if w: return w
        return None
    if k == 'dict':
        want = G.dd_factory(t['vt']) if t['dd'] else 'OrderedDict' if t.get('od') else None
        if v[0] != 'D' or v[1] != want:
            return 'dict(%s) holds %s(%s)' % (want, v[0], v[1] if v[0] == 'D' else '')
        for kk, x in v[2]:
            w = v1_conf(t['kt'], kk, m) or v1_conf(t['vt'], x, m)
            if w: return w
        return None
    if k in ('opt', 'optr'):
        return None if v == ['N'] else v1_conf(t['t'], v, m)
    if k == 'union':
        ws = [v1_conf(x, v, m) for x in t['ts']]
        return None if any(w is None for w in ws) else 'no Union member: ' + '; '.join(ws)[:200]
    if k == 'lit':
        trees = [['N'] if a is None else ['B', a] if isinstance(a, bool) else ['I', str(a)] if isinstance(a, int) else ['S', a] for a in t['vs']]
        return None if v in trees else 'not a Literal member: %s' % (v,)
    if k == 'named':
        fs = m['named'][t['name']]
        if v[0] != 'M' or v[1] != G.nt_name(m, t['name']) or len(v[2]) != len(fs):
            return 'NamedTuple %s holds %s' % (t['name'], v[:2])
        for (_, tt), x in zip(fs, v[2]):
            w = v1_conf(tt, x, m)
            if w: return w
        return None
    if k == 'typed':
        d = m['typed'][t['name']]
        if v[0] != 'D' or v[1] is not None:
            return 'TypedDict holds %s' % (v[:2],)
        tys = dict((key, tt) for key, tt in d['req'] + d['opt'])
        have = {}
        for kk, x in v[2]:
            if kk[0] != 'S' or kk[1] not in tys:
                return 'TypedDict %s has undeclared key %s' % (t['name'], kk)
            have[kk[1]] = x
            w = v1_conf(tys[kk[1]], x, m)
            if w: return w
        miss = [key for key, _ in d['req'] if key not in have]
        return 'TypedDict %s lacks %s' % (t['name'], miss) if miss else None
    if k == 'data':
        cd = m['classes'][t['c']]
        if v[0] != 'C' or v[1] != cd['name'] or [f for f, _ in v[2]] != [f['name'] for f in cd['fields']]:
            return 'class %s holds %s' % (cd['name'], v[:2])
        for f, (_, x) in zip(cd['fields'], v[2]):
            w = v1_conf(f['ty'], x, m)
            if w: return 'field %s.%s: %s' % (cd['name'], f['name'], w)
        return None
    return 'unknown annotation kind %s' % k


def v1_coq_val(v, m):
    """runner tree -> Gallina pv, instances included"""
    from props import c02gen as G
    tag = v[0]
    if tag == 'C':
        c = [i for i, cd in enumerate(m['classes']) if cd['name'] == v[1]][0]
        return '(VInst %d %s)' % (c, G.clist(['(%s, %s)' % (G.cstr(f), v1_coq_val(x, m)) for f, x in v[2]]))
    if tag in G.TAG_SEQ:
        return '(VSeq %s %s)' % (G.COQ_KIND[G.TAG_SEQ[tag]], G.clist([v1_coq_val(x, m) for x in v[1]]))
    if tag == 'D':
        dd = 'None' if v[1] is None else '(Some %s)' % G.cstr(v[1])
        return '(VDict %s %s)' % (dd, G.clist(['(%s, %s)' % (v1_coq_val(k, m), v1_coq_val(x, m)) for k, x in v[2]]))
    if tag == 'M':
        return '(VNamed %s %s)' % (G.cstr(v[1]), G.clist([v1_coq_val(x, m) for x in v[2]]))
    if tag == 'F' and v[1] in ('nan', 'inf', '-inf'):
        return '(VFloat %s)' % G.cstr(v[1])
    return G.coq_pv(v)


def v1_paths(v, pre=()):
    """every node of a tree (documents and values alike): path = tuple of ('i', n) | ('k', n) | ('v', n) | ('f', n)"""
    out = [pre]
    tag = v[0]
    if tag in ('L', 'T', 'E', 'Z', 'Q'):
        for i, x in enumerate(v[1]):
            out += v1_paths(x, pre + (('i', i),))
    elif tag == 'D':
        for i, (kk, x) in enumerate(v[2]):
            out += v1_paths(x, pre + (('v', i),))
    elif tag == 'M':
        for i, x in enumerate(v[2]):
            out += v1_paths(x, pre + (('m', i),))
    elif tag == 'C':
        for i, (f, x) in enumerate(v[2]):
            out += v1_paths(x, pre + (('f', i),))
    return out


def v1_get(v, path):
    for s, i in path:
        v = v[1][i] if s == 'i' else v[2][i][1] if s in ('v', 'f') else v[2][i]
    return v


def v1_set(v, path, new):
    if not path:
        return new
    v = copy.deepcopy(v)
    cur = v1_get(v, path[:-1])
    s, i = path[-1]
    if s == 'i': cur[1][i] = new
    elif s in ('v', 'f'): cur[2][i][1] = new
    else: cur[2][i] = new
    return v


def v1_mutations(doc, r, n):
    """malformed stream over a well-typed document: junk at a position, list one shorter / one longer / doubled,
    key dropped / renamed / added, ==-but-differently-typed scalars"""
    out = []
    paths = v1_paths(doc)
    for _ in range(n * 3):
        if len(out) >= n:
            break
        path = r.choice(paths)
        node = v1_get(doc, path)
        c = r.random()
        if node[0] == 'D' and c < 0.45 and node[2]:
            new = copy.deepcopy(node)
            i = r.randrange(len(new[2]))
            w = r.random()
            if w < 0.35: del new[2][i]
            elif w < 0.55 and new[2][i][0][0] == 'S': new[2][i][0] = ['S', new[2][i][0][1].upper()]
            elif w < 0.8: new[2].append([['S', 'zzUnknown'], r.choice(V1_JUNK)])
            else: new[2].append(copy.deepcopy(new[2][i]))
            out.append((v1_set(doc, path, new), 'keys'))
        elif node[0] == 'L' and c < 0.5:
            w = r.random()
            new = ['L', node[1][:-1]] if (w < 0.4 and node[1]) else ['L', node[1] + [r.choice(V1_JUNK)]] if w < 0.75 else ['L', node[1] + node[1]]
            out.append((v1_set(doc, path, new), 'arity'))
        elif node[0] in ('I', 'B', 'F', 'S') and c < 0.3:
            if node[0] == 'I':
                alt = [['S', node[1]]] + ([['F', float(int(node[1])).hex()]] if abs(int(node[1])) < 2 ** 53 else [])
            elif node[0] == 'B':
                alt = [['I', str(int(node[1]))], ['F', float(node[1]).hex()]]
            elif node[0] == 'F':
                alt = [['S', node[1]]]
            else:
                alt = [['L', [['S', ch] for ch in node[1][:3]]]]
            out.append((v1_set(doc, path, r.choice(alt)), 'eqtype'))
        else:
            out.append((v1_set(doc, path, copy.deepcopy(r.choice(V1_JUNK))), 'junk'))
    return out


def v1_models(ctx):
    from props import c02 as C2
    from props import c02gen as G
    r = ctx.sub_rng('v1models')
    quick = ctx.tier == 'quick'
    # every leaf x every container context (depth 1), a rotating sample of depth 2, atoms (Unions / Literals) in every context
    pool = []
    # `optr` (Union[None, T], None first) is left out: typing caches Union objects modulo argument order, so once one model of the
    # interpreter has created Union[None, bytes] a later model's Optional[bytes] IS that object and shows F52 of C02 (always None) -
    # a history artefact of running many models in one interpreter; Union[None, X] is covered by the `spellings` cases above
    ctxs = [c for c in C2.CONTEXTS if c != 'optr']
    for l in C2.ALL_LEAVES:
        pool.append(([], l))
        for c in ctxs:
            pool.append(([c], l))
    for _, mk in C2.ATOMS:
        pool.append(([], mk))
        for c in ctxs:
            pool.append(([c], mk))
    d2 = [([a, b], l) for l in C2.ALL_LEAVES for a in ctxs for b in ctxs]
    r.shuffle(d2)
    pool += d2[:(60 if quick else 500)]
    r.shuffle(pool)
    n_models = 20 if quick else 110
    pool = pool[:n_models * 4]
    out = []
    for mi in range(n_models):
        mb = C2.MB(900 + mi, key_case=[None, 'AUTO', 'CAMEL'][mi % 3])
        mb.cls([])
        fields = []
        for cs, l in pool[mi * 4:(mi + 1) * 4]:
            t = C2.compose(cs, l() if callable(l) else l, mb)
            if t is None:
                continue
            if any(c in ('dictk', 'ddictk', 'odictk') for c in cs) and not C2.json_keys_ok(t, mb.m):
                continue
            fields.append(t)
        # a nested chain: Root -> (container of) Mid -> Optional[Leaf]; one defaulted field per class; one recursive edge
        leafc = mb.cls([('leaf_num', G.leaf('int')), ('leaf_tag', G.lit('a', 'b', 3), None), ('note', G.leaf('str'), 'str0')])
        midc = mb.cls([('my_leaf', G.opt(G.data(leafc))), ('vals', G.seq('list', G.union(G.leaf('int'), G.leaf('str')))),
                       ('extra', G.opt(G.leaf('int')), 'none')])
        mb.m['classes'][midc]['fields'].append({'name': 'again', 'ty': G.opt(G.data(midc)), 'default': 'none'})
        wrap = r.choice(['id', 'list', 'dictv', 'opt', 'tup1', 'named', 'typedr', 'typedo'])
        nest = G.data(midc) if wrap == 'id' else C2.CONTEXTS[wrap](G.data(midc), mb)
        names = list(G.FIELD_NAMES)
        r.shuffle(names)
        fs = [{'name': names[i], 'ty': t, 'default': None} for i, t in enumerate(fields)] + [{'name': 'the_mid', 'ty': nest, 'default': None}]
        r.shuffle(fs)
        mb.m['classes'][0]['fields'] = fs + [{'name': 'opt_num', 'ty': G.leaf('int'), 'default': 'int0'}]
        mb.m['classes'][0]['name'] = 'V1Root%d' % mi
        out.append(mb)
    return out


def v1_ascii(t):
    """restrict generated text leaves to ASCII (the Gallina strings are byte strings)"""
    if t[0] == 'S':
        return ['S', ''.join(ch if ord(ch) < 128 else 'x' for ch in t[1])]
    if t[0] in ('L', 'T', 'E', 'Z', 'Q'):
        return [t[0], [v1_ascii(x) for x in t[1]]]
    if t[0] == 'D':
        return ['D', t[1], [[v1_ascii(k), v1_ascii(x)] for k, x in t[2]]]
    if t[0] == 'M':
        return ['M', t[1], [v1_ascii(x) for x in t[2]]]
    if t[0] == 'C':
        return ['C', t[1], [[f, v1_ascii(x)] for f, x in t[2]]]
    return t


def run_v1_model(ctx):
    import os
    from props import c02 as C2
    from props import c02gen as G
    quick = ctx.tier == 'quick'
    mbs = v1_models(ctx)
    r = ctx.sub_rng('v1docs')
    kinds = []
    for mb in mbs:
        m = mb.m
        inst = v1_ascii(C2.gen_inst(ctx.sub_rng('v1inst', mb.mi), 0, m))
        doc = G.dump_doc(inst, G.data(0), m, ctx.sub_rng('v1keys', mb.mi))
        muts = v1_mutations(doc, r, 12 if quick else 24)
        m['instances'] = []
        m['docs'] = [doc] + [d for d, _ in muts]
        kinds.append(['welltyped'] + [k for _, k in muts])
    impl = ctx.impl('c02', {'models': [mb.m for mb in mbs]}, timeout=1200)['models']

    # ---- direct predicates on the implementation (independent of the model)
    vals_for_checker = {}
    for mi, (mb, res) in enumerate(zip(mbs, impl)):
        m = mb.m
        if res.get('setup_err') or res.get('gen_err'):
            ctx.broken_tie('harness could not set up v1 model %d' % mi, str(res.get('setup_err') or res.get('gen_err'))[:1500])
            continue
        for l, o, v, a in res['oracle']:
            # premise leaf_sound, audited on the implementation: a leaf loader that returns, returns its own type
            ctx.count(1, key='v1leaf|%s|%s|%s' % (l, o, json.dumps(v)), nontrivial=False)
            if 'ok' in a and not v1_leaf_conf(l, a['ok']) and not (o and a['ok'] == ['N']):
                ctx.violation('C05 direct predicate fails: v1 leaf loader for %s returned a value of another type (%s)' % (l, a['ok'][:2]),
                              {'kind': 'v1leaf', 'leaf': l, 'inopt': o, 'value': v})
        for di, (d, out) in enumerate(zip(m['docs'], res.get('docs', []))):
            ctx.count(1, key='v1m|%d|%s' % (mi, json.dumps(d, sort_keys=True)[:400]), nontrivial=(di > 0))
            ctx.hist('v1_doc_kind', kinds[mi][di])
            ctx.hist('outcome_v1_model_stream', 'returns' if 'ok' in out else 'raises')
            if 'ok' in out:
                why = v1_conf(G.data(0), out['ok'], m)
                if why:
                    ctx.violation('C05 direct predicate fails: v1: returned a non-conforming instance: %s' % why,
                                  {'kind': 'v1doc', 'model': {**m, 'docs': [d], 'instances': []}})
                elif di == 0:
                    vals_for_checker[mi] = out['ok']

    # ---- model side
    shards, index = [], []
    try:
        for mi, (mb, res) in enumerate(zip(mbs, impl)):
            if res.get('setup_err') or res.get('gen_err') or 'keys' not in res:
                continue
            m = mb.m
            try:
                pre = 'Definition ct : ctable := %s.\nDefinition tb : list oentry := %s.' % (
                    G.coq_ct(m, res['keys']),
                    # the runner's oracle box for an Optional leaf answers None for None; the model never asks `conv l true None`
                    # (TOpt answers None itself), so that artefact entry is left out - were it asked, the model would answer XOracle (never a pass)
                    G.coq_oracle([(l, o, v, a) for l, o, v, a in res['oracle'] if not (o and v == ['N'])]))
                exs = ['case_conf tb ct %d 0 %s' % (C2.BUDGET, G.coq_pv(d)) for d in m['docs']]
            except ValueError as e:
                ctx.hist('v1_model_skipped', str(e)[:60])
                continue
            idx = [(mi, 'doc', di) for di in range(len(exs))]
            # the two conformance checkers on the SAME (mostly non-conforming) values: the loaded instance with one position replaced
            base = vals_for_checker.get(mi)
            if base is not None:
                rr = ctx.sub_rng('v1vals', mi)
                ps = v1_paths(base)
                for _ in range(4 if quick else 8):
                    pth = rr.choice(ps)
                    node = v1_get(base, pth)
                    w = rr.random()
                    if node[0] in ('L', 'T', 'Q') and w < 0.4:
                        new = [rr.choice(['L', 'T', 'Q']), node[1][:-1] if (node[1] and w < 0.2) else node[1]]
                    elif node[0] == 'D' and w < 0.4 and node[2]:
                        new = ['D', node[1], node[2][:-1]]
                    else:
                        new = rr.choice(V1_JUNK)
                    val = v1_set(base, pth, copy.deepcopy(new))
                    if val[0] != 'C':
                        continue
                    try:
                        exs.append('show_b (conforms_cls ct false %d 0 %s)' % (C2.BUDGET, v1_coq_val(val, m)))
                        idx.append((mi, 'val', val))
                    except (ValueError, IndexError):
                        pass
            SH = 30
            for i in range(0, len(exs), SH):
                shards.append((pre, exs[i:i + SH]))
                index.append(idx[i:i + SH])
        outs = G.coq_shards(os.path.join(ctx.workdir, 'v1conf'), C2.IMPORTS + ['V1Conf'], shards, jobs=6 if quick else 10, timeout=900)
    except Exception as e:
        ctx.broken_tie('v1 model evaluation failed: %s' % str(e)[:800])
        return
    n_cmp = n_dis = n_ok = n_vals = n_vals_bad = 0
    for idx, out in zip(index, outs):
        for (mi, what, x), o in zip(idx, out):
            m = mbs[mi].m
            if what == 'val':
                n_vals += 1
                py = v1_conf(G.data(0), x, m) is None
                n_vals_bad += (not py)
                ctx.traces_validated += 1
                if (o == '1') != py:
                    ctx.disagreements_checked += 1
                    ctx.broken_tie('conforms_v1 (Coq) and the Python conformance checker disagree on a value',
                                   {'value': x, 'coq': o, 'python': v1_conf(G.data(0), x, m), 'classes': m['classes']})
                continue
            d = m['docs'][x]
            iout = impl[mi]['docs'][x]
            parts = o.split('#')
            spec, code = G.parse_res(parts[0], m), G.parse_res(parts[1], m)
            n_cmp += 1
            ctx.traces_validated += 1
            if 'marker' in spec:
                ctx.hist('v1_model_skipped', 'marker ' + spec['marker'])
                continue
            bad = []
            if parts[3] != '1':
                bad.append('oracle table violates leaf_sound (premise of C05_v1_conforms)')
            if parts[0] != parts[1]:
                bad.append('generated code and specification differ in the model (names not distinct?)')
            # C05 compares returns-vs-raises and the returned value (which error is raised is C14's subject)
            if ('ok' in spec) != ('ok' in iout) or ('ok' in spec and G.norm(spec['ok']) != G.norm(iout['ok'])):
                bad.append('load_cls (model) and fromdict (v1) disagree')
            if 'ok' in spec:
                n_ok += 1
                if parts[2][1] != '1':
                    bad.append('conforms_v1 rejects what load_v1 returned (instance of the theorem fails?)')
                if parts[4] == '1' and parts[2][0] != '1':
                    bad.append('strict conforms_v1 rejects the result although every declared default conforms')
                why = v1_conf(G.data(0), spec['ok'], m)
                if why:
                    bad.append('the Python checker rejects what the model returned: %s' % why)
            if bad:
                n_dis += 1
                ctx.disagreements_checked += 1
                if n_dis <= 5:
                    ctx.broken_tie('v1 model tie: ' + '; '.join(bad),
                                   {'doc': d, 'impl': {k: v for k, v in iout.items() if k in ('ok', 'err', 'kind', 'cls', 'fld', 'names')},
                                    'model': o[:1500], 'classes': m['classes'], 'named': m['named'], 'typed': m['typed'], 'key_case': m.get('key_case')})
    ctx.notes.append('v1 model: classes=%d documents=%d (model returns on %d) disagreements=%d; checker-vs-checker values=%d (non-conforming %d)' % (
        len(mbs), n_cmp, n_ok, n_dis, n_vals, n_vals_bad))


def replay_v1(ctx, obj):
    from props import c02gen as G
    if obj['kind'] == 'v1leaf':
        res = ctx.impl('c02', {'models': [{'classes': [{'name': 'LeafOnly', 'fields': [{'name': 'xval', 'ty': G.leaf(obj['leaf']) if not obj['inopt'] else G.opt(G.leaf(obj['leaf'])), 'default': None}]}],
                                          'named': {}, 'typed': {}, 'key_case': None, 'dump': None, 'root': 0, 'instances': [],
                                          'docs': [['D', None, [[['S', 'xval'], obj['value']]]]], 'json': True}]})['models'][0]
        out = res['docs'][0]
        m = {'classes': [{'name': 'LeafOnly', 'fields': [{'name': 'xval', 'ty': G.leaf(obj['leaf']) if not obj['inopt'] else G.opt(G.leaf(obj['leaf']))}]}], 'named': {}, 'typed': {}}
    else:
        m = obj['model']
        res = ctx.impl('c02', {'models': [m]})['models'][0]
        if res.get('setup_err') or res.get('gen_err'):
            print('setup failed: %s' % (res.get('setup_err') or res.get('gen_err'))); return False
        out = res['docs'][0]
    if 'ok' not in out:
        print('v1: raises %s -> property holds' % out.get('err')); return True
    why = v1_conf(G.data(0), out['ok'], m)
    print('v1: %s -> %s' % (json.dumps(out['ok'])[:300], ('non-conforming: ' + why) if why else 'property holds'))
    return why is None


def replay(ctx, obj):
    if obj.get('kind') in ('v1doc', 'v1leaf'):
        return replay_v1(ctx, obj)
    if obj.get('kind') == 'doc':
        res = ctx.impl('c05', {'cases': [strip(obj['case'], [obj['doc']])]})['cases'][0]
        if 'setup_err' in res:
            print('setup failed: %s' % res['setup_err']); return False
        rec = [d for d in res['docs'] if d['kind'] == 'listed'][0]
        ok = True
        for eng in ('v0', 'v1', 'v0_json'):
            if eng in rec and (obj.get('engine') in (None, eng)):
                o = rec[eng]
                bad = []
                if not o.get('input_same', True): bad.append('input mutated')
                if 'show' in o and o.get('conf') is not None: bad.append('non-conforming: %s' % o['conf'])
                print('%s: %s -> %s' % (eng, o.get('show') or ('raises ' + o.get('err', '?')), '; '.join(bad) or 'property holds'))
                ok = ok and not bad
        return ok
    print('replay object names a broken tie, not an input: %s' % json.dumps(obj, default=str)[:1500])
    return False
