"""C18, stream C (helper of props/c18.py, not a property module): the generated EnvWizard.__init__ as the source
spells it, on the dimensions of coq/model/EnvInit.v:

  * secrets directories AS THE FILE SYSTEM PRESENTS THEM: 1-3 paths per instantiation (list / tuple / str /
    Path), each absent, a regular file (-> ValueError), or a directory whose entries are regular files
    (name = variable, content verbatim: trailing newline / blanks kept, empty content) or sub-directories
    named like a variable (ignored); overlapping names in several directories (later wins);
    Meta.secrets_dir vs the `_secrets_dir` argument (argument overrides, also `_secrets_dir=None`);
  * several dotenv files (Meta.env_file / `_env_file` argument / `_env_file=False`), overlapping with the
    secrets names and with os.environ;
  * `_env_prefix` argument vs Meta.env_prefix (also None / '');
  * fields without default / with `default` / with `default_factory` (one counting factory per process:
    the value of the attribute tells which call produced it), keyword subsets incl. keywords for factory fields.

Model: `show_history` (sources, lookups.environ, os.environ; instantiate_fs = OpInst with
`set_secrets a (map dir_env dirs)`, a ValueError instantiation = the reload it performed), `show_stamps`
(factory call stamps per attribute), `show_secret_values` (Env.secret_values called directly).
Direct predicates (independent reference below, written from the property text): attribute values =
keyword > variable (os.environ overlaid by the directories in order, then the dotenv files in order;
SCREAMING then as-written spelling of prefix+name) > default > MissingVars naming all; ValueError iff a path
is a file; os.environ identical around every library call; no two attributes of any instances of the history
share a default_factory result (object identity) and stamps increase; a `default` value is the class's object."""
import json
from lib.coqrun import coq_str, coq_list, coq_bool, coq_opt

NAMES = ['my_var', 'host', 'api_key', 'items', 'tags', 'port_no']
PREFIXES = ['P_', 'q_', 'App_']
TAILS = ['', '', '\n', '\n', '  ', '\n\n', ' x', '\t']


def spell(prefix, name):
    key = (prefix or '') + name
    return [key.upper(), key]


def gen_dir(r, cands, tag, hot):
    kind = r.choice(['dir'] * 8 + ['absent'] * 2 + ['file'])
    if kind != 'dir':
        return {'kind': kind}
    entries, used = [], set()
    pool = list(cands)
    r.shuffle(pool)
    for n in hot + pool[:r.randint(0, 4)]:
        if n in used or (n in hot and r.random() < 0.15):
            continue
        used.add(n)
        if r.random() < 0.12:
            entries.append([n, 'sub'])
        else:
            body = r.choice(['', '%s:%s' % (tag, n), '%s:%s' % (tag, n), '%s %s' % (tag, n.lower())])
            entries.append([n, 'file', body + r.choice(TAILS)])
    if r.random() < 0.3:
        entries.append(['zz_%s' % tag, 'file', 'junk'])
    r.shuffle(entries)
    return {'kind': 'dir', 'entries': entries}


def gen_case(r, hid):
    ncls = r.choice([1, 1, 2])
    classes, cands = [], []
    files = {}
    for ci in range(ncls):
        fields = []
        for n in r.sample(NAMES, r.randint(2, 4)):
            if n in ('items', 'tags'):
                fields.append({'name': n, 'type': 'List[int]', 'kind': r.choice(['factory', 'factory', 'factory', 'none'])})
            else:
                k = r.choice(['none', 'value', 'value'])
                f = {'name': n, 'type': 'str', 'kind': k}
                if k == 'value':
                    f['default'] = 'dflt_' + n
                fields.append(f)
        if not any(f['kind'] == 'factory' for f in fields) and r.random() < 0.7:
            fields.append({'name': 'extra_items', 'type': 'List[int]', 'kind': 'factory'})
        c = {'name': 'I%s_%d' % (hid, ci), 'fields': fields,
             'prefix': r.choice([None, None, ''] + PREFIXES)}
        classes.append(c)
    prefs = sorted({c['prefix'] or '' for c in classes} | set(r.sample(PREFIXES, 2)) | {''})
    by_name = {}
    for c in classes:
        for f in c['fields']:
            for p in prefs:
                for s in spell(p, f['name']):
                    by_name[s] = f
    cands = sorted(by_name)

    def val(n, tag):
        f = by_name[n]
        if f['type'] == 'List[int]':
            return r.choice(['1,2', '7', '3,4,5', '10, 20'])
        return '%s:%s' % (tag, n)

    os0 = {n: val(n, 'os') for n in cands if r.random() < 0.35}
    os0['ZZ_OTHER'] = 'z'
    hot = r.sample(cands, min(len(cands), r.randint(1, 3)))
    nfiles = r.randint(0, 3)
    for k in range(nfiles):
        names = [n for n in cands if r.random() < 0.25] + [h for h in hot if r.random() < 0.7]
        files[str(k)] = [[n, val(n, 'f%d' % k)] for n in dict.fromkeys(names)]
    dcount = [0]

    def dirs(k):
        out = []
        for _ in range(k):
            dcount[0] += 1
            d = gen_dir(r, [n for n in cands if by_name[n]['type'] == 'str'], 'd%d' % dcount[0],
                        [h for h in hot if by_name[h]['type'] == 'str'])
            out.append(d)
        return out

    for c in classes:
        if files and r.random() < 0.3:
            c['env_file'] = r.sample(sorted(files), r.randint(1, len(files)))
        if r.random() < 0.4:
            c['meta_dirs'] = [d for d in dirs(r.choice([1, 2])) if d['kind'] != 'file'] or None
    ops = []
    for _ in range(r.randint(3, 8)):
        x = r.random()
        if x < 0.2:
            n = r.choice(cands)
            ops.append({'op': 'set', 'k': n, 'v': val(n, 'set%d' % len(ops))})
        elif x < 0.3:
            ops.append({'op': 'del', 'k': r.choice(cands)})
        else:
            ci = r.randrange(ncls)
            c = classes[ci]
            o = {'op': 'inst', 'cls': ci, 'reload': r.random() < 0.8, 'kwargs': {}}
            for f in c['fields']:
                if r.random() < 0.2:
                    o['kwargs'][f['name']] = r.choice([[9], [], [4, 4]]) if f['type'] == 'List[int]' else 'kw:' + f['name']
            y = r.random()
            if y < 0.55:
                o['dirs'] = dirs(r.choice([1, 2, 2, 3]))
                o['dirs_form'] = r.choice(['list', 'tuple', 'paths'] + (['str', 'path'] if len(o['dirs']) == 1 else []))
            elif y < 0.65:
                o['dirs'] = r.choice([None, []])
            if any(d['kind'] == 'file' for d in (o.get('dirs') or [])):
                o['reload'] = True          # the model expresses the aborted instantiation by the reload it performed
            z = r.random()
            if files and z < 0.45:
                o['env_file'] = r.sample(sorted(files), r.randint(1, len(files)))
            elif z < 0.55:
                o['env_file'] = False
            if r.random() < 0.35:
                o['prefix'] = r.choice([None, ''] + prefs)
            ops.append(o)
    if not any(o['op'] == 'inst' for o in ops):
        ops.append({'op': 'inst', 'cls': 0, 'reload': True, 'kwargs': {}})
    return {'id': hid, 'os0': os0, 'files': files, 'classes': classes, 'ops': ops}


# ---- what the instantiation sees --------------------------------------------------------------------------
def eff_dirs(c, o):
    if 'dirs' in o:
        return o['dirs'] or []
    return c.get('meta_dirs') or []


def eff_files(h, c, o):
    if 'env_file' in o:
        ids = o['env_file'] or []
    else:
        ids = c.get('env_file') or []
    return [h['files'][str(i)] for i in ids]


def eff_prefix(c, o):
    return (o['prefix'] if 'prefix' in o else c.get('prefix')) or ''


# ---- Coq terms -------------------------------------------------------------------------------------------------
def coq_env(pairs):
    return coq_list(['(%s, %s)' % (coq_str(k), coq_str(v)) for k, v in pairs])


def coq_sdir(d):
    if d['kind'] == 'absent':
        return 'SDAbsent'
    if d['kind'] == 'file':
        return 'SDIsFile'
    return '(SDDir %s)' % coq_list(['(%s, %s)' % (coq_str(e[0]), '(DEFile %s)' % coq_str(e[2]) if e[1] == 'file' else 'DEOther')
                                    for e in d['entries']])


KIND = {'none': 'DKNone', 'value': 'DKValue', 'factory': 'DKFactory'}


def coq_case(h):
    """one pstr: show_history \\005 show_stamps \\005 show_secret_values of every instantiation (\\004-joined)"""
    lets = []
    for ci, c in enumerate(h['classes']):
        fs = coq_list(['(dfield %s ExNone %s)' % (coq_str(f['name']), KIND[f['kind']]) for f in c['fields']])
        envfile = coq_list([coq_env(h['files'][str(i)]) for i in (c.get('env_file') or [])])
        lets.append('let c%d := mkCls %s PScreaming %s %s [] in' % (ci, fs, coq_str(c.get('prefix') or ''), envfile))
        lets.append('let k%d := %s in' % (ci, coq_list([KIND[f['kind']] for f in c['fields']])))
    ops, svs = [], []
    for o in h['ops']:
        if o['op'] == 'set':
            ops.append('(OpSet %s %s, [])' % (coq_str(o['k']), coq_str(o['v'])))
        elif o['op'] == 'del':
            ops.append('(OpDel %s, [])' % coq_str(o['k']))
        else:
            c = h['classes'][o['cls']]
            ds = eff_dirs(c, o)
            dl = coq_list([coq_sdir(d) for d in ds])
            svs.append('show_secret_values %s' % dl)
            if any(d['kind'] == 'file' for d in ds):
                ops.append('(OpReloadEnv, [])')
                continue
            kw = coq_list([coq_str(k) for k in o['kwargs']])
            if 'env_file' not in o:
                ef = 'EFDefault'
            elif o['env_file'] is False:
                ef = 'EFOff'
            else:
                ef = '(EFFiles %s)' % coq_list([coq_env(h['files'][str(i)]) for i in o['env_file']])
            pf = coq_opt(coq_str(o['prefix'] or '')) if 'prefix' in o else 'None'
            a = '(set_secrets (mkArgs %s %s %s %s None) (map dir_env %s))' % (kw, coq_bool(bool(o.get('reload'))), ef, pf, dl)
            ops.append('(OpInst c%d %s, k%d)' % (o['cls'], a, o['cls']))
    os0 = coq_env(sorted(h['os0'].items()))
    return ('(%s let ops := %s in let os := %s in show_history os (map fst ops) ++ [ch 5] ++ show_stamps os ops ++ [ch 5] ++ '
            'join sep4 %s)' % (' '.join(lets), coq_list(ops), os0, coq_list(svs)))


def parse_case(s, parse_trace):
    a, b, c = s.split('\x05')
    steps, final_os = parse_trace(a)
    stamps = [[x for x in row.split('\x02')] if row else [] for row in b.split('\x04')] if b else []
    svs = c.split('\x04') if c else []
    return steps, final_os, stamps, svs


# ---- independent reference -----------------------------------------------------------------------------------------
def ref_overlay(os_env, dirs, files):
    sec = {}
    for d in dirs:
        if d['kind'] == 'dir':
            for e in d['entries']:
                if e[1] == 'file':
                    sec[e[0]] = e[2]
    dot = {}
    for f in files:
        for k, v in f:
            dot[k] = v
    amb = {k for k in sec if k in dot and sec[k] != dot[k]}
    env = dict(os_env)
    env.update(sec)
    alt = dict(env)
    env.update(dot)
    alt.update({k: v for k, v in dot.items() if k not in amb})
    return env, alt, sec


def conv(tp, raw):
    if tp == 'str':
        return raw
    return [int(x) for x in raw.split(',')]


def ref_instance(h, c, o, os_env):
    """('V',) | ('M', names) | ('I', {field: [admissible values] | ('F',) | ('S',)})"""
    ds = eff_dirs(c, o)
    if any(d['kind'] == 'file' for d in ds):
        return ('V',)
    env, alt, _ = ref_overlay(os_env, ds, eff_files(h, c, o))
    vals, missing = {}, []
    for f in c['fields']:
        n = f['name']
        if n in o['kwargs']:
            vals[n] = ('K', [o['kwargs'][n]])
            continue
        found = None
        for s in spell(eff_prefix(c, o), n):
            if s in env:
                found = s
                break
        if found is not None:
            vals[n] = ('E', [conv(f['type'], env[found]), conv(f['type'], alt[found])])
        elif f['kind'] == 'value':
            vals[n] = ('S',)
        elif f['kind'] == 'factory':
            vals[n] = ('F',)
        else:
            missing.append(n)
    return ('M', missing) if missing else ('I', vals)


def short(r):
    return json.dumps({k: v for k, v in r.items() if k not in ('os', 'msg')}, sort_keys=True)[:600]


def os_timeline(h):
    env, out = dict(h['os0']), []
    for o in h['ops']:
        if o['op'] == 'set':
            env[o['k']] = o['v']
        elif o['op'] == 'del':
            env.pop(o['k'], None)
        out.append(dict(env))
    return out


def check_case(ctx, h, impl, model):
    """direct predicates + ties of one stream-C history.  model = parse_case(..) or None."""
    res = impl['results']
    ncls = len(h['classes'])
    hist = {'kind': 'init', 'history': h}
    if impl.get('leftover'):
        ctx.violation('temporary directory not removed', hist, no_input=True)
    for ci in range(ncls):
        if not res[ci].get('ok'):
            ctx.violation('class statement failed: %s' % short(res[ci]), hist)
            return
        if not res[ci].get('environ_same'):
            ctx.violation('os.environ changed by an EnvWizard class statement', hist)
        if res[ci].get('calls'):
            ctx.violation('default_factory called by the class statement', hist)
    timeline = os_timeline(h)
    seen_ids, last_stamp, exp_calls, calls_exact = {}, -1, 0, True
    k_inst = -1
    midx = 0
    for i, o in enumerate(h['ops']):
        r = res[ncls + i]
        if o['op'] != 'inst':
            midx += 1
            continue
        k_inst += 1
        c = h['classes'][o['cls']]
        where = dict(hist, op_index=i)
        if not r.get('environ_same'):
            ctx.violation('os.environ changed by instantiating %s' % c['name'], where)
        if r.get('os') != timeline[i]:
            ctx.violation('os.environ inside the child is not what the history prescribes (harness)', where, no_input=True)
        ds = eff_dirs(c, o)
        ctx.hist('init_dirs', '+'.join(sorted(d['kind'] for d in ds)) or 'none')
        key = json.dumps([c, {k: v for k, v in o.items()}, sorted(timeline[i].items())], sort_keys=True)
        # ---- Env.secret_values alone
        if ds:
            want_err = any(d['kind'] == 'file' for d in ds)
            sv = r.get('sv') or {}
            _, _, sec = ref_overlay({}, ds, [])
            if want_err != (sv.get('err') == 'ValueError') or (not want_err and sv.get('ok') != [list(x) for x in sorted(sec.items())]):
                ctx.violation('Env.secret_values(%s) = %s; documented: %s' % (
                    json.dumps(ds)[:300], json.dumps(sv)[:300], 'ValueError' if want_err else json.dumps(sorted(sec.items()))[:300]), where)
            if model is not None:
                ms = model[3][k_inst]
                got = 'V' if sv.get('err') == 'ValueError' else 'E' + '\x02'.join('%s\x01%s' % (k, v) for k, v in sorted(sv.get('ok') or []))
                mm = 'V' if ms == 'V' else 'E' + '\x02'.join(sorted(ms[1:].split('\x02'))) if len(ms) > 1 else ms
                ctx.traces_validated += 1
                if got != mm:
                    ctx.disagreements_checked += 1
                    ctx.broken_tie('init: secret_values model %r, implementation %r' % (mm[:200], got[:200]), where)
        # ---- the instance
        ref = ref_instance(h, c, o, timeline[i]) if o.get('reload') else None
        nontriv = bool(ds) or any(f['kind'] == 'factory' for f in c['fields'])
        ctx.count(1, key=key, nontrivial=nontriv)
        if 'ok' not in r and r.get('err') not in ('MissingVars', 'ValueError'):
            ctx.violation('%s(...) raised %s' % (c['name'], short(r)), where)
            calls_exact = False
        if ref is not None:
            ctx.hist('init_outcome', ref[0])
            bad = None
            if ref[0] == 'V':
                if r.get('err') != 'ValueError':
                    bad = 'a secrets path is a regular file, expected ValueError, got %s' % short(r)
            elif ref[0] == 'M':
                if r.get('err') != 'MissingVars' or r.get('missing') != ref[1]:
                    bad = 'expected MissingVars%r, got %s' % (ref[1], short(r))
            else:
                if 'ok' not in r:
                    bad = 'expected an instance, got %s' % short(r)
                else:
                    for f in c['fields']:
                        n = f['name']
                        v, x = r['ok'][n], ref[1][n]
                        if x[0] in ('K', 'E') and v not in x[1]:
                            bad = 'field %s = %r, documented %s %r' % (n, v, {'K': 'keyword', 'E': 'variable value'}[x[0]], x[1][0])
                        elif x[0] == 'S' and (v != f['default'] or not r['shared'].get(n)):
                            bad = 'field %s = %r, documented: the default object %r' % (n, v, f['default'])
                        elif x[0] == 'F' and not (isinstance(v, list) and len(v) == 1 and isinstance(v[0], int) and v[0] >= 1000):
                            bad = 'field %s = %r, documented: a fresh default_factory result' % (n, v)
                        if bad:
                            break
            if bad:
                ctx.violation('%s(_reload=True, ...): %s' % (c['name'], bad), where)
        # ---- default_factory freshness (identity + stamps), independent of the model
        if 'ok' in r:
            for f in c['fields']:
                n = f['name']
                v = r['ok'][n]
                if f['kind'] == 'factory' and n not in o['kwargs'] and isinstance(v, list) and len(v) == 1 and isinstance(v[0], int) and v[0] >= 1000:
                    oid = r['ids'][n]
                    if oid in seen_ids:
                        ctx.violation('default_factory result shared: %s.%s of this instance is the object bound to %s' % (
                            c['name'], n, seen_ids[oid]), where)
                    seen_ids[oid] = '%s.%s of op %d' % (c['name'], n, i)
                    if v[0] - 1000 <= last_stamp:
                        ctx.violation('default_factory not called afresh for %s.%s (call #%d seen again)' % (c['name'], n, v[0] - 1000), where)
                    last_stamp = max(last_stamp, v[0] - 1000)
        # ---- tie: model trace + stamps
        if model is not None:
            ms = model[0][midx]
            if any(d['kind'] == 'file' for d in ds):
                if r.get('err') != 'ValueError':
                    ctx.disagreements_checked += 1
                    ctx.broken_tie('init: model ValueError, implementation %s' % short(r), where)
            else:
                st = model[2][k_inst_model(h, i)]
                bad = tie_inst(ms, st, r, c, o)
                ctx.traces_validated += 1
                if bad:
                    ctx.disagreements_checked += 1
                    ctx.broken_tie('init: model and implementation disagree: %s' % bad, dict(where, model=ms['out'], impl=short(r)))
                exp_calls += sum(1 for x in st if x.startswith('F'))
            if calls_exact and r.get('calls') != exp_calls:
                ctx.disagreements_checked += 1
                ctx.broken_tie('init: %d default_factory calls so far, model %d' % (r.get('calls'), exp_calls), where)
                calls_exact = False
        midx += 1
    if model is not None and model[1] != timeline[-1]:
        ctx.disagreements_checked += 1
        ctx.broken_tie('init: model os_env differs from os.environ at the end of the history', hist)


def k_inst_model(h, i):
    """index into the model's stamp rows (one per OpInst, i.e. instantiations without a file path)"""
    k = -1
    for j, o in enumerate(h['ops'][:i + 1]):
        if o['op'] == 'inst' and not any(d['kind'] == 'file' for d in eff_dirs(h['classes'][o['cls']], o)):
            k += 1
    return k


def tie_inst(ms, stamps, r, c, o):
    out = ms['out']
    if out is None:
        return 'model step has no outcome'
    if out[0] == 'C':
        return 'model crashed'
    if out[0] == 'M':
        if r.get('err') != 'MissingVars' or r.get('missing') != out[1]:
            return 'model MissingVars%r' % (out[1],)
        return None
    if 'ok' not in r:
        return 'model builds an instance'
    for f, s, st in zip(c['fields'], out[1], stamps):
        n = f['name']
        v = r['ok'][n]
        if s[0] == 'K':
            want = o['kwargs'].get(n)
        elif s[0] == 'E':
            try:
                want = conv(f['type'], s[2])
            except ValueError:
                return 'model chose %s=%r (not convertible by the harness)' % (s[1], s[2])
        elif st.startswith('F'):
            want = [1000 + len(st) - 1]
        elif st == 'S':
            want = f.get('default')
            if not r['shared'].get(n):
                return 'field %s: model binds the shared default object, implementation another object' % n
        else:
            return 'field %s: model source %r stamp %r' % (n, s, st)
        if v != want:
            return 'field %s: model %r (%s), implementation %r' % (n, want, s[0] if s[0] != 'D' else st[:1], v)
    return None


def replay_case(ctx, obj):
    h = obj['history']
    impl = ctx.impl('c18init', h)
    before = len(ctx.violations) if hasattr(ctx, 'violations') else None
    ncls = len(h['classes'])
    timeline = os_timeline(h)
    ok = True
    for i, o in enumerate(h['ops']):
        r = impl['results'][ncls + i]
        if o['op'] != 'inst':
            print('op %d %s %s' % (i, o['op'], o.get('k')))
            continue
        c = h['classes'][o['cls']]
        line = 'op %d %s(%s): %s' % (i, c['name'], json.dumps({k: v for k, v in o.items() if k not in ('op', 'cls')})[:300], short(r))
        if not r.get('environ_same'):
            line += '  [os.environ CHANGED]'; ok = False
        print(line)
    # re-evaluate the direct predicates with a recording context
    class Rec:
        def __init__(self):
            self.bad = []
            self.traces_validated = 0
            self.disagreements_checked = 0
        def violation(self, what, *a, **k):
            self.bad.append(what)
        def broken_tie(self, *a, **k):
            pass
        def hist(self, *a, **k):
            pass
        def count(self, *a, **k):
            pass
    rec = Rec()
    check_case(rec, h, impl, None)
    for b in rec.bad:
        print('  NOT as documented: %s' % b)
    return ok and not rec.bad
