"""C01 — dump-then-load is the identity (default engine, every text format).

Theorems: coq/props/C01.v (models CoreDump.v, CoreLoad.v; domain CoreRT.v).
Correspondence: `load (dump v)` in the model (hook registry regenerated from the source, oracle
table computed by the real stdlib functions) against fromdict(asdict(x)), and the model's
decidable class condition keys_ok on every generated class.  Direct predicates on the
implementation: fromdict(asdict(x)) == x with the same concrete types, from_json(to_json(x)),
from_list/list_to_json, JSON-file, YAML and TOML mixins where the payload is carryable, under
every key_transform_with_dump for canonical snake_case names and under NONE for any identifier.
"""
import json, copy
from props.core_gen import Gen, systematic_types, type_stats, type_depth, LEAVES, STR_ZOO
from props.c05 import canon_show, coq_eval_groups
from props.c03 import has_nested_data, has_auto_tag


def rt_cstr(x):
    """Gallina pstr literal of an ASCII text without quotes / backslashes"""
    assert x.isascii() and '"' not in x and '\\' not in x
    return '(S "%s")' % x

META = {
    'id': 'C01',
    'title': 'Dump-then-load is the identity (default engine, every text format)',
    'level': 'proof',
    'technique': 'Coq proof (induction over the type grammar, refinement through the dump dispatch and every parser) on hand-written '
                 'Gallina models of dumpers.py and loaders.py/parsers.py + differential correspondence + direct round-trip predicates',
    'design_ref': 'DESIGN.md section 4 C01',
    'theorems': ['C01_roundtrip_partial', 'C01_roundtrip_typeddict', 'C01_roundtrip_tagged_union', 'C01_union_ok_tagged',
                 'C01_roundtrip_any_containers', 'C01_any_exact', 'C01_any_json',
                 'C01_domain_conforms', 'C01_z_inverse', 'C01_keys_none', 'C01_keys_canonical',
                 'C01_refuted_neg_timedelta'],
    'tables': ['CoreDumpHooks', 'LetterCase'],
    'level_text': ('Proved in Coq: for EVERY class model and EVERY conforming value of the round-trip domain rtd (scalars, Optional, '
                   'Unions distinguishable by wire type, list/set/frozenset/deque/tuple/dict/defaultdict/OrderedDict at every nesting, '
                   'Enum, UUID, Decimal, Path, date/datetime/time/timedelta, NamedTuple, Literal, nested dataclasses, TypedDict (total / non-total, '
                   'Required / NotRequired keys, optional keys present or absent, values of any type of the grammar), dataclasses inside Unions '
                   'reached by their tag (explicit or auto-assigned, any member count, injective tag assignment, field coercions included), '
                   'Any holding exactly the values the dumper maps to themselves: JSON scalars and list / tuple / dict / OrderedDict / NamedTuple of '
                   'them at every nesting - proved in both directions: every other runtime value under Any does not come back), every key '
                   'transform and tag key, and every stdlib behaviour satisfying the stated leaf laws, load(dump(v)) = v in the model; keys of canonical '
                   'snake_case names resolve back under all five transforms and arbitrary distinct identifiers under NONE. Not proved '
                   '(correspondence + direct predicate only): the text formats (JSON/YAML/TOML libraries are oracles), untyped namedtuple. '
                   'Negative timedelta (F3) is refuted by a witness and excluded by the leaf law.'),
    'level_note': ('Trusted: Coq kernel + vm_compute; the two hand-written models; leaf laws of stdlib/pytimeparse (audited on every run on the '
                   'generated leaves); PyYAML/tomllib/tomli_w/json decide which payloads a format can carry. bytes/bytearray are outside C01 '
                   '(base64 text does not load back in the default engine: F4, by design of the property).'),
    'rule': ('class models: every leaf type (17, no bytes) x every container position (19 contexts incl. TypedDict optional keys holding None, explicit and auto-assigned tagged unions) '
             'to depth 2 (quick) / 3 (thorough), packed into classes of <= 5 fields, the same positions as one-field YAMLWizard / TOMLWizard classes, + random class models '
             '(quick 80, thorough 2000) + classes with non-snake identifiers under NONE; x key transform {default, CAMEL, PASCAL, LISP, SNAKE, NONE} x root kind {plain, JSONWizard, '
             '+JSONFileWizard, YAMLWizard, TOMLWizard}. Names: 30% from the wider snake grammar (one-letter words, digits at word ends): the round trip is demanded whenever the MODEL '
             'says keys_ok (the theorem\'s hypothesis); 30% of the multi-field classes use canonical name FAMILIES that collide modulo underscores / case (username + user_name); Enum zoo (values naming '
             'other members, aliases, mixed types, Flag). The round trip is demanded whenever the model says keys_ok, and a class whose keys do not resolve in the model either is counted outside_domain. Values: tzinfo zoo, negative timedeltas, '
             'huge ints, a 45-string zoo (line endings incl. \\r\\n, control chars, astral/combining unicode, quotes, whitespace, look-alikes of numbers/dates/bools/null) swept '
             'completely through field / list element / dict key / dict value x every root kind; Optional and Union elements laid out None-first, None-in-the-middle, complex-first; '
             'every dict-like container with the leaf as key. Histories: half of the models with nested dataclasses dump every nested instance on its own before the owner\'s first dump (default key spelling only: F10). '
             'Any positions hold nested JSON containers (list / dict of scalars to depth 3: through every format) and values only the dict level can carry (tuple, OrderedDict, int / float / bool / None keys: fromdict(asdict) only); '
             'TypedDicts with 0..3 required x 0..3 non-required keys, spelled total=True + NotRequired or total=False + Required, optional keys all absent .. all present, the leaf at a required or a non-required key; '
             'tagged Unions of 1..4 dataclass members (explicit tags, auto-assigned tags, mixed) beside 0..2 scalar / list / None members, the leaf inside any member, 30% under a custom tag_key. '
             'Non-trivial: at least one container/union/class layer or non-JSON leaf. Distinct: distinct (type label | value digest | transform).'),
    'trusted_base': ['models coq/model/CoreDump.v, CoreLoad.v; domain coq/model/CoreRT.v (rtd; anyv / json_any for Any positions; union_ok incl. tagged dataclass members)',
                     'a plain dict is represented with its keys in one order (TypedDict: required keys, then the present optional keys, in declaration order); == on dicts ignores order and so does the canonical text of the harness',
                     'tags are non-empty texts (an empty Meta.tag is falsy in the library and means "no tag"; the model would read Some "" as a tag)',
                     'harness/impl/core_rt.py (object <-> Gallina term / canonical text), harness/impl/c05.py oracle_table()'],
    'assumptions': ['leaf laws (hypothesis leaf_ok): UUID(u.hex)==u, Decimal(str(d))==d, Path(str(p))==p, fromisoformat(isoformat())==id for date/datetime/time '
                    'and isoformat() contains no "Z", timedelta(seconds=pytimeparse.parse(str(td)))==td (false for td<0 with a time part: F3)',
                    'sets / dict keys hold no duplicates and containers of the instance are fresh objects (model representation invariants)',
                    'd_dt = ISO (marshal_date_time_as=TIMESTAMP is not a round-trip configuration: naive datetimes come back aware)'],
}

XFS = [None, 'CAMEL', 'PASCAL', 'LISP', 'SNAKE', 'NONE']
XF = {None: 'XCamel', 'CAMEL': 'XCamel', 'PASCAL': 'XPascal', 'LISP': 'XLisp', 'SNAKE': 'XSnake', 'NONE': 'XNone'}
ROOTS = [[], ['JSONWizard'], ['JSONWizard', 'JSONFileWizard'], ['YAMLWizard'], ['TOMLWizard']]
C01_LEAVES = [l for l in LEAVES if l not in ('bytes', 'bytearray')]
F3 = 'F3-neg-timedelta'
F56 = 'F56-defaultdict-pep604-union-value'


def eff_xf(c):
    """the dump key transform in force: YAMLWizard defaults to LISP, TOMLWizard to NONE, everything else to CAMEL"""
    xf = c['cfg'].get('xf')
    if xf is not None:
        return xf
    bases = c['root'].get('bases', [])
    return 'LISP' if 'YAMLWizard' in bases else 'NONE' if 'TOMLWizard' in bases else 'CAMEL'


def in_f3(v):
    """negative timedelta with a non-zero time-of-day part"""
    if isinstance(v, dict):
        if v.get('v') == 'tok' and v.get('k') == 'timedelta':
            d, s, us = v['x']
            return d < 0 and (s != 0 or us != 0)
        return any(in_f3(x) for x in v.values())
    if isinstance(v, list):
        return any(in_f3(x) for x in v)
    return False


def key_text_ok(ty):
    """dict keys survive a text format: the key type's loader inverts str()"""
    t = ty['t']
    ok = True
    if t == 'dict':
        kt = ty['kt']
        k = kt['t']
        good = k in ('str', 'int', 'float', 'bool', 'tok') or \
            (k == 'enum' and all(m[1]['v'] == 'str' for m in kt['members'])) or \
            (k == 'lit' and all(v['v'] == 'str' for v in kt['vs']))
        ok = good and key_text_ok(ty['vt'])
    for k in ('e',):
        if k in ty: ok = ok and key_text_ok(ty[k])
    for e in ty.get('es', []): ok = ok and key_text_ok(e)
    for f in ty.get('fields', []): ok = ok and key_text_ok(f['ty'] if isinstance(f, dict) else f[1])
    for _, ft in ty.get('req', []) + ty.get('opt', []): ok = ok and key_text_ok(ft)
    return ok


def has_bytes(ty):
    if ty['t'] in ('bytes', 'bytearray'): return True
    subs = [ty[k] for k in ('e', 'kt', 'vt') if k in ty] + list(ty.get('es', []))
    subs += [f['ty'] if isinstance(f, dict) else f[1] for f in ty.get('fields', [])]
    subs += [ft for _, ft in ty.get('req', []) + ty.get('opt', [])]
    return any(has_bytes(s) for s in subs)


import re
CANON = re.compile(r'^[a-z]{2,}[0-9]*(_[a-z]{2,}[0-9]*)*$')


def all_canonical(ty):
    """every dataclass field name of the model is a canonical snake_case name (words [a-z]{2,}[0-9]*)"""
    ok = True
    if ty['t'] == 'data':
        ok = all(CANON.match(f['name']) for f in ty['fields'])
    subs = [ty[k] for k in ('e', 'kt', 'vt') if k in ty] + list(ty.get('es', []))
    subs += [f['ty'] if isinstance(f, dict) else f[1] for f in ty.get('fields', [])]
    subs += [ft for _, ft in ty.get('req', []) + ty.get('opt', [])]
    return ok and all(all_canonical(x) for x in subs)


class Gen01(Gen):
    """C01's own generator dimensions on top of core_gen.Gen (nothing in the shared generator changes):
    * values at Any positions: nested JSON containers (list / dict with str keys of scalars, to depth 3) - the set json_any of the
      Coq domain - and, flagged 'anyw', values only the dict-level round trip can carry (tuple, OrderedDict, non-str dict keys: anyv);
    * TypedDict: 0..3 required and 0..3 non-required keys, the leaf at a required or a non-required key, spelled total=True +
      NotRequired or total=False + Required, optional keys present with a per-type probability (incl. all absent / all present);
    * tagged Unions: 1..4 tagged dataclass members (explicit Meta.tag, or class names under auto_assign_tags), the leaf inside any of
      them, beside 0..2 scalar / list / None members (never a dict member: union_ok), members shuffled."""

    def scalar_any(self):
        r = self.r
        if r.random() < 0.35:
            return super().scalar_any()
        return self.any_value(r.choice([1, 2, 3]), r.random() < 0.3)

    def any_value(self, depth, wide):
        r = self.r
        if depth <= 0 or r.random() < 0.25:
            return r.choice([{'v': 'none'}, {'v': 'bool', 'x': r.random() < 0.5}, {'v': 'int', 'x': str(r.choice([0, 1, -7, 2 ** 70]))},
                             {'v': 'float', 'x': r.choice([1.5, -0.0, 1e300, 0.1]).hex()},
                             {'v': 'str', 'x': r.choice(['', 'a', 'x y', '\u00e9', '1', 'null', 'true', '2020-01-01', 'k0'])}])
        n = r.choice([0, 1, 2, 3])
        if r.random() < 0.5:
            kind = 'tuple' if wide and r.random() < 0.4 else 'list'
            v = {'v': 'seq', 'k': kind, 'xs': [self.any_value(depth - 1, wide) for _ in range(n)]}
            if kind == 'tuple': v['anyw'] = True
            return v
        keys = [{'v': 'str', 'x': x} for x in r.sample(['k0', 'k1', 'Key Two', '', 'snake_key', 'camelKey', '__tag__', '1'], n)]
        v = {'v': 'dict', 'k': 'dict', 'kvs': []}
        if wide and n and r.random() < 0.5:
            keys = r.sample([{'v': 'int', 'x': '2'}, {'v': 'int', 'x': '-1'}, {'v': 'bool', 'x': True}, {'v': 'none'},
                             {'v': 'float', 'x': (1.5).hex()}, {'v': 'str', 'x': 'k0'}], n)
            v['anyw'] = True
        if wide and r.random() < 0.3:
            v['k'] = 'ordered'; v['anyw'] = True
        v['kvs'] = [[k, self.any_value(depth - 1, wide)] for k in keys]
        return v

    def filler(self):
        r = self.r
        return copy.deepcopy(r.choice([{'t': 'int'}, {'t': 'str'}, {'t': 'seq', 'k': 'list', 'e': {'t': 'int'}}, {'t': 'opt', 'e': {'t': 'str'}},
                                       {'t': 'dict', 'k': 'dict', 'kt': {'t': 'str'}, 'vt': {'t': 'int'}}, {'t': 'float'}, {'t': 'bool'}]))

    def wrap(self, ctx, inner):
        r = self.r
        if ctx in ('td', 'tdopt') and r.random() < 0.5:
            i = self.fresh()
            nreq, nopt = r.choice([(0, 1), (1, 0), (2, 2), (0, 3), (3, 0), (1, 2), (2, 1), (1, 1)])
            at_opt = (ctx == 'tdopt' and nopt > 0) or nreq == 0
            ns = self.names(nreq + nopt)
            req = [[n, self.filler()] for n in ns[:nreq]]
            opt = [[n, self.filler()] for n in ns[nreq:]]
            if at_opt:
                o = inner if inner['t'] in ('opt', 'none', 'any', 'union') or r.random() < 0.5 else {'t': 'opt', 'e': inner}
                opt[r.randrange(nopt)][1] = o
            else:
                req[r.randrange(nreq)][1] = inner
            return {'t': 'td', 'id': i, 'name': 'D%d' % i, 'req': req, 'opt': opt, 'opt_p': r.choice([0.0, 0.5, 0.9, 1.0]),
                    'total': r.random() < 0.5}
        if ctx in ('tagunion', 'autotagunion') and r.random() < 0.5:
            nd = r.choice([1, 2, 3, 4])
            auto = ctx == 'autotagunion'
            at = r.randrange(nd)
            es = []
            for j in range(nd):
                i = self.fresh()
                nf = r.choice([1, 2, 3])
                ns = self.names(nf)
                fields = [{'name': n, 'ty': self.filler(), 'alias': None, 'default': None} for n in ns]
                if j == at:
                    fields[r.randrange(nf)]['ty'] = inner
                k = {'t': 'data', 'id': i, 'name': 'K%d' % i, 'tag': None, 'fields': fields}
                if auto and r.random() < 0.7:
                    k['auto_tag'] = True
                else:
                    k['tag'] = r.choice(['tag-%d', 'T%d', '%d', 'K%d', 'k %d']) % i      # distinct per class id, never empty
                es.append(k)
            if auto and not any(e.get('auto_tag') for e in es):
                es[0]['tag'] = None; es[0]['auto_tag'] = True
            es += [copy.deepcopy(o) for o in r.sample([{'t': 'int'}, {'t': 'str'}, {'t': 'none'}, {'t': 'seq', 'k': 'list', 'e': {'t': 'int'}},
                                                       {'t': 'float'}, {'t': 'bool'}], r.choice([0, 1, 2]))]
            r.shuffle(es)
            if len(es) == 2 and es[0]['t'] == 'none':
                es.reverse()                      # Union[None, X]: F55, outside union_ok
            if len(es) == 1:
                es.append({'t': 'int'})
            return {'t': 'union', 'es': es}
        return Gen.wrap(self, ctx, inner)


def has_anyw(v):
    if isinstance(v, dict):
        return bool(v.get('anyw')) or any(has_anyw(x) for x in v.values())
    if isinstance(v, list):
        return any(has_anyw(x) for x in v)
    return False


def has_tagged(ty):
    if ty['t'] == 'data' and (ty.get('tag') is not None or ty.get('auto_tag')): return True
    subs = [ty[k] for k in ('e', 'kt', 'vt') if k in ty] + list(ty.get('es', []))
    subs += [f['ty'] if isinstance(f, dict) else f[1] for f in ty.get('fields', [])]
    subs += [ft for _, ft in ty.get('req', []) + ty.get('opt', [])]
    return any(has_tagged(x) for x in subs)


TAG_KEYS = ['$type', 'the-kind', '@class', 'tag key']      # never the dumped spelling of a generated field name


def make_cases(ctx):
    cases = []
    r = ctx.sub_rng('sys')
    g = Gen01(r, {'neg_timedelta': True, 'nonfinite': False, 'odd_offsets': True, 'ext_names': 0.3, 'wild_names': 0.1, 'us_runs': 0.08, 'same_named_enums': 0.3, 'name_families': 0.3, 'spellings': 0.3, 'no_nonefirst': True})   # sub-minute UTC offsets (repaired F43) stay in
    items = systematic_types(g, 2 if ctx.tier == 'quick' else 3, leaves=C01_LEAVES)
    if ctx.tier != 'quick':
        d3 = [it for it in items if it[0].count('<') == 2]
        items = [it for it in items if it[0].count('<') < 2] + [it for i, it in enumerate(d3) if i % 2 == ctx.seed % 2]
    ci = 0
    for i in range(0, len(items), 5):
        chunk = items[i:i + 5]
        root = g.root([t for _, t in chunk], bases=ROOTS[ci % len(ROOTS)])
        labels = {}
        for f in root['fields']:
            for lab, t in chunk:
                if t is f['ty']: labels[f['name']] = lab
        cases.append({'root': root, 'value': g.value(root), 'cfg': {'xf': XFS[(ci // 2) % len(XFS)]}, 'labels': labels, 'src': 'systematic'})
        ci += 1
    # YAML / TOML carry few payloads (no tuples, TOML no null): one-field classes so that one
    # uncarryable position does not hide the others
    singles = [it for it in items if it[0].count('<') <= (1 if ctx.tier == 'quick' else 2)]
    for si, (lab, t) in enumerate(singles):
        for base in (['YAMLWizard'], ['TOMLWizard']):
            t2 = copy.deepcopy(t)
            root = g.root([t2], bases=base)
            cases.append({'root': root, 'value': g.value(root), 'cfg': {'xf': XFS[si % len(XFS)]},
                          'labels': {root['fields'][0]['name']: lab}, 'src': 'single'})
    # value zoo sweep: EVERY string of the zoo as field value, list element, dict value and dict key, through every root kind
    # (each text format has its own quoting / line-ending / look-alike rules)
    S_ = {'t': 'str'}
    shapes = [('field', S_), ('list', {'t': 'seq', 'k': 'list', 'e': S_}), ('dictval', {'t': 'dict', 'k': 'dict', 'kt': S_, 'vt': S_}),
              ('optlist', {'t': 'seq', 'k': 'list', 'e': {'t': 'opt', 'e': S_}})]
    zi = 0
    sv = lambda x: {'v': 'str', 'x': x}
    for base in ROOTS:
        for k0 in range(0, len(STR_ZOO), 6):
            chunk = STR_ZOO[k0:k0 + 6]
            vals = {'field': sv(chunk[0]), 'list': {'v': 'seq', 'k': 'list', 'xs': [sv(x) for x in chunk]},
                    'dictval': {'v': 'dict', 'k': 'dict', 'kvs': [[sv(x), sv(y)] for x, y in zip(chunk, reversed(chunk))]},
                    'optlist': {'v': 'seq', 'k': 'list', 'xs': [{'v': 'none'}] + [sv(x) for x in chunk[:3]] + [{'v': 'none'}]}}
            # null cannot be carried by TOML: positions with None go into a class of their own
            for group in (['field', 'list', 'dictval'], ['optlist']):
                tys = [copy.deepcopy(dict(shapes)[n]) for n in group]
                root = g.root(tys, bases=base)
                xs = [copy.deepcopy(vals[group[tys.index(f['ty'])]]) for f in root['fields']]
                cases.append({'root': root, 'value': {'v': 'inst', 'id': root['id'], 'xs': xs}, 'cfg': {'xf': XFS[zi % len(XFS)]},
                              'labels': {f['name']: 'strzoo' for f in root['fields']}, 'src': 'strzoo'})
                zi += 1
    r2 = ctx.sub_rng('rand')
    for j in range(80 if ctx.tier == 'quick' else 2000):
        g2 = Gen01(r2, {'neg_timedelta': True, 'nonfinite': r2.random() < 0.2, 'odd_offsets': r2.random() < 0.3, 'ext_names': 0.3, 'wild_names': 0.1, 'us_runs': 0.08, 'same_named_enums': 0.3, 'name_families': 0.3, 'spellings': 0.3, 'no_nonefirst': True})
        nf = r2.choice([1, 2, 3, 4])
        tys = []
        while len(tys) < nf:
            t = g2.rand_type(r2.choice([1, 2, 3]), allow=C01_LEAVES)
            if not has_bytes(t):
                tys.append(t)
        xf = r2.choice(XFS)
        names = None
        if xf == 'NONE' and r2.random() < 0.7:
            pool = ['MyField', 'x', '_private', 'camelCase', 'UPPER_CASE', 'a1b2', 'With__Double', 'Trailing_', 'mixed_Case9', 'ID']
            names = r2.sample(pool, nf)
        root = g2.root(tys, names=names, bases=r2.choice(ROOTS))
        cases.append({'root': root, 'value': g2.value(root), 'cfg': {'xf': xf}, 'labels': {}, 'src': 'random'})
    rh = ctx.sub_rng('history')
    rk = ctx.sub_rng('tagkey')
    for c in cases:
        # values at Any positions flagged 'anyw' (tuple, OrderedDict, non-str keys) round-trip through the dict level only:
        # no text format gives them back with the same types (Coq: anyv but not json_any)
        c['json_keys_ok'] = key_text_ok(c['root']) and not has_anyw(c['value'])
        if has_tagged(c['root']) and rk.random() < 0.3:
            c['cfg']['tag_key'] = rk.choice(TAG_KEYS)
        if has_auto_tag(c['root']):
            c['cfg']['auto_tags'] = True
        # history axis: members dumped alone before the owner's first dump (default key spelling only:
        # a member dumped alone caches its own key spelling - open finding F10)
        if has_nested_data(c['root']) and rh.random() < 0.5 and (eff_xf(c) == 'CAMEL' or not set(c['root'].get('bases', [])) & {'YAMLWizard', 'TOMLWizard'}):
            c['pre_dump'] = True
            if eff_xf(c) != 'CAMEL':
                c['cfg']['xf'] = 'CAMEL'
        c['canonical_names'] = all_canonical(c['root'])
    return cases


def strip(c):
    return {k: c[k] for k in ('root', 'value', 'cfg', 'json_keys_ok', 'pre_dump') if k in c}


def failures(res):
    if 'setup_err' in res:
        return ['harness could not build the case: %s' % json.dumps(res['setup_err'])[:300]]
    if 'dump_err' in res:
        return ['asdict raised %s' % res['dump_err']]
    bad = []
    for fmt, r in (res.get('res') or {}).items():
        if not r['ok']:
            bad.append('%s round trip: load(dump(x)) != x (%s)' % (fmt, r.get('detail')))
    if not res.get('unchanged', True):
        bad.append('instance changed')
    if 'pre_dump_err' in res:
        bad.append('dumping a nested dataclass on its own raised %s' % res['pre_dump_err'])
    return bad


def run(ctx):
    for f in ctx.findings('open'):
        w = f.get('witness')
        if w and w.get('kind') == 'case':
            res = ctx.impl('c01', {'cases': [w['case']]})['cases'][0]
            ctx.count(1, key='witness:' + f['id'])
            ctx.known_finding(f['id'], still_fails=bool(failures(res)))

    cases = make_cases(ctx)
    results = []
    B = 300
    for i in range(0, len(cases), B):
        results.extend(ctx.impl('c01', {'cases': [strip(c) for c in cases[i:i + B]]}, timeout=1500)['cases'])

    # ---- model: load (dump v), and keys_ok of every class -------------------------------------------
    # groups of <= 16 class models per coqc process; type, value and oracle table are definitions
    groups, where = [], []
    cur_pre, cur_ex, cur_n = [], [], 0
    for i, (c, res) in enumerate(zip(cases, results)):
        if 'coq_v' not in res or 'tbl' not in res:
            continue
        lets = ''.join('let %s := %s in ' % (n, t) for n, t in res['lets'])
        tk = rt_cstr(c['cfg'].get('tag_key') or '__tag__')
        dc = '(mkCfg %s DtIso %s)' % (XF[eff_xf(c)], tk)
        lc = '(mkL %s)' % tk
        cur_pre.append('Definition ty_%d : ty := %s%s.' % (i, lets, res['coq_t']))
        cur_pre.append('Definition val_%d : pv := %s%s.' % (i, lets, res['coq_v']))
        cur_pre.append('Definition tbl_%d : list ((pstr * pv) * option pv) := %s[%s].' % (i, lets, '; '.join(res['tbl'])))
        cur_ex.append('show_res (bind (dump dump_hooks_v0 %s val_%d) (load (tbl_orc tbl_%d) %s ty_%d))' % (dc, i, i, lc, i))
        where.append((i, 'rt'))
        if res['classes']:
            cur_ex.append('%s(if forallb (keys_ok %s %s) [%s] then S "1" else S "0")' % (lets, dc, lc, '; '.join(res['classes'])))
            where.append((i, 'keys'))
        cur_n += 1
        if cur_n >= 16:
            groups.append(('\n'.join(cur_pre), cur_ex)); cur_pre, cur_ex, cur_n = [], [], 0
    if cur_ex:
        groups.append(('\n'.join(cur_pre), cur_ex))
    model = {}
    try:
        outs = coq_eval_groups(ctx, groups, ['CoreRT', 'T_CoreDumpHooks'])
        model = dict(zip(where, outs))
    except Exception as e:
        ctx.broken_tie('model evaluation failed: %s' % str(e)[:800])

    n_dis = n_cmp = n_skip = 0
    for i, (c, res) in enumerate(zip(cases, results)):
        fields = c['root']['fields']
        for f in fields:
            lab = c['labels'].get(f['name']) or ('rand:%d' % type_depth(f['ty']))
            vi = fields.index(f)
            ctx.count(1, key='%s|%s|%s' % (lab, json.dumps(c['value']['xs'][vi], sort_keys=True)[:160], c['cfg'].get('xf')),
                      nontrivial=f['ty']['t'] not in ('bool', 'int', 'float', 'str', 'none', 'any'))
            h = {}
            type_stats(f['ty'], h)
            for k in h: ctx.hist('type_constructor', k)
            ctx.hist('field_depth', type_depth(f['ty']))
        ctx.hist('transform', '%s(%s)' % (c['cfg'].get('xf'), eff_xf(c)))
        ctx.hist('root_kind', '+'.join(c['root'].get('bases', [])) or 'plain')
        for fmt, r in (res.get('res') or {}).items():
            ctx.hist('format', fmt)
        for kflag in ('json_carryable', 'yaml_carryable', 'toml_carryable'):
            if kflag in res: ctx.hist(kflag, res[kflag])
        bad = failures(res)
        f3 = in_f3(c['value'])
        if res.get('leaf_bad'):
            ctx.hist('leaf_law_false', ','.join(res['leaf_bad']))
        kflag = model.get((i, 'keys'))
        if bad:
            if f3 and ctx.is_open_region(F3) and res.get('leaf_bad') == ['timedelta']:
                ctx.hist('known_region', F3)
            elif res.get('f56') and ctx.is_open_region(F56) and all('TypeError' in b for b in bad):
                ctx.hist('known_region', F56)
            elif kflag == '0' and not c.get('canonical_names') and eff_xf(c) != 'NONE':
                # non-canonical field names whose dumped spelling does not resolve back IN THE MODEL (keys_ok = false):
                # outside the property's quantifier (canonical names, or NONE for any identifier)
                ctx.hist('outside_domain', 'keys_ok=false, non-canonical names')
            else:
                ctx.violation('C01 direct predicate fails: %s' % '; '.join(bad)[:400], {'kind': 'case', 'case': strip(c)})
        elif res.get('leaf_bad') and not f3:
            # a leaf law the theorem assumes is false on this value although the round trip happens to work
            ctx.notes.append('leaf law false outside F3 on %s' % res['leaf_bad'])
        m = model.get((i, 'rt'))
        if res.get('f56'):
            m = None
            ctx.hist('model_skipped', 'F56 region')
        if m is not None and 'show_x' in res:
            if m.startswith('!U') or m.startswith('!M'):
                n_skip += 1
                ctx.hist('model_skipped', m[:40])
            else:
                n_cmp += 1
                ctx.traces_validated += 1
                impl_r = (res.get('res') or {}).get('dict', {})
                # the model's verdict "load(dump v) = v" must agree with the implementation's
                model_ok = canon_show(m) == canon_show(res['show_x'])
                if model_ok != bool(impl_r.get('ok')):
                    n_dis += 1
                    ctx.disagreements_checked += 1
                    if n_dis <= 5:
                        ctx.broken_tie('round-trip model and implementation disagree',
                                       {'case': strip(c), 'impl_ok': impl_r.get('ok'), 'impl': impl_r.get('detail'), 'x': res['show_x'][:800], 'model': m[:800]})
                elif not model_ok and canon_show(m) != canon_show(impl_r.get('detail') or '') and not (impl_r.get('detail') or '').isidentifier():
                    # both fail (F3 region): the faithful model must fail in the same way
                    n_dis += 1
                    if n_dis <= 5:
                        ctx.broken_tie('model and implementation both lose the value but differently',
                                       {'case': strip(c), 'impl': impl_r.get('detail'), 'model': m[:800]})
        k = model.get((i, 'keys'))
        if k is not None:
            ctx.hist('keys_ok', '%s/%s' % (k, 'canonical' if c.get('canonical_names') else 'extended'))
            if k != '1' and (c.get('canonical_names') or eff_xf(c) == 'NONE'):
                ctx.broken_tie('keys_ok is false for a generated class (canonical names / NONE identifiers)', {'case': strip(c), 'model': k})
        if len(ctx.samples) < 6 and i % 11 == 0:
            ctx.sample({'fields': [(f['name'], c['labels'].get(f['name'], f['ty']['t'])) for f in fields][:4], 'cfg': c['cfg'], 'bases': c['root'].get('bases'),
                        'formats_checked': sorted((res.get('res') or {}).keys()), 'model': (m or '')[:120]})
    ctx.notes.append('cases=%d model_compared=%d model_skipped=%d disagreements=%d' % (len(cases), n_cmp, n_skip, n_dis))


def replay(ctx, obj):
    if obj.get('kind') == 'case':
        res = ctx.impl('c01', {'cases': [obj['case']]})['cases'][0]
        bad = failures(res)
        print('x = %s' % res.get('show_x'))
        for fmt, r in (res.get('res') or {}).items():
            print('  %s: %s %s' % (fmt, 'ok' if r['ok'] else 'FAILS', r.get('detail') if not r['ok'] else ''))
        print('direct predicates: %s' % ('; '.join(bad) if bad else 'all hold'))
        return not bad
    print('replay object names a broken tie, not an input: %s' % json.dumps(obj, default=str)[:1500])
    return False
