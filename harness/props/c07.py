"""C07 — configuration of one class never changes the behaviour of another.

Theorems: coq/props/C07.v (frame theorem for class families with disjoint tables;
refutations for same qualname F11, shared nested class F10, subclass binding F40).
Direct predicate: the outcomes of the operations of a family G inside a history that
also defines / configures / exercises a family F equal the outcomes of the same
operations alone (fresh interpreter state, fresh classes), for G disjoint from F,
G sharing only class names with F (same qualnames at module level of two synthetic
modules), G sharing a nested dataclass with F, and F subclassing a class of G.
Correspondence: StateModel.run_out on the combined history.  Uses the machinery of
harness/props/c06.py and the runner harness/impl/c06.py.
"""
import json
from props import c06 as base

META = {
    'id': 'C07',
    'title': 'Configuration of one class never changes the behaviour of another',
    'level': 'proof',
    'technique': 'Coq proof (frame theorem by simulation between the full run and the run projected on the family, via the '
                 'cache-free pure outcome) on the hand-written Gallina state model + differential correspondence on generated family pairs',
    'design_ref': 'DESIGN.md section 4 C07',
    'theorems': ['C07_frame', 'C07_frame_example', 'C07_refuted_same_qualname', 'C07_refuted_shared_nested',
                 'C07_refuted_nested_alone_after', 'C07_refuted_subclass_bind'],
    'tables': [],
    'level_text': ('Frame theorem proved in Coq for ALL class families G and ALL histories with disjoint tables (G closed under '
                   'nested / base / instance classes, no shared nested class, no shared qualname, no module-level Meta) that avoid the '
                   'open regions: G\'s outcomes are those of the history with every other operation deleted. The model is faithful to the '
                   'open defects; F10, F11 and the new F40 are refuted by machine-checked witnesses replayed on the implementation.'),
    'level_note': ('Trusted: Coq kernel + vm_compute; the hand-written state model; the correspondence harness. The frame theorem is '
                   'proved through the pure outcome, so it also asks that the history and its projection are safe histories (decidable).'),
    'rule': ('family pairs (F, G) of 1-3 classes each with random Meta (inner Meta, LoadMeta bindings, cascade), interleaved definitions, '
             'bindings and 2-8 load/dump operations; relations: disjoint / same qualnames in two synthetic modules / shared nested dataclass '
             '/ F subclasses a G class. G\'s operations are also run alone (projection) in a fresh job. A pair is non-trivial when F has a '
             'Meta or is exercised before G\'s operation; distinct = distinct history text.'),
    'trusted_base': ['model coq/model/StateModel.v: META_INITIALIZER keyed by qualname, _META holding Meta class OBJECTS (aliasing), '
                     'bind_to(nested, is_default=False) writing the nested class\'s loader / dumper attributes'],
    'assumptions': ['no module-level Meta subclass (the sanctioned global exception) and no debug mode (process-wide logging state) in the model',
                    'default engine, int / str / nested-dataclass fields'],
}

RELATIONS = ['disjoint', 'same_names', 'shared_nested', 'subclass']


def gen_pair(r, relation, ext=False):
    """returns (history, set of G class ids)"""
    p = base.Prog(r, max_classes=8, ext=ext)
    p.allow_fwd = False
    F, G = set(), set()
    shared = None
    if relation == 'shared_nested':
        shared = p.new_class('leaf', wiz=r.random() < 0.4, mod='b')
        G.add(shared)
        if r.random() < 0.5:
            # two nesting levels: the shared class itself holds a nested class (the DEEPEST class is then observed
            # through F, through G and through the shared class alone)
            deep = shared
            shared = p.new_class('root', force_nested=[deep], wiz=r.random() < 0.4, mod='b')
            G.add(shared)
    nF, nG = r.choice([1, 2, 2, 3]), r.choice([1, 2, 2, 3])
    order = ['F'] * nF + ['G'] * nG
    r.shuffle(order)
    fq = []
    must_bind = []
    for fam in order:
        pool, mod = (F, 'a') if fam == 'F' else (G - ({shared} if shared else set()), 'b')
        kind, force, qn, wiz = None, None, None, None
        if relation == 'shared_nested' and r.random() < 0.7:
            kind, force = 'root', [shared]
        if relation == 'same_names' and fam == 'G' and fq:
            qn = r.choice(fq)
        if relation == 'same_names':
            wiz = True
        if relation == 'subclass' and fam == 'F' and G and r.random() < 0.7:
            c = p.new_class('sub', pool=G, mod=mod)
            if r.random() < 0.7:
                p.decl[c]['inner'] = None
            F.add(c)
            must_bind.append(c)
            continue
        if relation == 'subclass' and fam == 'G':
            wiz = True
        if kind is None and not pool:
            kind = 'leaf'
        c = p.new_class(kind, force_nested=force, qn=qn, wiz=wiz, pool=pool if not force else None, mod=mod)
        if fam == 'F' and relation == 'same_names' and p.decl[c]['inner'] is None and r.random() < 0.7:
            p.decl[c]['inner'] = base.gen_meta(r)
        if fam == 'G' and relation == 'subclass' and p.decl[c]['wiz'] and p.decl[c]['inner'] is None and r.random() < 0.6:
            p.decl[c]['inner'] = base.gen_meta_x(r) if ext else base.gen_meta(r)
        (F if fam == 'F' else G).add(c)
        if fam == 'F':
            fq.append(p.decl[c]['qn'])
    # bindings before first use
    shared_cfg = None
    if ext and r.random() < 0.45:
        # F and G configured from the SAME Python objects (one mapping constant, one Condition)
        k, kc = r.choice(sorted(base.SHARED_MAPS)), r.choice(sorted(base.SHARED_CONDS))
        shared_cfg = {'jk2f': {'obj': k, 'map': base.SHARED_MAPS[k]}}
        if r.random() < 0.4:
            shared_cfg['skip_if'] = {'obj': kc, 'cond': base.SHARED_CONDS[kc]}
    for c in list(p.decl):
        f_root = ext and c in F and any(isinstance(ty, dict) for _, ty, _ in p.decl[c]['fields'])
        if r.random() < (0.5 if c in F else 0.3) or (c in must_bind and r.random() < 0.8) or (shared_cfg and r.random() < 0.7) \
                or (f_root and r.random() < 0.7):
            o = p.bind(c)
            if o is not None and shared_cfg and r.random() < 0.8:
                o['meta'].update(shared_cfg)
    # exercise F first mostly, then G, with some interleaving
    n_use = r.choice([2, 3, 4, 5, 6, 8])
    for k in range(n_use):
        fam = F if (r.random() < (0.75 if k < n_use // 2 else 0.3)) else G
        p.use(c=r.choice(sorted(fam)))
    if not any(base.op_class(o) in G for o in p.ops if o['op'] in ('load', 'dump')):
        p.use(c=r.choice(sorted(G)))
    return p.ops, G


def lattice_pairs(r, ext=True):
    """systematic sweep of the settings lattice on one small structure with TWO nesting levels: N (holding M) is
    shared by a root F (configured, through an inner Meta and through LoadMeta(..).bind_to) and a root G (no Meta);
    F is exercised first, then G, N alone and M alone.  With recursive=False nothing of F's Meta may reach N or M,
    whatever other flags are set; with the default recursive=True only the known cascade leak (F10) applies.
    ext=False restricts the sweep to the features of the Coq model (the model then says exactly what leaks today)."""
    def cls(cid, fields, wiz, mod, inner=None):
        return {'op': 'define', 'cid': cid, 'qn': cid, 'mod': mod, 'wiz': wiz, 'base': None, 'mro': [], 'base_qn': None,
                'inner': inner, 'fields': fields, 'own_fields': fields, 'tag': 'define'}
    none = {'ltr': None, 'dtr': None, 'raise': None, 'skipdef': None, 'rec': None}
    if ext:
        dump_opts = [{}, {'dtr': 'SNAKE'}, {'dtr': 'PASCAL'}, {'marshal': 'TIMESTAMP'}, {'skipdef': True},
                     {'skip_if': {'obj': 11, 'cond': base.SHARED_CONDS[11]}}]
        load_opts = [{}, {'ltr': 'NONE'}, {'raise': True}, {'tag_key': 'kind'}, {'jk2f': {'obj': 1, 'map': base.SHARED_MAPS[1]}}]
        autos = (None, True)
    else:
        dump_opts = [{}, {'dtr': 'SNAKE'}, {'dtr': 'PASCAL'}, {'skipdef': True}, {'dtr': 'LISP', 'skipdef': True}]
        load_opts = [{}, {'ltr': 'NONE'}, {'raise': True}, {'ltr': 'CAMEL', 'raise': True}]
        autos = (None,)
    out = []
    for rec in (None, False):
        for auto in autos:
            for dopt in dump_opts:
                for lopt in load_opts:
                    if not dopt and not lopt and auto is None:
                        continue
                    # both configuration styles where the Meta carries nothing that is allowed to cascade
                    styles = ('bind', 'inner') if (not dopt or not ext) else (r.choice(['bind', 'inner']),)
                    for style in styles:
                        meta = dict(none, rec=rec, **dopt, **lopt)
                        if auto:
                            meta['auto_tags'] = True
                        mf = [['y', 'int', 1], ['x', 'int', 0]]
                        m_inst = {'c': 4, 'f': [['y', {'i': r.choice([1, 5])}], ['x', {'i': 0}]]}
                        sec = ['seen_at', 'datetime', None] if ext else ['s_val', 'str', None]
                        secv = {'dt': '2020-01-01T00:00:00+00:00'} if ext else {'s': 'q'}
                        secd = '2020-01-01T00:00:00+00:00' if ext else 'q'
                        nf = [['my_val', 'int', None], sec, ['m_item', {'nested': 4}, None], ['x', 'int', 0]]
                        n_inst = {'c': 1, 'f': [['my_val', {'i': r.randrange(1, 9)}], [sec[0], secv], ['m_item', m_inst], ['x', {'i': 0}]]}
                        n_doc = {'my_val': 2, sec[0]: secd, 'm_item': {'y': 3, 'ID': 8, 'zz': 1}, 'extra': 'x', 'ID': 9, 'Alt-Key': 5}
                        wiz = style == 'inner' or r.random() < 0.3
                        h = [cls(4, mf, False, 'b'), cls(1, nf, False, 'b'), cls(2, [['n_item', {'nested': 1}, None]], wiz, 'a'),
                             cls(3, [['n_item', {'nested': 1}, None]], False, 'b')]
                        if style == 'inner':
                            h[2]['inner'] = meta
                        else:
                            h.append({'op': 'bind', 'cid': 2, 'meta': meta, 'tag': 'bind'})
                        strict_doc = {'my_val': 2, sec[0]: secd, 'm_item': {'y': 2}}
                        f_ops = [{'op': 'dump', 'attr': False, 'inst': {'c': 2, 'f': [['n_item', n_inst]]}, 'tag': 'dump'},
                                 {'op': 'load', 'cid': 2, 'attr': False, 'doc': {'n_item': dict(n_doc, extra=None) if lopt.get('raise') is None else strict_doc}, 'tag': 'load'}]
                        r.shuffle(f_ops)
                        g_ops = [{'op': 'dump', 'attr': False, 'inst': {'c': 3, 'f': [['n_item', n_inst]]}, 'tag': 'dump'},
                                 {'op': 'load', 'cid': 3, 'attr': False, 'doc': {'n_item': n_doc}, 'tag': 'load'},
                                 {'op': 'dump', 'attr': False, 'inst': n_inst, 'tag': 'dump'},
                                 {'op': 'load', 'cid': 1, 'attr': False, 'doc': n_doc, 'tag': 'load'},
                                 {'op': 'dump', 'attr': False, 'inst': m_inst, 'tag': 'dump'},
                                 {'op': 'load', 'cid': 4, 'attr': False, 'doc': {'y': 3, 'ID': 8, 'zz': 1}, 'tag': 'load'}]
                        r.shuffle(g_ops)
                        out.append((h + f_ops + g_ops, {1, 3, 4}))
    return out


def shared_object_pairs(r):
    """unrelated F and G whose Meta configurations are built from the SAME Python objects (one json_key_to_field
    dict, one Condition): F is loaded with keys only G knows, in both binding orders and both configuration styles"""
    def cls(cid, fields, wiz, mod, inner=None):
        return {'op': 'define', 'cid': cid, 'qn': cid, 'mod': mod, 'wiz': wiz, 'base': None, 'mro': [], 'base_qn': None,
                'inner': inner, 'fields': fields, 'own_fields': fields, 'tag': 'define'}
    none = {'ltr': None, 'dtr': None, 'raise': None, 'skipdef': None, 'rec': None}
    out = []
    for k in sorted(base.SHARED_MAPS):
        tgt = sorted(set(base.SHARED_MAPS[k].values()))
        for style in ('bind', 'inner'):
            for g_bound_first in (False, True):
                for with_cond in (False, True):
                    meta = dict(none, jk2f={'obj': k, 'map': base.SHARED_MAPS[k]})
                    if with_cond:
                        meta['skip_if'] = {'obj': 11, 'cond': base.SHARED_CONDS[11]}
                    ff = [[t, 'int', None] for t in tgt]
                    gf = ff + [['extra_f', 'int', 0], ['z_val', 'int', 0]]
                    keys = list(base.SHARED_MAPS[k])
                    f_doc = dict({kk: i + 1 for i, kk in enumerate(keys)}, extra_f=9, z_val=4)
                    g_doc = dict({kk: i + 5 for i, kk in enumerate(keys)}, extra_f=9, zVal=3)
                    wiz = style == 'inner'
                    dF, dG = cls(1, ff, wiz, 'a', meta if wiz else None), cls(2, gf, wiz, 'b', dict(meta) if wiz else None)
                    bF = [] if wiz else [{'op': 'bind', 'cid': 1, 'meta': dict(meta), 'tag': 'bind'}]
                    bG = [] if wiz else [{'op': 'bind', 'cid': 2, 'meta': dict(meta), 'tag': 'bind'}]
                    useF = [{'op': 'load', 'cid': 1, 'attr': False, 'doc': f_doc, 'tag': 'load'},
                            {'op': 'dump', 'attr': False, 'inst': {'c': 1, 'f': [[t, {'i': i}] for i, t in enumerate(tgt)]}, 'tag': 'dump'}]
                    useG = [{'op': 'load', 'cid': 2, 'attr': False, 'doc': g_doc, 'tag': 'load'},
                            {'op': 'dump', 'attr': False, 'inst': {'c': 2, 'f': [[f[0], {'i': i}] for i, f in enumerate(gf)]}, 'tag': 'dump'}]
                    if wiz:
                        h = ([dF, dG] if g_bound_first else [dF]) + useF + ([] if g_bound_first else [dG]) + useG
                    else:
                        h = [dF, dG] + bF + (bG if g_bound_first else []) + useF + ([] if g_bound_first else bG) + useG
                    out.append((h, {2}))
    return out


def proj(h, G):
    return [o for o in h if base.op_class(o) in G]


def check_pairs(ctx, pairs, label, model=True):
    """pairs: list of (history, G).  Returns per pair {'impl','alone','model','regions'}"""
    jobs = [h for h, _ in pairs] + [proj(h, G) for h, G in pairs]
    res = base.run_jobs(ctx, jobs)
    n = len(pairs)
    mod = None
    if model:
        try:
            mod = base.run_model(ctx, [h for h, _ in pairs], tag=label)
        except Exception as e:  # noqa
            ctx.broken_tie('model evaluation failed: %s' % str(e)[:600])
    out = []
    for k, (h, G) in enumerate(pairs):
        out.append({'impl': res[k], 'alone': res[n + k], 'model': None if mod is None else mod[k], 'regions': base.regions_of(h)})
    return out


def g_failures(h, G, impl, alone):
    """indices (in h) of G's operations whose outcome differs from the projected run"""
    idx = [i for i, o in enumerate(h) if base.op_class(o) in G]
    return [(i, j) for j, i in enumerate(idx) if impl[i] != alone[j]]


def caused_by_other(h, G, regs, i, _seen=None):
    """open regions of operation i whose chain of causes reaches an operation outside G
    (e.g. a G class that inherited F's Meta through its qualname (F11) and then cascaded it into a
    nested G class (F10): the later use of the nested class alone is still F's doing)"""
    seen = _seen if _seen is not None else set()
    out = []
    for f, causes in regs[i].items():
        if f not in ('F2', 'F10', 'F11', 'F40'):
            continue
        for c in causes:
            if base.op_class(h[c]) not in G:
                out.append(f)
                break
            if c not in seen and c != i:
                seen.add(c)
                if caused_by_other(h, G, regs, c, seen):
                    out.append(f)
                    break
    return out


def excused(h, G, i):
    """open regions that explain a changed outcome of G's operation i:
    (a) the operation lies in F10 / F11 / F40 with a chain of causes reaching the other family;
    (b) by then some class of G carries a Meta object written by the other family (F11: picked up
        through a shared qualname, F40: rewritten by a BindMeta addressed to a class of the other
        family) - every later outcome of G, including how G's own aliasing shows, hangs on that object."""
    regs, taints = base.analyse(h)
    out = set(caused_by_other(h, G, regs, i))
    t11, t40 = taints[i]
    for c, causes in t11.items():
        if c in G and any(base.op_class(h[k]) not in G for k in causes):
            out.add('F11')
    for c, causes in t40.items():
        if c in G and any(base.op_class(h[k]) not in G for k in causes):
            out.add('F40')
    # the reverse direction: a class of the other family that shares a Meta object with G and was rebound
    for c, causes in t40.items():
        if c not in G and any(base.op_class(h[k]) in G for k in causes):
            pass
    return sorted(out)


def report(ctx, label, h, G, info):
    impl, alone, mod, regs = info['impl'], info['alone'], info['model'], info['regions']
    if mod is not None:
        ctx.traces_validated += 1
        if mod != impl:
            ctx.disagreements_checked += 1
            k = next((i for i in range(min(len(mod), len(impl))) if mod[i] != impl[i]), None)
            ctx.broken_tie('%s: state model and implementation disagree at operation %s: model %s, implementation %s'
                           % (label, k, None if k is None else mod[k], None if k is None else impl[k]),
                           {'history': h, 'model': mod, 'impl': impl})
    bad = g_failures(h, G, impl, alone)
    for i, j in bad:
        # open regions whose cause is (transitively) an operation of the OTHER family
        known = [f for f in excused(h, G, i) if ctx.is_open_region(base.OPEN[f])]
        # inside an open region only the behaviour the faithful model reproduces is a known finding; an outcome
        # the model does not predict (another setting leaking, another order) is a violation with this input
        beyond = bool(known) and mod is not None and i < len(mod) and mod[i] != impl[i]
        if known and not beyond:
            for f in known:
                ctx.hist('known_region', base.OPEN[f])
            continue
        if beyond:
            ctx.violation('%s: operation %d (%s on class %s of family G) lies in the open region %s, but gives %s where today\'s '
                          'behaviour (state model) is %s; on its own: %s' % (label, i, h[i]['op'], base.op_class(h[i]), '/'.join(known),
                                                                         impl[i], mod[i], alone[j]),
                          {'kind': 'pair', 'history': h[:i + 1], 'G': sorted(G), 'full_history': h, 'index': i, 'model': mod[i]})
            continue

        def fails(hh, target=h[i]):
            if not any(o is target for o in hh):
                return False
            a, b = base.run_jobs(ctx, [hh, proj(hh, G)], per_proc=1, workers=2)
            ii = max(k for k, o in enumerate(hh) if o is target)
            jj = sum(1 for o in hh[:ii] if base.op_class(o) in G)
            return a[ii] != b[jj] and not excused(hh, G, ii)
        small = base.shrink(ctx, h[:i + 1], fails, budget=30)
        ctx.violation('%s: operation %d (%s on class %s of family G) gives %s when another family was defined/configured/used before, '
                      'but %s on its own' % (label, i, h[i]['op'], base.op_class(h[i]), impl[i], alone[j]),
                      {'kind': 'pair', 'history': small, 'G': sorted(G), 'full_history': h, 'index': i})
    return bad


def replay_pair(ctx, h, G):
    a, b = base.run_jobs(ctx, [h, proj(h, G)], per_proc=1, workers=2)
    return a, b


C07_WITNESS_G = {'F10-shared-nested-meta-leak': [1, 3], 'F11-meta-initializer-qualname': [2],
                 'F40-subclass-bind-mutates-base-meta': [1]}


def run(ctx):
    quick = ctx.tier == 'quick'
    r = ctx.sub_rng('pairs')
    wit = base.witness_histories()
    for f in ctx.findings('open'):
        w = f.get('witness') or {}
        h = w.get('history') or wit.get(f['id'])
        G = set(w.get('G') or C07_WITNESS_G.get(f['id'], []))
        if h is None or not G:
            continue
        a, b = replay_pair(ctx, h, G)
        ctx.count(1, key='witness:' + f['id'])
        ctx.known_finding(f['id'], still_fails=bool(g_failures(h, G, a, b)))
    # also the second F10 witness (nested class used alone afterwards)
    n = 360 if quick else 5000
    pairs, rels = [], []
    for k in range(n):
        rel = RELATIONS[k % 4] if k % 5 else 'disjoint'
        pairs.append(gen_pair(r, rel))
        rels.append(rel)
    for fid, G in C07_WITNESS_G.items():
        pairs.append((wit[fid], set(G)))
        rels.append('witness')
    pairs.append((wit['F10-nested-alone-after'], {1}))
    rels.append('witness')
    lat0 = lattice_pairs(r, ext=False)        # within the Coq model: the model says exactly what leaks today
    pairs.extend(lat0)
    rels.extend(['lattice'] * len(lat0))
    infos = check_pairs(ctx, pairs, 'c07')
    for (h, G), rel, info in zip(pairs, rels, infos):
        f_used_first = any(base.op_class(o) not in G and o['op'] in ('load', 'dump', 'bind') for o in h)
        ctx.count(1, key=base.history_text(h) + json.dumps(sorted(G)), nontrivial=f_used_first)
        ctx.hist('relation', rel)
        ctx.hist('length', len(h))
        bad = report(ctx, 'C07', h, G, info)
        ctx.hist('g_outcome_changed', '%s/%s' % (rel, 'yes' if bad else 'no'))
    ctx.sample({'relation': rels[0], 'history': pairs[0][0], 'G': sorted(pairs[0][1]), 'impl': infos[0]['impl'], 'alone': infos[0]['alone']})
    ctx.sample({'relation': rels[1], 'history': pairs[1][0], 'G': sorted(pairs[1][1]), 'impl': infos[1]['impl'], 'alone': infos[1]['alone']})
    # extended grammar (direct predicate only): Meta settings outside the Coq model (recursive=False roots combined
    # with auto_assign_tags / tag_key / marshal_date_time_as / skip_if / json_key_to_field), F and G configured from the
    # SAME Python objects (one mapping dict, one Condition), datetime / Any / bool fields, failing dumps
    rx = ctx.sub_rng('pairs_x')
    px, relx = [], []
    for k in range(300 if quick else 4000):
        rel = RELATIONS[k % 4] if k % 3 else 'shared_nested'
        px.append(gen_pair(rx, rel, ext=True))
        relx.append(rel)
    lat = lattice_pairs(rx)
    px.extend(lat)
    relx.extend(['lattice'] * len(lat))
    sh = shared_object_pairs(rx)
    px.extend(sh)
    relx.extend(['shared_objects'] * len(sh))
    infx = check_pairs(ctx, px, 'c07x', model=False)
    for (h, G), rel, info in zip(px, relx, infx):
        ctx.count(1, key='x:' + base.history_text(h) + json.dumps(sorted(G)), nontrivial=True)
        ctx.hist('relation_x', rel)
        bad = report(ctx, 'C07x', h, G, info)
        ctx.hist('g_outcome_changed_x', '%s/%s' % (rel, 'yes' if bad else 'no'))
    ctx.sample({'extended': True, 'relation': relx[0], 'history': px[0][0], 'G': sorted(px[0][1]), 'impl': infx[0]['impl'], 'alone': infx[0]['alone']})


def replay(ctx, obj):
    if obj.get('kind') == 'pair':
        h, G = obj['history'], set(obj['G'])
        a, b = replay_pair(ctx, h, G)
        bad = g_failures(h, G, a, b)
        idx = [i for i, o in enumerate(h) if base.op_class(o) in G]
        for j, i in enumerate(idx):
            print('op %d %s: with the other family %s | alone %s%s' % (i, h[i]['op'], a[i], b[j], '' if a[i] == b[j] else '   <-- differs'))
        return not bad
    if 'finding' in obj:
        wit = base.witness_histories()
        h = (obj.get('witness') or {}).get('history') or wit.get(obj['finding'])
        G = set((obj.get('witness') or {}).get('G') or C07_WITNESS_G.get(obj['finding'], []))
        if h and G:
            a, b = replay_pair(ctx, h, G)
            print('with F: %s\nalone:  %s' % (a, b))
            return not g_failures(h, G, a, b)
    return base.replay(ctx, obj)
