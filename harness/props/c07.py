"""C07 — configuration of one class never changes the behaviour of another.

Theorems: coq/props/C07.v (frame theorem for class families with disjoint tables;
refutations for same qualname F11, shared nested class F10, subclass binding F40).
Direct predicate: the outcomes of the operations of a family G inside a history that
also defines / configures / exercises a family F equal the outcomes of the same
operations alone (fresh interpreter state, fresh classes), for G disjoint from F,
G sharing only class names with F (same qualnames at module level of two synthetic
modules), G sharing a nested dataclass with F, and F subclassing a class of G.
Correspondence: StateModel.run_out on the combined history.  Uses the machinery of
harness/props/c06.py and the runner harness/impl/c06.py.
"""
import json
from props import c06 as base

META = {
    'id': 'C07',
    'title': 'Configuration of one class never changes the behaviour of another',
    'level': 'proof',
    'technique': 'Coq proofs on two hand-written Gallina state models: (1) table model - frame theorem by simulation between the full run and '
                 'the run projected on the family, via the cache-free pure outcome; (2) Meta-heap model (Meta objects with identity, '
                 'recursive_classes, loader / dumper classes, every configuration entry point) - frame theorem for ALL histories by a footprint '
                 'argument in a relational program logic over the state monad, with an explicit separation invariant; + differential '
                 'correspondence of both models on generated family pairs and direct predicate against a pristine process',
    'design_ref': 'DESIGN.md section 4 C07',
    'theorems': ['C07_frame', 'C07_frame_example', 'C07_refuted_same_qualname', 'C07_refuted_shared_nested',
                 'C07_refuted_nested_alone_after', 'C07_refuted_subclass_bind',
                 'C07_heap_frame', 'C07_fresh_alloc_ok', 'C07_heap_separation_invariant', 'C07_loader_depends_on_own_declaration',
                 'C07_heap_frame_example', 'C07_shared_meta_not_separated', 'C07_refuted_shared_meta_object', 'C07_memo_alloc_not_ok',
                 'C07_refuted_heap_same_qualname', 'C07_refuted_shared_nested_recursive_classes'],
    'tables': [],
    'level_text': ('Two frame theorems proved in Coq. Table model: for ALL class families G and ALL histories with disjoint tables that avoid '
                   'the open regions, G\'s outcomes are those of the history with every other operation deleted. Meta-heap model (Meta classes '
                   'as heap objects bound by address and merged in place, LoadMeta / DumpMeta / inner Meta / JSONPyWizard entry points in any '
                   'order and repetition, recursive_classes with lazily generated nested loaders, LoadMixin / DumpMixin classes with overridden '
                   'hooks and the create-on-miss loader / dumper tables): for EVERY program text statically separated along G, every '
                   'ownership-respecting allocation policy and EVERY history (no safe-history hypothesis) the separation invariant holds and G\'s '
                   'outcomes are those of the projected history; the loader / dumper class stored for a class depends only on its own '
                   'declaration after every history. Refutations show each hypothesis is needed (a Meta object shared between families - '
                   'memoised LoadMeta - breaks the frame; same qualname F11; shared nested class F10, also under recursive_classes; F40). '
                   'Both models are re-validated against the implementation on every run.'),
    'level_note': ('Trusted: Coq kernel + vm_compute; the two hand-written state models; the correspondence harness. The table-model frame '
                   'theorem also asks that the history and its projection are safe histories (decidable); the Meta-heap frame theorem does not.'),
    'rule': ('(a) family pairs (F, G) of 1-3 classes each with random Meta (inner Meta, LoadMeta bindings, cascade), interleaved definitions, '
             'bindings and 2-8 load/dump operations; relations: disjoint / same qualnames in two synthetic modules / shared nested dataclass '
             '/ F subclasses a G class; (b) Meta-heap pairs: shared nested class x every compiled Meta setting x recursive_classes on/off for F '
             'and for G x order (F / G / nested class first) x entry point; unrelated classes configured by EQUAL settings through LoadMeta / '
             'DumpMeta / inner Meta / JSONPyWizard / key_case= followed by a second binding to one of them, three orders; LoadMixin / DumpMixin '
             'dataclasses with overridden and registered hooks nesting a class the other family nests; random pairs with bindings at any time '
             'and repeated. G\'s operations are also run alone (projection) in a fresh job - for (b) in a pristine PROCESS per history. '
             'distinct = distinct history text.'),
    'trusted_base': ['model coq/model/StateModel.v: META_INITIALIZER keyed by qualname, _META holding Meta class OBJECTS (aliasing), '
                     'bind_to(nested, is_default=False) writing the nested class\'s loader / dumper attributes',
                     'model coq/model/FamModel.v: transcribes bases_meta.py:124-221, 297-352 (bind_to, LoadMeta, DumpMeta), bases.py:40-99 (| and &=), '
                     'serial_json.py:60-137 (JSONWizard / JSONPyWizard __init_subclass__), class_helper.py:435-460 (initialiser by qualname), '
                     'loader_selection.py:67-110 and dumpers.py:189-213 (create-on-miss loader / dumper classes), loaders.py:253-327, 545-799 and '
                     'parsers.py:78-112 (nested entry point, RecursionSafeParser), dumpers.py:263-576; per-class key caches abstracted '
                     '(the harness uses a non-exact key spelling at most once per class and history)'],
    'assumptions': ['no module-level Meta subclass (the sanctioned global exception) and no debug mode (process-wide logging state) in the models',
                    'default engine, int / str / nested-dataclass fields; Meta-heap model: no inheritance between user classes, settings '
                    'key_transform_with_load/dump, raise_on_unknown_json_key, skip_defaults, recursive, recursive_classes'],
}

RELATIONS = ['disjoint', 'same_names', 'shared_nested', 'subclass']


def gen_pair(r, relation, ext=False):
    """returns (history, set of G class ids)"""
    p = base.Prog(r, max_classes=8, ext=ext)
    p.allow_fwd = False
    F, G = set(), set()
    shared = None
    if relation == 'shared_nested':
        shared = p.new_class('leaf', wiz=r.random() < 0.4, mod='b')
        G.add(shared)
        if r.random() < 0.5:
            # two nesting levels: the shared class itself holds a nested class (the DEEPEST class is then observed
            # through F, through G and through the shared class alone)
            deep = shared
            shared = p.new_class('root', force_nested=[deep], wiz=r.random() < 0.4, mod='b')
            G.add(shared)
    nF, nG = r.choice([1, 2, 2, 3]), r.choice([1, 2, 2, 3])
    order = ['F'] * nF + ['G'] * nG
    r.shuffle(order)
    fq = []
    must_bind = []
    for fam in order:
        pool, mod = (F, 'a') if fam == 'F' else (G - ({shared} if shared else set()), 'b')
        kind, force, qn, wiz = None, None, None, None
        if relation == 'shared_nested' and r.random() < 0.7:
            kind, force = 'root', [shared]
        if relation == 'same_names' and fam == 'G' and fq:
            qn = r.choice(fq)
        if relation == 'same_names':
            wiz = True
        if relation == 'subclass' and fam == 'F' and G and r.random() < 0.7:
            c = p.new_class('sub', pool=G, mod=mod)
            if r.random() < 0.7:
                p.decl[c]['inner'] = None
            F.add(c)
            must_bind.append(c)
            continue
        if relation == 'subclass' and fam == 'G':
            wiz = True
        if kind is None and not pool:
            kind = 'leaf'
        c = p.new_class(kind, force_nested=force, qn=qn, wiz=wiz, pool=pool if not force else None, mod=mod)
        if fam == 'F' and relation == 'same_names' and p.decl[c]['inner'] is None and r.random() < 0.7:
            p.decl[c]['inner'] = base.gen_meta(r)
        if fam == 'G' and relation == 'subclass' and p.decl[c]['wiz'] and p.decl[c]['inner'] is None and r.random() < 0.6:
            p.decl[c]['inner'] = base.gen_meta_x(r) if ext else base.gen_meta(r)
        (F if fam == 'F' else G).add(c)
        if fam == 'F':
            fq.append(p.decl[c]['qn'])
    # bindings before first use
    shared_cfg = None
    if ext and r.random() < 0.45:
        # F and G configured from the SAME Python objects (one mapping constant, one Condition)
        k, kc = r.choice(sorted(base.SHARED_MAPS)), r.choice(sorted(base.SHARED_CONDS))
        shared_cfg = {'jk2f': {'obj': k, 'map': base.SHARED_MAPS[k]}}
        if r.random() < 0.4:
            shared_cfg['skip_if'] = {'obj': kc, 'cond': base.SHARED_CONDS[kc]}
    for c in list(p.decl):
        f_root = ext and c in F and any(isinstance(ty, dict) for _, ty, _ in p.decl[c]['fields'])
        if r.random() < (0.5 if c in F else 0.3) or (c in must_bind and r.random() < 0.8) or (shared_cfg and r.random() < 0.7) \
                or (f_root and r.random() < 0.7):
            o = p.bind(c)
            if o is not None and shared_cfg and r.random() < 0.8:
                o['meta'].update(shared_cfg)
    # exercise F first mostly, then G, with some interleaving
    n_use = r.choice([2, 3, 4, 5, 6, 8])
    for k in range(n_use):
        fam = F if (r.random() < (0.75 if k < n_use // 2 else 0.3)) else G
        p.use(c=r.choice(sorted(fam)))
    if not any(base.op_class(o) in G for o in p.ops if o['op'] in ('load', 'dump')):
        p.use(c=r.choice(sorted(G)))
    return p.ops, G


def lattice_pairs(r, ext=True):
    """systematic sweep of the settings lattice on one small structure with TWO nesting levels: N (holding M) is
    shared by a root F (configured, through an inner Meta and through LoadMeta(..).bind_to) and a root G (no Meta);
    F is exercised first, then G, N alone and M alone.  With recursive=False nothing of F's Meta may reach N or M,
    whatever other flags are set; with the default recursive=True only the known cascade leak (F10) applies.
    ext=False restricts the sweep to the features of the Coq model (the model then says exactly what leaks today)."""
    def cls(cid, fields, wiz, mod, inner=None):
        return {'op': 'define', 'cid': cid, 'qn': cid, 'mod': mod, 'wiz': wiz, 'base': None, 'mro': [], 'base_qn': None,
                'inner': inner, 'fields': fields, 'own_fields': fields, 'tag': 'define'}
    none = {'ltr': None, 'dtr': None, 'raise': None, 'skipdef': None, 'rec': None}
    if ext:
        dump_opts = [{}, {'dtr': 'SNAKE'}, {'dtr': 'PASCAL'}, {'marshal': 'TIMESTAMP'}, {'skipdef': True},
                     {'skip_if': {'obj': 11, 'cond': base.SHARED_CONDS[11]}}]
        load_opts = [{}, {'ltr': 'NONE'}, {'raise': True}, {'tag_key': 'kind'}, {'jk2f': {'obj': 1, 'map': base.SHARED_MAPS[1]}}]
        autos = (None, True)
    else:
        dump_opts = [{}, {'dtr': 'SNAKE'}, {'dtr': 'PASCAL'}, {'skipdef': True}, {'dtr': 'LISP', 'skipdef': True}]
        load_opts = [{}, {'ltr': 'NONE'}, {'raise': True}, {'ltr': 'CAMEL', 'raise': True}]
        autos = (None,)
    out = []
    for rec in (None, False):
        for auto in autos:
            for dopt in dump_opts:
                for lopt in load_opts:
                    if not dopt and not lopt and auto is None:
                        continue
                    # both configuration styles where the Meta carries nothing that is allowed to cascade
                    styles = ('bind', 'inner') if (not dopt or not ext) else (r.choice(['bind', 'inner']),)
                    for style in styles:
                        meta = dict(none, rec=rec, **dopt, **lopt)
                        if auto:
                            meta['auto_tags'] = True
                        mf = [['y', 'int', 1], ['x', 'int', 0]]
                        m_inst = {'c': 4, 'f': [['y', {'i': r.choice([1, 5])}], ['x', {'i': 0}]]}
                        sec = ['seen_at', 'datetime', None] if ext else ['s_val', 'str', None]
                        secv = {'dt': '2020-01-01T00:00:00+00:00'} if ext else {'s': 'q'}
                        secd = '2020-01-01T00:00:00+00:00' if ext else 'q'
                        nf = [['my_val', 'int', None], sec, ['m_item', {'nested': 4}, None], ['x', 'int', 0]]
                        n_inst = {'c': 1, 'f': [['my_val', {'i': r.randrange(1, 9)}], [sec[0], secv], ['m_item', m_inst], ['x', {'i': 0}]]}
                        n_doc = {'my_val': 2, sec[0]: secd, 'm_item': {'y': 3, 'ID': 8, 'zz': 1}, 'extra': 'x', 'ID': 9, 'Alt-Key': 5}
                        wiz = style == 'inner' or r.random() < 0.3
                        h = [cls(4, mf, False, 'b'), cls(1, nf, False, 'b'), cls(2, [['n_item', {'nested': 1}, None]], wiz, 'a'),
                             cls(3, [['n_item', {'nested': 1}, None]], False, 'b')]
                        if style == 'inner':
                            h[2]['inner'] = meta
                        else:
                            h.append({'op': 'bind', 'cid': 2, 'meta': meta, 'tag': 'bind'})
                        strict_doc = {'my_val': 2, sec[0]: secd, 'm_item': {'y': 2}}
                        f_ops = [{'op': 'dump', 'attr': False, 'inst': {'c': 2, 'f': [['n_item', n_inst]]}, 'tag': 'dump'},
                                 {'op': 'load', 'cid': 2, 'attr': False, 'doc': {'n_item': dict(n_doc, extra=None) if lopt.get('raise') is None else strict_doc}, 'tag': 'load'}]
                        r.shuffle(f_ops)
                        g_ops = [{'op': 'dump', 'attr': False, 'inst': {'c': 3, 'f': [['n_item', n_inst]]}, 'tag': 'dump'},
                                 {'op': 'load', 'cid': 3, 'attr': False, 'doc': {'n_item': n_doc}, 'tag': 'load'},
                                 {'op': 'dump', 'attr': False, 'inst': n_inst, 'tag': 'dump'},
                                 {'op': 'load', 'cid': 1, 'attr': False, 'doc': n_doc, 'tag': 'load'},
                                 {'op': 'dump', 'attr': False, 'inst': m_inst, 'tag': 'dump'},
                                 {'op': 'load', 'cid': 4, 'attr': False, 'doc': {'y': 3, 'ID': 8, 'zz': 1}, 'tag': 'load'}]
                        r.shuffle(g_ops)
                        out.append((h + f_ops + g_ops, {1, 3, 4}))
    return out


def shared_object_pairs(r):
    """unrelated F and G whose Meta configurations are built from the SAME Python objects (one json_key_to_field
    dict, one Condition): F is loaded with keys only G knows, in both binding orders and both configuration styles"""
    def cls(cid, fields, wiz, mod, inner=None):
        return {'op': 'define', 'cid': cid, 'qn': cid, 'mod': mod, 'wiz': wiz, 'base': None, 'mro': [], 'base_qn': None,
                'inner': inner, 'fields': fields, 'own_fields': fields, 'tag': 'define'}
    none = {'ltr': None, 'dtr': None, 'raise': None, 'skipdef': None, 'rec': None}
    out = []
    for k in sorted(base.SHARED_MAPS):
        tgt = sorted(set(base.SHARED_MAPS[k].values()))
        for style in ('bind', 'inner'):
            for g_bound_first in (False, True):
                for with_cond in (False, True):
                    meta = dict(none, jk2f={'obj': k, 'map': base.SHARED_MAPS[k]})
                    if with_cond:
                        meta['skip_if'] = {'obj': 11, 'cond': base.SHARED_CONDS[11]}
                    ff = [[t, 'int', None] for t in tgt]
                    gf = ff + [['extra_f', 'int', 0], ['z_val', 'int', 0]]
                    keys = list(base.SHARED_MAPS[k])
                    f_doc = dict({kk: i + 1 for i, kk in enumerate(keys)}, extra_f=9, z_val=4)
                    g_doc = dict({kk: i + 5 for i, kk in enumerate(keys)}, extra_f=9, zVal=3)
                    wiz = style == 'inner'
                    dF, dG = cls(1, ff, wiz, 'a', meta if wiz else None), cls(2, gf, wiz, 'b', dict(meta) if wiz else None)
                    bF = [] if wiz else [{'op': 'bind', 'cid': 1, 'meta': dict(meta), 'tag': 'bind'}]
                    bG = [] if wiz else [{'op': 'bind', 'cid': 2, 'meta': dict(meta), 'tag': 'bind'}]
                    useF = [{'op': 'load', 'cid': 1, 'attr': False, 'doc': f_doc, 'tag': 'load'},
                            {'op': 'dump', 'attr': False, 'inst': {'c': 1, 'f': [[t, {'i': i}] for i, t in enumerate(tgt)]}, 'tag': 'dump'}]
                    useG = [{'op': 'load', 'cid': 2, 'attr': False, 'doc': g_doc, 'tag': 'load'},
                            {'op': 'dump', 'attr': False, 'inst': {'c': 2, 'f': [[f[0], {'i': i}] for i, f in enumerate(gf)]}, 'tag': 'dump'}]
                    if wiz:
                        h = ([dF, dG] if g_bound_first else [dF]) + useF + ([] if g_bound_first else [dG]) + useG
                    else:
                        h = [dF, dG] + bF + (bG if g_bound_first else []) + useF + ([] if g_bound_first else bG) + useG
                    out.append((h, {2}))
    return out



# =========================================================================== second model (coq/model/FamModel.v)
# Meta objects as identities (heap), recursive_classes, loader / dumper classes with overridden hooks,
# every configuration entry point.  Runner: harness/impl/c07x.py (one pristine process per history).
FAM_META_KEYS = ('ltr', 'dtr', 'raise', 'skipdef', 'rec', 'rc')
FAM_TR = {'SNAKE': 'TrSnake', 'CAMEL': 'TrCamel', 'PASCAL': 'TrPascal', 'LISP': 'TrLisp', 'NONE': 'TrNone'}
FAM_SPELL = {'my_val': ['myVal', 'MyVal', 'my-val', 'My_Val', 'MY_VAL', 'My-Val', 'myval'],
             's_val': ['sVal', 'SVal', 's-val', 'S_Val', 'S_VAL'],
             'amount': ['Amount', 'AMOUNT'], 'tag_s': ['tagS', 'TagS', 'tag-s', 'Tag_S'],
             'n_item': ['nItem', 'NItem', 'n-item', 'N_Item'], 'm_item': ['mItem', 'MItem', 'm-item'],
             'x': ['X'], 'total': ['Total', 'TOTAL']}


def _qo(x):
    return 'None' if x is None else '(Some %s)' % x


def _qb(b):
    return 'true' if b else 'false'


def fam_q_meta(m):
    m = m or {}
    core = '(Build_meta %s %s %s %s %s)' % (
        _qo(None if m.get('ltr') is None else FAM_TR[m['ltr']]), _qo(None if m.get('dtr') is None else FAM_TR[m['dtr']]),
        _qo(None if m.get('raise') is None else _qb(m['raise'])), _qo(None if m.get('skipdef') is None else _qb(m['skipdef'])),
        _qo(None if m.get('rec') is None else _qb(m['rec'])))
    return '(Build_fmeta %s %s)' % (core, _qo(None if m.get('rc') is None else _qb(m['rc'])))


def fam_q_hooks(h):
    if h is None:
        return 'None'
    return '(Some (Build_hooks %s %s))' % (_qo(None if h.get('int') is None else '(%d)%%Z' % h['int']),
                                           _qo(None if h.get('str') is None else base.coq_str(h['str'])))


def fam_q_decl(decl, cid):
    o = decl[cid]
    fs = []
    for name, ty, dflt in o['fields']:
        t = 'TInt' if ty == 'int' else 'TStr' if ty == 'str' else '(TNested %s)' % fam_q_decl(decl, ty['nested'])
        d = 'None' if dflt is None else '(Some (DInt (%d)%%Z))' % dflt if isinstance(dflt, int) else '(Some (DStr %s))' % base.coq_str(dflt)
        fs.append('(%s, %s, %s)' % (base.coq_str(name), t, d))
    kind = {'plain': 'KPlain', 'wiz': 'KWiz', 'pywiz': 'KPyWiz'}[o['kind']]
    info = '(Build_finfo %d%%nat %d%%nat %s %s %s %s)' % (cid, o['qn'], kind, _qo(None if o.get('inner') is None else fam_q_meta(o['inner'])),
                                                       fam_q_hooks(o.get('lmix')), fam_q_hooks(o.get('dmix')))
    return '(FDecl %s %s)' % (info, base.coq_list(fs))


def fam_q_history(h):
    decl = {o['cid']: o for o in h if o['op'] == 'define'}
    env = base.coq_list([fam_q_decl(decl, c) for c in decl])
    ops = []
    for o in h:
        k = o['op']
        if k == 'define':
            ops.append('(FDefine %d%%nat)' % o['cid'])
        elif k == 'bind':
            ops.append('(FBind %d%%nat %s)' % (o['cid'], fam_q_meta(o['meta'])))
        elif k == 'load':
            ops.append('(FLoad %d%%nat %s)' % (o['cid'], base.q_doc(o['doc'])))
        else:
            ops.append('(FDump %s)' % base.q_val(o['inst']))
    return 'show_frun %s %s' % (env, base.coq_list(ops))


def fam_in_model(h):
    """is the history inside the grammar of coq/model/FamModel.v ?"""
    for o in h:
        if o['op'] == 'define':
            if o.get('key_case') is not None or o['kind'] not in ('plain', 'wiz', 'pywiz'):
                return False
            if any(not (ty in ('int', 'str') or (isinstance(ty, dict) and 'nested' in ty)) for _, ty, _ in o['fields']):
                return False
            if o.get('inner') and any(k not in FAM_META_KEYS for k, v in o['inner'].items() if v is not None):
                return False
        elif o['op'] == 'bind':
            if any(k not in FAM_META_KEYS for k, v in o['meta'].items() if v is not None):
                return False
        elif o['op'] not in ('load', 'dump'):
            return False
    return True


def fam_run_jobs(ctx, jobs, per_proc=25, workers=12):
    payloads, idx = [], []
    for k in range(0, len(jobs), per_proc):
        chunk = jobs[k:k + per_proc]
        payloads.append({'jobs': [{'salt': 'f%d' % (k + i), 'ops': [{kk: v for kk, v in o.items() if kk != 'tag'} for o in ops]}
                                  for i, ops in enumerate(chunk)]})
        idx.append((k, len(chunk)))
    out = [None] * len(jobs)
    with base.cf.ThreadPoolExecutor(max_workers=workers) as ex:
        for (k, n), res in zip(idx, ex.map(lambda p: ctx.impl('c07x', p, timeout=900), payloads)):
            for i in range(n):
                out[k + i] = res['results'][i]
    return out


def fam_run_model(ctx, histories, tag):
    res = ctx.coq([fam_q_history(h) for h in histories], ['PyStr', 'StrConv', 'StateModel', 'StateShow', 'FamModel', 'FamShow'], tag=tag)
    out = []
    for h, r in zip(histories, res):
        qn_of = {o['cid']: o['qn'] for o in h if o['op'] == 'define'}
        out.append([base.model_to_qn(p, qn_of) for p in (r.split(';') if h else [])])
    return out


def fam_op_class(o):
    return o['inst']['c'] if o['op'] == 'dump' else o['cid']


def fam_proj(h, G):
    return [o for o in h if fam_op_class(o) in G]


# ---- building blocks
def fcls(cid, fields, kind='plain', inner=None, mod='a', qn=None, lmix=None, dmix=None, key_case=None):
    return {'op': 'define', 'cid': cid, 'qn': cid if qn is None else qn, 'mod': mod, 'kind': kind, 'key_case': key_case,
            'inner': inner, 'lmix': lmix, 'dmix': dmix, 'fields': fields}


def fbind(cid, meta, via='load'):
    return {'op': 'bind', 'cid': cid, 'via': via, 'meta': dict(meta)}


class FamDocs:
    """documents and instances for a set of declarations; every key spelling that is not the exact field name is
    used at most ONCE per class in a history (the key caches of a class are outside FamModel.v)"""

    def __init__(self, r, decl):
        self.r, self.decl, self.used, self.n = r, decl, set(), 0

    def key(self, cid, name, exact=False):
        if not exact:
            for sp in FAM_SPELL.get(name, []):
                if (cid, sp) not in self.used and self.r.random() < 0.6:
                    self.used.add((cid, sp))
                    return sp
        return name

    def junk(self):
        self.n += 1
        return 'zz%d' % self.n

    def doc(self, cid, exact=False, junk=True, strs=True):
        r = self.r
        d = {}
        for name, ty, dflt in self.decl[cid]['fields']:
            if dflt is not None and r.random() < 0.3:
                continue
            k = self.key(cid, name, exact)
            if isinstance(ty, dict) and 'nested' in ty:
                d[k] = self.doc(ty['nested'], exact, junk, strs)
            elif isinstance(ty, dict) and 'list' in ty:
                d[k] = [self.doc(ty['list'], exact, junk, strs)]
            elif ty == 'self':
                if r.random() < 0.5:
                    d[k] = {kk: v for kk, v in self.doc(cid, exact, junk, strs).items()}
            elif ty == 'int':
                d[k] = r.choice([r.randrange(0, 9), str(r.randrange(1, 60))]) if strs else r.randrange(0, 9)
            else:
                d[k] = r.choice(['ab', 'q', 'v7'])
        if junk:
            d[self.junk()] = 1
        if r.random() < 0.3:
            items = list(d.items())
            r.shuffle(items)
            d = dict(items)
        return d

    def inst(self, cid):
        r = self.r
        fs = []
        for name, ty, dflt in self.decl[cid]['fields']:
            if isinstance(ty, dict) and 'nested' in ty:
                fs.append([name, self.inst(ty['nested'])])
            elif isinstance(ty, dict) and 'list' in ty:
                fs.append([name, {'l': [self.inst(ty['list'])]}])
            elif ty == 'self':
                fs.append([name, None])
            elif ty == 'int':
                fs.append([name, {'i': dflt if (dflt is not None and r.random() < 0.6) else r.randrange(2, 40)}])
            else:
                fs.append([name, {'s': dflt if (dflt is not None and r.random() < 0.6) else r.choice(['ab', 'v7'])}])
        return {'c': cid, 'f': fs}

    def use(self, cid, kinds=('load', 'dump')):
        out = []
        for k in kinds:
            if k == 'load':
                out.append({'op': 'load', 'cid': cid, 'attr': False, 'doc': self.doc(cid)})
            else:
                out.append({'op': 'dump', 'attr': False, 'inst': self.inst(cid)})
        return out


N_FIELDS = [['my_val', 'int', None], ['s_val', 'str', 'q'], ['x', 'int', 0]]


def root_fields(n, own='amount', extra=None):
    return [['n_item', {'nested': n}, None]] + (extra or []) + [[own, 'int', 0], ['tag_s', 'str', 't']]


# every Meta setting that is compiled into a generated (nested) load / dump function or written to the loader / dumper class
FAM_SETTINGS = [{'raise': True}, {'ltr': 'NONE'}, {'ltr': 'PASCAL'}, {'skipdef': True}, {'dtr': 'SNAKE'}, {'dtr': 'PASCAL'},
                {'raise': True, 'skipdef': True}, {'ltr': 'CAMEL', 'raise': True}, {'dtr': 'LISP', 'skipdef': True}]


def fam_lattice(r, ext=False):
    """shared nested class N x {every compiled setting on F} x recursive_classes on/off for F and for G x order
    (F first / G first / N alone first) x how F is configured (LoadMeta / DumpMeta / inner Meta / JSONPyWizard + inner).
    G = {N, root 3}; F = {root 2}.  ext: the roots are self-referential (Optional['Self']) and hold a list of N as well."""
    out = []
    for setting in FAM_SETTINGS:
        for rcF in (True, None):
            for rcG in (True, None):
                for order in 'FGN':
                    styles = ['load', 'dump', 'inner', 'pywiz']
                    style = styles[len(out) % 4] if not ext else r.choice(styles[:3])
                    fm = dict(setting)
                    if rcF:
                        fm['rc'] = True
                    if ext and not (rcF and rcG):
                        continue
                    extra = [['items', {'list': 1}, None], ['kid', 'self', None]] if ext else None
                    if ext:
                        fm = {k: v for k, v in fm.items() if k not in ('ltr', 'dtr')}     # no key transform: nothing may leak at all
                        if len(fm) < 2:
                            continue
                    nmeta = r.choice([None, None, {'raise': False}, {'skipdef': False}, {'rc': True}])
                    h = [fcls(1, N_FIELDS, mod='b')]
                    if style in ('inner', 'pywiz'):
                        h.append(fcls(2, root_fields(1, extra=extra), kind='wiz' if style == 'inner' else 'pywiz', inner=fm, mod='a'))
                    else:
                        h.append(fcls(2, root_fields(1, extra=extra), kind=r.choice(['plain', 'wiz']), mod='a'))
                    h.append(fcls(3, root_fields(1, own='total', extra=extra), mod='b'))
                    if style in ('load', 'dump'):
                        h.append(fbind(2, fm, style))
                    if rcG:
                        h.append(fbind(3, {'rc': True}, 'load'))
                    if nmeta:
                        h.append(fbind(1, nmeta, 'load'))
                    docs = FamDocs(r, {o['cid']: o for o in h if o['op'] == 'define'})
                    uf = docs.use(2) + (docs.use(2, ('load',)) if r.random() < 0.4 else [])
                    ug, un = docs.use(3), docs.use(1)
                    r.shuffle(uf)
                    r.shuffle(ug)
                    h += {'F': uf + ug + un, 'G': ug + uf + docs.use(3) + un, 'N': un + uf + ug}[order]
                    out.append((h, {1, 3}, 'lattice%s/%s/rcF=%s/rcG=%s/%s' % ('_x' if ext else '', style, rcF, rcG, order)))
    return out


FAM_EQ_SETTINGS = [{'raise': True}, {'ltr': 'PASCAL'}, {'dtr': 'SNAKE'}, {'skipdef': True}, {'rc': True}, {'rec': False},
                   {'raise': True, 'dtr': 'LISP'}]
FAM_SECONDS = [{'skipdef': True}, {'raise': True}, {'dtr': 'LISP'}, {'ltr': 'NONE'}, {'raise': False, 'skipdef': False}]


def fam_equal_kwargs(r, quick):
    """two UNRELATED classes configured by EQUAL settings through every configuration entry point (LoadMeta, DumpMeta,
    inner Meta, JSONPyWizard + inner Meta, JSONWizard key_case=), then a second binding (LoadMeta / DumpMeta) to F only;
    three orders.  G = {2} (and its nested class 4 when it has one)."""
    combos = []
    for entry in ('load', 'dump', 'inner', 'pywiz', 'key_case'):
        for s in FAM_EQ_SETTINGS:
            for s2 in FAM_SECONDS:
                for via2 in ('load', 'dump'):
                    for order in ('FG', 'GF', 'F2G'):
                        combos.append((entry, s, s2, via2, order))
    if quick:
        # every (entry, setting) and every (entry, second, via, order) at least once, the rest sampled
        keep, seen1, seen2 = [], set(), set()
        r.shuffle(combos)
        for c in combos:
            k1, k2 = (c[0], json.dumps(c[1])), (c[0], json.dumps(c[2]), c[3], c[4])
            if k1 not in seen1 or k2 not in seen2:
                keep.append(c)
                seen1.add(k1)
                seen2.add(k2)
        combos = keep
    out = []
    for entry, s, s2, via2, order in combos:
        nested = r.random() < 0.4
        ff = ([['n_item', {'nested': 3}, None]] if nested else []) + N_FIELDS + [['amount', 'int', 0]]
        gf = ([['n_item', {'nested': 4}, None]] if nested else []) + N_FIELDS + [['amount', 'int', 0]]
        kind = {'load': r.choice(['plain', 'wiz']), 'dump': r.choice(['plain', 'wiz']), 'inner': 'wiz', 'pywiz': 'pywiz', 'key_case': 'wiz'}[entry]
        kw = {}
        if entry in ('inner', 'pywiz'):
            kw['inner'] = dict(s)
        if entry == 'key_case':
            kw['key_case'] = 'CAMEL'
        pre = [fcls(3, N_FIELDS, mod='a'), fcls(4, N_FIELDS, mod='b')] if nested else []
        F, Gc = fcls(1, ff, kind=kind, mod='a', **kw), fcls(2, gf, kind=kind, mod='b', **kw)
        bF = [fbind(1, s, entry)] if entry in ('load', 'dump') else []
        bG = [fbind(2, s, entry)] if entry in ('load', 'dump') else []
        b2 = [fbind(1, s2, via2)]
        h0 = pre + [F, Gc]
        docs = FamDocs(r, {o['cid']: o for o in h0})
        useF, useG = docs.use(1), docs.use(2)
        if order == 'FG':
            h = pre + [F, Gc] + bF + bG + b2 + useF + useG
        elif order == 'GF':
            h = pre + [Gc, F] + bG + bF + b2 + useF + useG
        else:
            h = pre[:1] + [F] + bF + b2 + useF + pre[1:] + [Gc] + bG + useG
        out.append((h, {2, 4} if nested else {2}, 'equal/%s/%s' % (entry, order)))
    return out


def fam_hook_pairs(r, ext=False):
    """F is a dataclass that subclasses LoadMixin / DumpMixin and overrides load_to_* / dump_with_* hooks; it nests N,
    which G nests too (and which is used on its own); orders F / G / N first; F optionally has a Meta.
    ext: F also holds list[N]; hooks are also REGISTERED (register_load_hook / register_dump_hook) on F."""
    out = []
    mixes = [({'int': 100}, None), (None, {'int': 7}), ({'int': 3, 'str': 'p'}, {'int': 5, 'str': 'z'}), ({'str': 'L'}, {'str': 'D'})]
    for lmix, dmix in mixes:
        for kind in ('plain', 'wiz'):
            for order in 'FGN':
                for fmeta in (None, {'raise': True}, {'rc': True}, {'rc': True, 'skipdef': True}):
                    if ext and fmeta and r.random() < 0.5:
                        continue
                    extra = [['items', {'list': 1}, None]] if ext else None
                    h = [fcls(1, N_FIELDS, mod='b'), fcls(2, root_fields(1, extra=extra), kind=kind, lmix=lmix, dmix=dmix, mod='a'),
                         fcls(3, root_fields(1, own='total', extra=extra), mod='b')]
                    if fmeta:
                        h.append(fbind(2, fmeta, r.choice(['load', 'dump'])))
                    if ext:
                        if lmix:
                            h.append({'op': 'reghook', 'cid': 2, 'side': 'load', 'ty': 'int', 'k': 11})
                        if dmix:
                            h.append({'op': 'reghook', 'cid': 2, 'side': 'dump', 'ty': 'str', 'k': 'R'})
                    docs = FamDocs(r, {o['cid']: o for o in h if o['op'] == 'define'})
                    uf, ug, un = docs.use(2), docs.use(3), docs.use(1)
                    h += {'F': uf + ug + un, 'G': ug + uf + docs.use(3) + un, 'N': un + uf + ug}[order]
                    out.append((h, {1, 3}, 'hooks%s/%s/%s' % ('_x' if ext else '', kind, order)))
    return out


def fam_gen_meta(r):
    m = {}
    if r.random() < 0.4:
        m['dtr'] = r.choice(['SNAKE', 'PASCAL', 'LISP', 'NONE', 'CAMEL'])
    if r.random() < 0.35:
        m['ltr'] = r.choice(['SNAKE', 'PASCAL', 'LISP', 'NONE', 'CAMEL'])
    if r.random() < 0.4:
        m['raise'] = r.random() < 0.8
    if r.random() < 0.35:
        m['skipdef'] = r.random() < 0.8
    if r.random() < 0.12:
        m['rec'] = r.random() < 0.6
    if r.random() < 0.45:
        m['rc'] = r.random() < 0.85
    if not m:
        m['rc'] = True
    return m


def fam_random_pair(r):
    """random family pair in the grammar of FamModel.v: 1-2 roots and 0-2 nested leaves per family, a nested class shared
    between the families half of the time; every entry point; bindings at ANY time (also after first use) and REPEATED."""
    shared = r.random() < 0.5
    decl, h, F, G = {}, [], set(), set()
    nxt = [1]

    def add(fam, fields, **kw):
        c = nxt[0]
        nxt[0] += 1
        o = fcls(c, fields, mod='a' if fam is F else 'b', **kw)
        decl[c] = o
        fam.add(c)
        return c

    def leaf(fam):
        kind = r.choice(['plain', 'plain', 'wiz', 'pywiz'])
        return add(fam, N_FIELDS, kind=kind, inner=fam_gen_meta(r) if (kind != 'plain' and r.random() < 0.4) else None,
                   lmix=r.choice([None, None, None, {'int': 10}]), dmix=r.choice([None, None, None, {'int': 1}]))

    def root(fam, nested):
        kind = r.choice(['plain', 'wiz', 'wiz', 'pywiz'])
        fields = [['n_item', {'nested': nested[0]}, None]] + ([['m_item', {'nested': nested[1]}, None]] if len(nested) > 1 else []) + \
                 [[r.choice(['amount', 'total']), 'int', 0], ['tag_s', 'str', 't']]
        return add(fam, fields, kind=kind, inner=fam_gen_meta(r) if (kind != 'plain' and r.random() < 0.5) else None,
                   lmix=r.choice([None, None, None, {'int': 100}, {'int': 2, 'str': 'p'}]), dmix=r.choice([None, None, None, {'int': 7}, {'str': 'z'}]))
    n_sh = leaf(G) if shared else None
    roots = {}
    for fam in (F, G):
        own = [leaf(fam) for _ in range(r.choice([0, 1, 1]) if (shared or fam is G) else r.choice([1, 1, 2]))]
        roots[id(fam)] = []
        for _ in range(r.choice([1, 1, 2])):
            pool = own + ([n_sh] if shared else [])
            if not pool:
                pool = [leaf(fam)]
                own.extend(pool)
            nested = r.sample(pool, min(len(pool), r.choice([1, 1, 2])))
            roots[id(fam)].append(root(fam, nested))
    order = sorted(decl)
    defs = [decl[c] for c in order]
    docs = FamDocs(r, decl)
    # definitions in id order (nested before roots), then an interleaving of bindings and uses
    h = list(defs)
    events = []
    for fam, w in ((F, 0.7), (G, 0.4)):
        for c in sorted(fam):
            for _ in range(r.choice([0, 1, 1, 2, 3]) if r.random() < w else 0):
                events.append(('bind', c))
    n_use = r.choice([3, 4, 5, 6, 8])
    for k in range(n_use):
        fam = F if r.random() < (0.7 if k < n_use // 2 else 0.3) else G
        events.append(('use', r.choice(sorted(fam))))
    # bindings mostly first, some anywhere
    binds = [e for e in events if e[0] == 'bind']
    uses = [e for e in events if e[0] == 'use']
    r.shuffle(binds)
    seq = binds[:]
    for u in uses:
        seq.append(u)
    late = [b for b in binds if r.random() < 0.3]
    for b in late:
        seq.remove(b)
        seq.insert(r.randrange(len(binds) - len(late), len(seq) + 1), b)
    for kind, c in seq:
        if kind == 'bind':
            h.append(fbind(c, fam_gen_meta(r), r.choice(['load', 'dump'])))
        else:
            h.extend(docs.use(c, (r.choice(['load', 'dump']),)))
    if not any(o['op'] in ('load', 'dump') and fam_op_class(o) in G for o in h):
        h.extend(docs.use(r.choice(sorted(G))))
    return h, G, 'random/%s' % ('shared' if shared else 'disjoint')


def fam_witnesses():
    """the concrete programs of coq/proofs/FamWitness.v (frame example and refutation witnesses) as harness histories"""
    def ninst(c, v):
        return {'c': c, 'f': [['my_val', {'i': v}], ['s_val', {'s': 'q'}], ['x', {'i': 0}]]}

    def rinst(c, n, a, tag):
        return {'c': c, 'f': [['n_item', n], ['amount', {'i': a}], ['tag_s', {'s': tag}]]}

    def ld(c, doc):
        return {'op': 'load', 'cid': c, 'attr': False, 'doc': doc}

    def dp(v):
        return {'op': 'dump', 'attr': False, 'inst': v}
    rf = lambda n: [['n_item', {'nested': n}, None], ['amount', 'int', 0], ['tag_s', 'str', 't']]  # noqa
    ex = [fcls(1, N_FIELDS), fcls(2, rf(1), kind='wiz', inner={'ltr': 'SNAKE', 'raise': True, 'rc': True}, lmix={'int': 100}),
          fcls(3, N_FIELDS, mod='b'), fcls(4, rf(3), kind='pywiz', inner={'skipdef': True}, dmix={'str': 'z'}, mod='b'),
          fbind(2, {'dtr': 'LISP'}, 'dump'),
          ld(2, {'nItem': {'myVal': 2}, 'Amount': '3'}),
          fbind(4, {'rc': True}),
          ld(4, {'n_item': {'myVal': 5, 'zz1': 1}, 'amount': 7}),
          fbind(2, {'raise': False}),
          dp(rinst(4, ninst(3, 9), 0, 'u')),
          ld(3, {'my_val': '4', 'zz2': 1}),
          fbind(4, {'dtr': 'SNAKE'}, 'dump'),
          dp(rinst(4, ninst(3, 9), 2, 't')),
          ld(2, {'NItem': {'MyVal': 2, 'zz3': 0}}),
          dp(rinst(2, ninst(1, 1), 5, 't'))]
    memo = [fcls(1, N_FIELDS), fcls(2, N_FIELDS, mod='b'), fbind(1, {'raise': True}), fbind(2, {'raise': True}),
            fbind(1, {'skipdef': True}), dp(ninst(2, 5))]
    qn = [fcls(1, N_FIELDS, kind='wiz', qn=7, inner={'dtr': 'PASCAL', 'raise': True}), fcls(2, N_FIELDS, kind='wiz', qn=7, mod='b'),
          fbind(1, {'skipdef': True}), dp(ninst(2, 5)), ld(2, {'my_val': 1, 'zz': 2})]
    rc = [fcls(1, N_FIELDS, mod='b'), fcls(2, rf(1)), fcls(3, rf(1), mod='b'), fbind(2, {'ltr': 'NONE', 'rc': True}), fbind(3, {'rc': True}),
          ld(2, {'n_item': {'my_val': 1}}), ld(3, {'n_item': {'myVal': 2}})]
    return [(ex, {3, 4}, 'witness/frame_example'), (memo, {2}, 'witness/equal_settings'),
            (qn, {2}, 'witness/same_qualname'), (rc, {1, 3}, 'witness/shared_nested_rc')]


def fam_shares_qualname(h, G):
    """two JSONWizard classes with the same qualname on different sides of the border (open region F11)"""
    wiz = [o for o in h if o['op'] == 'define' and o['kind'] != 'plain']
    return any(a['qn'] == b['qn'] and (a['cid'] in G) != (b['cid'] in G) for a in wiz for b in wiz)


def fam_shares_class(h, G):
    """some class is nested on BOTH sides of the border (the open region F10 needs one)"""
    decl = {o['cid']: o for o in h if o['op'] == 'define'}
    for c, o in decl.items():
        for _, ty, _ in o['fields']:
            if isinstance(ty, dict):
                n = ty.get('nested', ty.get('list'))
                if (n in G) != (c in G):
                    return True
    return False


def fam_g_failures(h, G, impl, alone):
    idx = [i for i, o in enumerate(h) if fam_op_class(o) in G]
    return [(i, j) for j, i in enumerate(idx) if impl[i] != alone[j]]


def fam_shrink(ctx, h, G, i, budget=24):
    """drop operations of the other family while G's operation i keeps differing from the projected run"""
    target = h[i]
    cur = h[:i + 1]

    def fails(hh):
        a, b = fam_run_jobs(ctx, [hh, fam_proj(hh, G)], per_proc=1, workers=2)
        ii = max(k for k, o in enumerate(hh) if o is target)
        jj = sum(1 for o in hh[:ii] if fam_op_class(o) in G)
        return a[ii] != b[jj]
    changed = True
    while changed and budget > 0:
        changed = False
        for k in range(len(cur) - 2, -1, -1):
            o = cur[k]
            if o['op'] == 'define':
                continue
            cand = cur[:k] + cur[k + 1:]
            budget -= 1
            if budget < 0:
                break
            try:
                if fails(cand):
                    cur, changed = cand, True
                    break
            except Exception:  # noqa
                pass
    return cur


def fam_check(ctx, pairs, label):
    """pairs: (history, G, tag).  Direct predicate: G's outcomes == outcomes of the projected history run in a pristine
    process of its own.  Correspondence: FamModel.frun_out on every history inside the model's grammar."""
    jobs = [h for h, _, _ in pairs] + [fam_proj(h, G) for h, G, _ in pairs]
    res = fam_run_jobs(ctx, jobs)
    n = len(pairs)
    in_model = [fam_in_model(h) for h, _, _ in pairs]
    mod = {}
    try:
        mh = [k for k in range(n) if in_model[k]]
        for k, m in zip(mh, fam_run_model(ctx, [pairs[k][0] for k in mh], tag=label)):
            mod[k] = m
    except Exception as e:  # noqa
        ctx.broken_tie('%s: model evaluation failed: %s' % (label, str(e)[:600]))
    for k, (h, G, tag) in enumerate(pairs):
        impl, alone, m = res[k], res[n + k], mod.get(k)
        ctx.count(1, key='fam:' + json.dumps([h, sorted(G)], sort_keys=True), nontrivial=True)
        ctx.hist('fam_pairs', tag.split('/')[0])
        if m is not None:
            ctx.traces_validated += 1
            if m != impl:
                ctx.disagreements_checked += 1
                j = next((i for i in range(min(len(m), len(impl))) if m[i] != impl[i]), None)
                ctx.broken_tie('%s [%s]: Meta-heap model and implementation disagree at operation %s: model %s, implementation %s'
                               % (label, tag, j, None if j is None else m[j], None if j is None else impl[j]),
                               {'history': h, 'model': m, 'impl': impl})
        bad = fam_g_failures(h, G, impl, alone)
        ctx.hist('fam_g_outcome_changed', '%s/%s' % (tag.split('/')[0], 'yes' if bad else 'no'))
        for i, j in bad:
            # the open regions here are F10 (key transforms written to the loader / dumper class and the key table of a nested
            # class that BOTH families use) and F11 (same qualname), and only with the outcome the faithful model predicts
            as_model = m is not None and i < len(m) and m[i] == impl[i]
            known = [f for f, inside in (('F10', fam_shares_class(h, G)), ('F11', fam_shares_qualname(h, G)))
                     if inside and as_model and ctx.is_open_region(base.OPEN[f])]
            if known:
                for f in known:
                    ctx.hist('known_region', base.OPEN[f])
                continue
            ctx._fam_shrunk = getattr(ctx, '_fam_shrunk', 0) + 1
            small = fam_shrink(ctx, h, G, i) if ctx._fam_shrunk <= 3 else h[:i + 1]
            ctx.violation('%s [%s]: operation %d (%s on class %s of family G) gives %s when the other family was defined / configured / used, '
                          'but %s in a pristine process%s' % (label, tag, i, h[i]['op'], fam_op_class(h[i]), impl[i], alone[j],
                                                               '' if m is None or i >= len(m) else '; today\'s behaviour (Meta-heap model): %s' % m[i]),
                          {'kind': 'fam_pair', 'history': small, 'G': sorted(G), 'full_history': h, 'index': i})
    return res


def proj(h, G):
    return [o for o in h if base.op_class(o) in G]


def check_pairs(ctx, pairs, label, model=True):
    """pairs: list of (history, G).  Returns per pair {'impl','alone','model','regions'}"""
    jobs = [h for h, _ in pairs] + [proj(h, G) for h, G in pairs]
    res = base.run_jobs(ctx, jobs)
    n = len(pairs)
    mod = None
    if model:
        try:
            mod = base.run_model(ctx, [h for h, _ in pairs], tag=label)
        except Exception as e:  # noqa
            ctx.broken_tie('model evaluation failed: %s' % str(e)[:600])
    out = []
    for k, (h, G) in enumerate(pairs):
        out.append({'impl': res[k], 'alone': res[n + k], 'model': None if mod is None else mod[k], 'regions': base.regions_of(h)})
    return out


def g_failures(h, G, impl, alone):
    """indices (in h) of G's operations whose outcome differs from the projected run"""
    idx = [i for i, o in enumerate(h) if base.op_class(o) in G]
    return [(i, j) for j, i in enumerate(idx) if impl[i] != alone[j]]


def caused_by_other(h, G, regs, i, _seen=None):
    """open regions of operation i whose chain of causes reaches an operation outside G
    (e.g. a G class that inherited F's Meta through its qualname (F11) and then cascaded it into a
    nested G class (F10): the later use of the nested class alone is still F's doing)"""
    seen = _seen if _seen is not None else set()
    out = []
    for f, causes in regs[i].items():
        if f not in ('F2', 'F10', 'F11', 'F40'):
            continue
        for c in causes:
            if base.op_class(h[c]) not in G:
                out.append(f)
                break
            if c not in seen and c != i:
                seen.add(c)
                if caused_by_other(h, G, regs, c, seen):
                    out.append(f)
                    break
    return out


def excused(h, G, i):
    """open regions that explain a changed outcome of G's operation i:
    (a) the operation lies in F10 / F11 / F40 with a chain of causes reaching the other family;
    (b) by then some class of G carries a Meta object written by the other family (F11: picked up
        through a shared qualname, F40: rewritten by a BindMeta addressed to a class of the other
        family) - every later outcome of G, including how G's own aliasing shows, hangs on that object."""
    regs, taints = base.analyse(h)
    out = set(caused_by_other(h, G, regs, i))
    t11, t40 = taints[i]
    for c, causes in t11.items():
        if c in G and any(base.op_class(h[k]) not in G for k in causes):
            out.add('F11')
    for c, causes in t40.items():
        if c in G and any(base.op_class(h[k]) not in G for k in causes):
            out.add('F40')
    # the reverse direction: a class of the other family that shares a Meta object with G and was rebound
    for c, causes in t40.items():
        if c not in G and any(base.op_class(h[k]) in G for k in causes):
            pass
    return sorted(out)


def report(ctx, label, h, G, info):
    impl, alone, mod, regs = info['impl'], info['alone'], info['model'], info['regions']
    if mod is not None:
        ctx.traces_validated += 1
        if mod != impl:
            ctx.disagreements_checked += 1
            k = next((i for i in range(min(len(mod), len(impl))) if mod[i] != impl[i]), None)
            ctx.broken_tie('%s: state model and implementation disagree at operation %s: model %s, implementation %s'
                           % (label, k, None if k is None else mod[k], None if k is None else impl[k]),
                           {'history': h, 'model': mod, 'impl': impl})
    bad = g_failures(h, G, impl, alone)
    for i, j in bad:
        # open regions whose cause is (transitively) an operation of the OTHER family
        known = [f for f in excused(h, G, i) if ctx.is_open_region(base.OPEN[f])]
        # inside an open region only the behaviour the faithful model reproduces is a known finding; an outcome
        # the model does not predict (another setting leaking, another order) is a violation with this input
        beyond = bool(known) and mod is not None and i < len(mod) and mod[i] != impl[i]
        if known and not beyond:
            for f in known:
                ctx.hist('known_region', base.OPEN[f])
            continue
        if beyond:
            ctx.violation('%s: operation %d (%s on class %s of family G) lies in the open region %s, but gives %s where today\'s '
                          'behaviour (state model) is %s; on its own: %s' % (label, i, h[i]['op'], base.op_class(h[i]), '/'.join(known),
                                                                         impl[i], mod[i], alone[j]),
                          {'kind': 'pair', 'history': h[:i + 1], 'G': sorted(G), 'full_history': h, 'index': i, 'model': mod[i]})
            continue

        def fails(hh, target=h[i]):
            if not any(o is target for o in hh):
                return False
            a, b = base.run_jobs(ctx, [hh, proj(hh, G)], per_proc=1, workers=2)
            ii = max(k for k, o in enumerate(hh) if o is target)
            jj = sum(1 for o in hh[:ii] if base.op_class(o) in G)
            return a[ii] != b[jj] and not excused(hh, G, ii)
        small = base.shrink(ctx, h[:i + 1], fails, budget=30)
        ctx.violation('%s: operation %d (%s on class %s of family G) gives %s when another family was defined/configured/used before, '
                      'but %s on its own' % (label, i, h[i]['op'], base.op_class(h[i]), impl[i], alone[j]),
                      {'kind': 'pair', 'history': small, 'G': sorted(G), 'full_history': h, 'index': i})
    return bad


def replay_pair(ctx, h, G):
    a, b = base.run_jobs(ctx, [h, proj(h, G)], per_proc=1, workers=2)
    return a, b


C07_WITNESS_G = {'F10-shared-nested-meta-leak': [1, 3], 'F11-meta-initializer-qualname': [2],
                 'F40-subclass-bind-mutates-base-meta': [1]}


def run(ctx):
    quick = ctx.tier == 'quick'
    r = ctx.sub_rng('pairs')
    wit = base.witness_histories()
    for f in ctx.findings('open'):
        w = f.get('witness') or {}
        h = w.get('history') or wit.get(f['id'])
        G = set(w.get('G') or C07_WITNESS_G.get(f['id'], []))
        if h is None or not G:
            continue
        a, b = replay_pair(ctx, h, G)
        ctx.count(1, key='witness:' + f['id'])
        ctx.known_finding(f['id'], still_fails=bool(g_failures(h, G, a, b)))
    # also the second F10 witness (nested class used alone afterwards)
    n = 360 if quick else 5000
    pairs, rels = [], []
    for k in range(n):
        rel = RELATIONS[k % 4] if k % 5 else 'disjoint'
        pairs.append(gen_pair(r, rel))
        rels.append(rel)
    for fid, G in C07_WITNESS_G.items():
        pairs.append((wit[fid], set(G)))
        rels.append('witness')
    pairs.append((wit['F10-nested-alone-after'], {1}))
    rels.append('witness')
    lat0 = lattice_pairs(r, ext=False)        # within the Coq model: the model says exactly what leaks today
    pairs.extend(lat0)
    rels.extend(['lattice'] * len(lat0))
    infos = check_pairs(ctx, pairs, 'c07')
    for (h, G), rel, info in zip(pairs, rels, infos):
        f_used_first = any(base.op_class(o) not in G and o['op'] in ('load', 'dump', 'bind') for o in h)
        ctx.count(1, key=base.history_text(h) + json.dumps(sorted(G)), nontrivial=f_used_first)
        ctx.hist('relation', rel)
        ctx.hist('length', len(h))
        bad = report(ctx, 'C07', h, G, info)
        ctx.hist('g_outcome_changed', '%s/%s' % (rel, 'yes' if bad else 'no'))
    ctx.sample({'relation': rels[0], 'history': pairs[0][0], 'G': sorted(pairs[0][1]), 'impl': infos[0]['impl'], 'alone': infos[0]['alone']})
    ctx.sample({'relation': rels[1], 'history': pairs[1][0], 'G': sorted(pairs[1][1]), 'impl': infos[1]['impl'], 'alone': infos[1]['alone']})
    # ---- second model (FamModel.v): Meta objects as identities, recursive_classes, hook classes, every entry point
    rf = ctx.sub_rng('fam')
    fam = fam_lattice(rf) + fam_lattice(rf, ext=True) + fam_equal_kwargs(rf, quick) + fam_hook_pairs(rf) + fam_hook_pairs(rf, ext=True)
    for h, G, tag in fam_witnesses():
        fam.append((h, G, tag))
    for _ in range(260 if quick else 4000):
        fam.append(fam_random_pair(rf))
    fres = fam_check(ctx, fam, 'C07fam')
    ctx.sample({'meta_heap_model': True, 'tag': fam[0][2], 'history': fam[0][0], 'G': sorted(fam[0][1]), 'impl': fres[0]})
    # extended grammar (direct predicate only): Meta settings outside the Coq model (recursive=False roots combined
    # with auto_assign_tags / tag_key / marshal_date_time_as / skip_if / json_key_to_field), F and G configured from the
    # SAME Python objects (one mapping dict, one Condition), datetime / Any / bool fields, failing dumps
    rx = ctx.sub_rng('pairs_x')
    px, relx = [], []
    for k in range(300 if quick else 4000):
        rel = RELATIONS[k % 4] if k % 3 else 'shared_nested'
        px.append(gen_pair(rx, rel, ext=True))
        relx.append(rel)
    lat = lattice_pairs(rx)
    px.extend(lat)
    relx.extend(['lattice'] * len(lat))
    sh = shared_object_pairs(rx)
    px.extend(sh)
    relx.extend(['shared_objects'] * len(sh))
    infx = check_pairs(ctx, px, 'c07x', model=False)
    for (h, G), rel, info in zip(px, relx, infx):
        ctx.count(1, key='x:' + base.history_text(h) + json.dumps(sorted(G)), nontrivial=True)
        ctx.hist('relation_x', rel)
        bad = report(ctx, 'C07x', h, G, info)
        ctx.hist('g_outcome_changed_x', '%s/%s' % (rel, 'yes' if bad else 'no'))
    ctx.sample({'extended': True, 'relation': relx[0], 'history': px[0][0], 'G': sorted(px[0][1]), 'impl': infx[0]['impl'], 'alone': infx[0]['alone']})


def replay(ctx, obj):
    if obj.get('kind') == 'fam_pair':
        h, G = obj['history'], set(obj['G'])
        a, b = fam_run_jobs(ctx, [h, fam_proj(h, G)], per_proc=1, workers=2)
        idx = [i for i, o in enumerate(h) if fam_op_class(o) in G]
        for j, i in enumerate(idx):
            print('op %d %s: with the other family %s | in a pristine process %s%s' % (i, h[i]['op'], a[i], b[j], '' if a[i] == b[j] else '   <-- differs'))
        return not fam_g_failures(h, G, a, b)
    if obj.get('kind') == 'pair':
        h, G = obj['history'], set(obj['G'])
        a, b = replay_pair(ctx, h, G)
        bad = g_failures(h, G, a, b)
        idx = [i for i, o in enumerate(h) if base.op_class(o) in G]
        for j, i in enumerate(idx):
            print('op %d %s: with the other family %s | alone %s%s' % (i, h[i]['op'], a[i], b[j], '' if a[i] == b[j] else '   <-- differs'))
        return not bad
    if 'finding' in obj:
        wit = base.witness_histories()
        h = (obj.get('witness') or {}).get('history') or wit.get(obj['finding'])
        G = set((obj.get('witness') or {}).get('G') or C07_WITNESS_G.get(obj['finding'], []))
        if h and G:
            a, b = replay_pair(ctx, h, G)
            print('with F: %s\nalone:  %s' % (a, b))
            return not g_failures(h, G, a, b)
    return base.replay(ctx, obj)
