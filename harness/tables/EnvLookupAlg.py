"""Tie T for an ALGORITHM: the lookup tiers of dataclass_wizard/environ/lookups.py
(`clean`, `try_cleaned`, `with_screaming_snake_case`, `with_snake_case`,
`with_pascal_or_camel_case`, the non-Windows `lookup_exact`) are translated from their current
SOURCE TEXT (Python ast) into Gallina over the state of model/EnvModel.v and printed as
gen/T_EnvLookupAlg.v.  proofs/EnvLookupSrcTie.v proves them equal to the hand-written model for
all states and keys, so the precedence theorems of C18 are about the order of attempts the
source spells out NOW.  Subset: straight-line `name = <string expr>`, `if <name> in Env.var_names:
return environ[<name>]`, final `return try_cleaned(<arg>)` / `return MISSING`; string expressions
are method chains of upper/lower/replace(ch, '') and to_snake_case(..).  Fails closed otherwise."""
import sys, os, ast, inspect, textwrap
sys.path.insert(0, os.path.dirname(os.path.abspath(__file__)))
from _common import *
from _py2gallina import Unsupported, need
from dataclass_wizard.environ import lookups as lk


def fn_ast(f, nargs=1):
    node = ast.parse(textwrap.dedent(inspect.getsource(f))).body[0]
    need(isinstance(node, ast.FunctionDef) and len(node.args.args) == nargs and not node.args.vararg
         and not node.args.kwarg and not node.args.kwonlyargs and not node.decorator_list, node, 'signature')
    body = [s for s in node.body if not (isinstance(s, ast.Expr) and isinstance(s.value, ast.Constant))]
    return node, [a.arg for a in node.args.args], body


def sexpr(node, env):
    """string expression -> Gallina pstr"""
    if isinstance(node, ast.Name):
        need(node.id in env, node, 'unknown name in a string expression')
        return env[node.id]
    if isinstance(node, ast.Call):
        f = node.func
        if isinstance(f, ast.Name) and f.id == 'to_snake_case' and len(node.args) == 1 and not node.keywords:
            need(lk.to_snake_case.__module__ == 'dataclass_wizard.utils.string_conv', node, 'to_snake_case rebound')
            return '(to_snake %s)' % sexpr(node.args[0], env)
        if isinstance(f, ast.Name) and f.id == 'clean' and len(node.args) == 1 and not node.keywords:
            return '(clean_src %s)' % sexpr(node.args[0], env)
        if isinstance(f, ast.Attribute) and not node.keywords:
            inner = sexpr(f.value, env)
            if f.attr in ('upper', 'lower') and not node.args:
                return '(%s %s)' % (f.attr, inner)
            if f.attr == 'replace' and len(node.args) == 2 and all(isinstance(a, ast.Constant) for a in node.args) \
                    and isinstance(node.args[0].value, str) and len(node.args[0].value) == 1 \
                    and ord(node.args[0].value) < 128 and node.args[1].value == '':
                return '(remove_char (ch %d) %s)' % (ord(node.args[0].value), inner)
    need(False, node, 'unsupported string expression')


def is_var_names(node):
    return (isinstance(node, ast.Attribute) and node.attr == 'var_names'
            and isinstance(node.value, ast.Name) and node.value.id == 'Env')


def environ_item(node, env):
    """`environ[<name>]` -> Gallina key expression"""
    need(isinstance(node, ast.Subscript) and isinstance(node.value, ast.Name) and node.value.id == 'environ',
         node, 'expected environ[...]')
    return sexpr(node.slice, env)


def tier(f):
    """with_*: chain of membership tests, then try_cleaned"""
    node, (arg,), body = fn_ast(f)
    env = {arg: 'key'}
    out, close = [], 0
    for i, st in enumerate(body):
        last = i == len(body) - 1
        if isinstance(st, ast.Assign):
            need(len(st.targets) == 1 and isinstance(st.targets[0], ast.Name) and not last, st, 'assignment')
            n = st.targets[0].id
            need(n not in env, st, 'rebinding of a local')
            out.append('let %s := %s in' % (n, sexpr(st.value, env)))
            env[n] = n
        elif isinstance(st, ast.If):
            t = st.test
            need(isinstance(t, ast.Compare) and len(t.ops) == 1 and isinstance(t.ops[0], ast.In)
                 and is_var_names(t.comparators[0]) and not st.orelse and len(st.body) == 1
                 and isinstance(st.body[0], ast.Return) and not last, st, 'expected `if k in Env.var_names: return environ[k]`')
            k = sexpr(t.left, env)
            k2 = environ_item(st.body[0].value, env)
            out.append('if mem_str %s (var_names st) then (st, env_item st %s) else' % (k, k2))
        elif isinstance(st, ast.Return):
            v = st.value
            need(last and isinstance(v, ast.Call) and isinstance(v.func, ast.Name) and v.func.id == 'try_cleaned'
                 and len(v.args) == 1 and not v.keywords, st, 'expected final `return try_cleaned(key)`')
            out.append('try_cleaned_src st %s' % sexpr(v.args[0], env))
        else:
            need(False, st, 'unsupported statement')
    need(body and isinstance(body[-1], ast.Return), node, 'missing final return')
    return '\n  '.join(out)


try:
    # clean(s) : one return of a method chain
    node, (arg,), body = fn_ast(lk.clean)
    need(len(body) == 1 and isinstance(body[0], ast.Return), node, 'clean: single return expected')
    clean_src = sexpr(body[0].value, {arg: 's'})

    # try_cleaned(key): key = Env.cleaned_to_env.get(clean(key)); if key is not None: return environ[key]; return MISSING
    node, (arg,), body = fn_ast(lk.try_cleaned)
    need(len(body) == 3, node, 'try_cleaned: three statements expected')
    a, i, r = body
    need(isinstance(a, ast.Assign) and len(a.targets) == 1 and isinstance(a.targets[0], ast.Name)
         and isinstance(a.value, ast.Call) and isinstance(a.value.func, ast.Attribute) and a.value.func.attr == 'get'
         and isinstance(a.value.func.value, ast.Attribute) and a.value.func.value.attr == 'cleaned_to_env'
         and isinstance(a.value.func.value.value, ast.Name) and a.value.func.value.value.id == 'Env'
         and len(a.value.args) == 1 and not a.value.keywords, a, 'try_cleaned: expected Env.cleaned_to_env.get(..)')
    probe = sexpr(a.value.args[0], {arg: 'key'})
    var = a.targets[0].id
    need(isinstance(i, ast.If) and isinstance(i.test, ast.Compare) and len(i.test.ops) == 1
         and isinstance(i.test.ops[0], ast.IsNot) and isinstance(i.test.left, ast.Name) and i.test.left.id == var
         and isinstance(i.test.comparators[0], ast.Constant) and i.test.comparators[0].value is None
         and not i.orelse and len(i.body) == 1 and isinstance(i.body[0], ast.Return)
         and environ_item(i.body[0].value, {var: 'var'}) == 'var', i, 'try_cleaned: expected `if key is not None: return environ[key]`')
    need(isinstance(r, ast.Return) and isinstance(r.value, ast.Name) and r.value.id == 'MISSING', r,
         'try_cleaned: expected `return MISSING`')

    tiers = [(n, tier(getattr(lk, n))) for n in
             ('with_screaming_snake_case', 'with_snake_case', 'with_pascal_or_camel_case')]

    # lookup_exact (the definition in force on this platform; the model is the non-Windows one)
    need(os.name != 'nt', None, 'platform')
    node, (arg,), body = fn_ast(lk.lookup_exact)
    need(len(body) == 2 and isinstance(body[0], ast.If) and isinstance(body[1], ast.Return)
         and isinstance(body[1].value, ast.Name) and body[1].value.id == 'MISSING', node, 'lookup_exact: shape')
    top = body[0]
    t = top.test
    need(isinstance(t, ast.Call) and isinstance(t.func, ast.Name) and t.func.id == 'isinstance' and len(t.args) == 2
         and isinstance(t.args[0], ast.Name) and t.args[0].id == arg and isinstance(t.args[1], ast.Name)
         and t.args[1].id == 'str', top, 'lookup_exact: expected isinstance(var, str)')

    def guarded_return(st, name):
        need(isinstance(st, ast.If) and isinstance(st.test, ast.Compare) and len(st.test.ops) == 1
             and isinstance(st.test.ops[0], ast.In) and isinstance(st.test.left, ast.Name) and st.test.left.id == name
             and is_var_names(st.test.comparators[0]) and not st.orelse and len(st.body) == 1
             and isinstance(st.body[0], ast.Return) and environ_item(st.body[0].value, {name: 'v'}) == 'v',
             st, 'lookup_exact: expected `if v in Env.var_names: return environ[v]`')
    need(len(top.body) == 1 and len(top.orelse) == 1, top, 'lookup_exact: branches')
    guarded_return(top.body[0], arg)
    loop = top.orelse[0]
    need(isinstance(loop, ast.For) and isinstance(loop.target, ast.Name) and isinstance(loop.iter, ast.Name)
         and loop.iter.id == arg and not loop.orelse and len(loop.body) == 1, loop, 'lookup_exact: loop')
    guarded_return(loop.body[0], loop.target.id)
except Unsupported as e:
    expect(False, str(e))

print('(* GENERATED by harness/tables/EnvLookupAlg.py from the SOURCE TEXT of\n'
      '   dataclass_wizard/environ/lookups.py on every check run. Do not edit. *)')
print('From DW Require Import PyStr StrConv EnvModel.\n')
print('Definition clean_src (s : pstr) : pstr := %s.\n' % clean_src)
print('Definition try_cleaned_src (st : state) (key : pstr) : state * lres :=\n'
      '  let (st\', c) := access_cleaned st in\n'
      '  match get c %s with\n  | Some var => (st\', env_item st\' var)\n  | None => (st\', NotFound)\n  end.\n' % probe)
for n, body in tiers:
    print('Definition %s_src (st : state) (key : pstr) : state * lres :=\n  %s.\n' % (n, body))
print('Definition lookup_exact_str_src (st : state) (v : pstr) : lres :=\n'
      '  if mem_str v (var_names st) then env_item st v else NotFound.\n')
print('Fixpoint lookup_exact_seq_src (st : state) (vars : list pstr) : lres :=\n'
      '  match vars with\n  | [] => NotFound\n'
      '  | v :: r => if mem_str v (var_names st) then env_item st v else lookup_exact_seq_src st r\n  end.')
