"""Default-engine hook registries: DumpMixin.__DUMP_HOOKS__ and LoadMixin.__LOAD_HOOKS__
as ordered (type name, hook function name) lists.  Order matters for the dump side:
_asdict_inner scans the registry in insertion order with isinstance()."""
import sys, os
sys.path.insert(0, os.path.dirname(os.path.abspath(__file__)))
from _common import *
from dataclass_wizard.dumpers import DumpMixin, _asdict_inner
from dataclass_wizard.loaders import LoadMixin
from dataclass_wizard.enums import DateTimeTo


def registry(cls, attr):
    hooks = getattr(cls, attr, None)
    expect(isinstance(hooks, dict) and hooks, '%s.%s is not a non-empty dict' % (cls.__name__, attr))
    out = []
    for t, f in hooks.items():
        tn = getattr(t, '__name__', None)
        fn = getattr(f, '__name__', None)
        expect(isinstance(tn, str) and isinstance(fn, str), 'hook entry %r -> %r' % (t, f))
        out.append('(%s, %s)' % (coq_str(tn), coq_str(fn)))
    return coq_list(out)


expect(callable(_asdict_inner), '_asdict_inner missing')
print(header('CoreDumpHooks', 'dataclass_wizard/dumpers.py, loaders.py, enums.py'))
print('Definition dump_hooks_v0 : list (pstr * pstr) := %s.\n' % registry(DumpMixin, '__DUMP_HOOKS__'))
print('Definition load_hooks_v0 : list (pstr * pstr) := %s.\n' % registry(LoadMixin, '__LOAD_HOOKS__'))
print('Definition datetime_to_members : list pstr := %s.\n' % coq_list([coq_str(m.name) for m in DateTimeTo]))
