"""LetterCase / KeyCase enum members -> wrapped function names."""
import sys, os
sys.path.insert(0, os.path.dirname(os.path.abspath(__file__)))
from _common import *
from dataclass_wizard.enums import LetterCase, LetterCasePriority
from dataclass_wizard.v1.enums import KeyCase
from dataclass_wizard.utils import string_conv

def members(E):
    out = []
    for m in E:
        f = m.value.f if hasattr(m.value, 'f') else m.value
        name = getattr(f, '__name__', None) if f is not None else 'None'
        expect(isinstance(name, str), '%s.%s wraps %r' % (E.__name__, m.name, f))
        out.append('(%s, %s)' % (coq_str(m.name), coq_str(name)))
    return coq_list(out)

print(header('LetterCase', 'dataclass_wizard/enums.py, v1/enums.py'))
print('Definition letter_case_members : list (pstr * pstr) := %s.\n' % members(LetterCase))
print('Definition key_case_members : list (pstr * pstr) := %s.\n' % members(KeyCase))
print('Definition letter_case_priority_members : list (pstr * pstr) := %s.\n' % members(LetterCasePriority))
for fn in ('to_camel_case', 'to_pascal_case', 'to_lisp_case', 'to_snake_case', 'normalize', 'possible_json_keys'):
    expect(callable(getattr(string_conv, fn, None)), 'string_conv.%s missing' % fn)
