"""object_path constants: truthy / falsy spellings and start separators."""
import sys, os
sys.path.insert(0, os.path.dirname(os.path.abspath(__file__)))
from _common import *
from dataclass_wizard.utils import object_path as op

def strset(name):
    v = getattr(op, name, None)
    expect(isinstance(v, (set, frozenset)) and all(isinstance(x, str) for x in v), '%s is %r' % (name, v))
    return coq_list([coq_str(x) for x in sorted(v)])

print(header('ObjPath', 'dataclass_wizard/utils/object_path.py'))
print('Definition path_truthy : list pstr := %s.\n' % strset('_TRUTHY_VALUES'))
print('Definition path_falsy : list pstr := %s.\n' % strset('_FALSY_VALUES'))
print('Definition path_start_sep : list pstr := %s.\n' % strset('_START_SEP'))
expect(callable(op.split_object_path) and callable(op.safe_get), 'split_object_path/safe_get missing')
