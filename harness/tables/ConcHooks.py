"""C20: the default dump-hook registry in registration (= dict iteration) order.

The hook scan of `_asdict_inner` (`for t in hooks`) walks this dict in insertion
order; the model's iteration positions are indices into this list."""
import sys, os
sys.path.insert(0, os.path.dirname(os.path.abspath(__file__)))
from _common import *
from dataclass_wizard.dumpers import DumpMixin
from dataclass_wizard.bases import BaseDumpHook

hooks = DumpMixin.__DUMP_HOOKS__
expect(isinstance(hooks, dict) and len(hooks) >= 10, 'DumpMixin.__DUMP_HOOKS__ is %r' % type(hooks))
expect(all(isinstance(t, type) for t in hooks), 'non-type key in dump hooks')
sub = type('ConcProbeDumper', (DumpMixin,), {'__slots__': ()})
expect(sub.__DUMP_HOOKS__ is not hooks, 'a DumpMixin subclass shares the hook dict of its base')
expect([t for t in sub.__DUMP_HOOKS__] == [t for t in hooks], 'subclass hook order differs from DumpMixin')
print(header('ConcHooks', 'dataclass_wizard/dumpers.py (setup_default_dumper)'))
print('Definition conc_dump_hook_types : list pstr := %s.\n' % coq_list([coq_str(t.__name__) for t in hooks]))
