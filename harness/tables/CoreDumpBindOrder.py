"""Order of the configuration steps performed when a class is DEFINED, read from the source:

  * JSONSerializable.__init_subclass__ (serial_json.py): program order of the three binding
    statements  DumpMeta(<_key_transform>).bind_to(cls)  /  call_meta_initializer_if_needed(cls)
    /  LoadMeta(**load_meta_kwargs).bind_to(cls);
  * call_meta_initializer_if_needed (class_helper.py): program order of the two lookups
    META_INITIALIZER[cls_name](cls) / META_INITIALIZER[base_cls_name](cls);
  * the key transform JSONPyWizard.__init_subclass__ passes as `_key_transform`;
  * the defaults: DumpMixin.transform_dataclass_field of a fresh dumper, constants.TAG,
    AbstractMeta.key_transform_with_dump / marshal_date_time_as / tag_key.

coq/model/CoreDumpConfig.v takes these as its `pipeline` parameter; props/C03.v pins them
(`C03_bind_order_table`).  Fail-closed: any unexpected shape -> no file."""
import sys, os, ast, inspect, textwrap
sys.path.insert(0, os.path.dirname(os.path.abspath(__file__)))
from _common import *
from dataclass_wizard import serial_json, class_helper, constants
from dataclass_wizard.bases import AbstractMeta
from dataclass_wizard.dumpers import DumpMixin


def fn_ast(fn):
    src = textwrap.dedent(inspect.getsource(fn))
    mod = ast.parse(src)
    expect(len(mod.body) == 1 and isinstance(mod.body[0], ast.FunctionDef), 'source of %r is not one function' % fn)
    return mod.body[0]


def ordered_calls(stmts):
    """every Call that is a statement of its own (Expr) in program order, descending into if/else, try, with, for"""
    for s in stmts:
        if isinstance(s, ast.Expr) and isinstance(s.value, ast.Call):
            yield s.value
        for attr in ('body', 'orelse', 'finalbody'):
            sub = getattr(s, attr, None)
            if isinstance(sub, list) and not isinstance(s, (ast.FunctionDef, ast.ClassDef, ast.Lambda)):
                yield from ordered_calls(sub)
        for h in getattr(s, 'handlers', []) or []:
            yield from ordered_calls(h.body)


def bind_call_kind(c):
    """DumpMeta(...).bind_to(cls) / LoadMeta(...).bind_to(cls) / call_meta_initializer_if_needed(cls)"""
    f = c.func
    if isinstance(f, ast.Name) and f.id == 'call_meta_initializer_if_needed':
        return 'meta_initializer'
    if isinstance(f, ast.Attribute) and f.attr == 'bind_to' and isinstance(f.value, ast.Call) and isinstance(f.value.func, ast.Name):
        if f.value.func.id == 'DumpMeta':
            return 'dump_meta_bind'
        if f.value.func.id == 'LoadMeta':
            return 'load_meta_bind'
        expect(False, 'bind_to on an unexpected Meta constructor %s' % f.value.func.id)
    if isinstance(f, ast.Attribute) and f.attr == 'bind_to':
        expect(False, 'bind_to call of an unexpected shape: %s' % ast.dump(c)[:200])
    return None


# ---- JSONSerializable.__init_subclass__ ------------------------------------------------------------
init_sub = serial_json.JSONSerializable.__dict__.get('__init_subclass__')
expect(init_sub is not None, 'JSONSerializable.__init_subclass__ missing')
init_fn = getattr(init_sub, '__func__', init_sub)
fa = fn_ast(init_fn)
params = [a.arg for a in fa.args.args]
expect(params == ['cls', 'str', 'debug', 'key_case', '_key_transform'], '__init_subclass__ parameters %r' % params)
steps = [k for k in (bind_call_kind(c) for c in ordered_calls(fa.body)) if k]
expect(sorted(steps) == ['dump_meta_bind', 'load_meta_bind', 'meta_initializer'], 'binding statements of __init_subclass__: %r' % steps)
# the DumpMeta that is bound carries the `_key_transform` argument and nothing else
names = {n.id for n in ast.walk(fa) if isinstance(n, ast.Name)}
expect('_key_transform' in names, '_key_transform is not used')

# ---- call_meta_initializer_if_needed -----------------------------------------------------------------
ma = fn_ast(class_helper.call_meta_initializer_if_needed)
msteps = []
for c in ordered_calls(ma.body):
    f = c.func
    if isinstance(f, ast.Subscript) and isinstance(f.value, ast.Name) and f.value.id == 'META_INITIALIZER':
        key = f.slice
        expect(isinstance(key, ast.Name) and key.id in ('cls_name', 'base_cls_name'), 'META_INITIALIZER subscript %s' % ast.dump(key)[:100])
        msteps.append('own' if key.id == 'cls_name' else 'base')
expect(sorted(msteps) == ['base', 'own'], 'initializer lookups: %r' % msteps)
# cls_name is the class's own qualname, base_cls_name the one of cls.__base__
assigns = {t.id: ast.dump(s.value) for s in ast.walk(ma) if isinstance(s, ast.Assign) for t in s.targets if isinstance(t, ast.Name)}
expect('cls_name' in assigns and "id='cls'" in assigns['cls_name'], 'cls_name = get_class_name(cls)')
expect('base_cls_name' in assigns and "id='base'" in assigns['base_cls_name'], 'base_cls_name = get_class_name(base)')
expect('base' in assigns and '__base__' in assigns['base'], 'base = cls.__base__')

# ---- JSONPyWizard.__init_subclass__ -------------------------------------------------------------------
py_sub = serial_json.JSONPyWizard.__dict__.get('__init_subclass__')
expect(py_sub is not None, 'JSONPyWizard.__init_subclass__ missing')
pa = fn_ast(getattr(py_sub, '__func__', py_sub))
sup = [c for c in ast.walk(pa) if isinstance(c, ast.Call) and isinstance(c.func, ast.Attribute) and c.func.attr == '__init_subclass__']
expect(len(sup) == 1, 'one super().__init_subclass__ call in JSONPyWizard')
call = sup[0]
bound = dict(zip(params[1:], call.args))
for kw in call.keywords:
    bound[kw.arg] = kw.value
kt = bound.get('_key_transform')
expect(isinstance(kt, ast.Constant) and isinstance(kt.value, str), '_key_transform passed by JSONPyWizard is not a string literal')
expect(serial_json.JSONWizard is serial_json.JSONSerializable, 'JSONWizard is not JSONSerializable')
expect(serial_json.JSONPyWizard.__mro__[1] is serial_json.JSONSerializable, 'JSONPyWizard does not derive from JSONSerializable')

# ---- defaults --------------------------------------------------------------------------------------------
tf = DumpMixin.__dict__.get('transform_dataclass_field')
tf = getattr(tf, '__func__', tf)
tf_name = getattr(tf, '__name__', None)
expect(isinstance(tf_name, str), 'DumpMixin.transform_dataclass_field has no __name__')
expect(isinstance(constants.TAG, str) and constants.TAG, 'constants.TAG')
defaults = []
for attr in ('key_transform_with_dump', 'marshal_date_time_as', 'tag_key'):
    v = AbstractMeta.__dict__.get(attr, '<missing>')
    expect(v is None or isinstance(v, str), 'AbstractMeta.%s default %r' % (attr, v))
    defaults.append('(%s, %s)' % (coq_str(attr), coq_str('None' if v is None else 'str:' + v)))

print(header('CoreDumpBindOrder', 'dataclass_wizard/serial_json.py, class_helper.py, dumpers.py, bases.py, constants.py'))
print('Definition init_subclass_steps_v0 : list pstr := %s.\n' % coq_list([coq_str(s) for s in steps]))
print('Definition meta_initializer_steps_v0 : list pstr := %s.\n' % coq_list([coq_str(s) for s in msteps]))
print('Definition pywizard_key_transform_v0 : pstr := %s.\n' % coq_str(kt.value))
print('Definition default_dump_transform_v0 : pstr := %s.\n' % coq_str(tf_name))
print('Definition default_tag_key_v0 : pstr := %s.\n' % coq_str(constants.TAG))
print('Definition meta_defaults_v0 : list (pstr * pstr) := %s.\n' % coq_list(defaults))
