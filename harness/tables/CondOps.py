"""Condition operators (models.py): the operator table inside Condition.evaluate, the
`t_or_f` set of Condition.__init__, the text Condition.__str__ produces, and the
operator each alias constructor (EQ, NE, ...) passes — read from the source by AST."""
import sys, os, ast, inspect
sys.path.insert(0, os.path.dirname(os.path.abspath(__file__)))
from _common import *
from dataclass_wizard import models

src = inspect.getsource(models)
tree = ast.parse(src)

cls = [n for n in tree.body if isinstance(n, ast.ClassDef) and n.name == 'Condition']
expect(len(cls) == 1, 'one class Condition in models.py')
cls = cls[0]
meth = {n.name: n for n in cls.body if isinstance(n, ast.FunctionDef)}
expect({'__init__', '__str__', 'evaluate'} <= set(meth), 'Condition has __init__, __str__, evaluate')

# ---- evaluate: operators = {...}; return operators[self.op](other, self.val)
ev = meth['evaluate']
expect([a.arg for a in ev.args.args] == ['self', 'other'], 'evaluate(self, other)')
body = [s for s in ev.body if not (isinstance(s, ast.Expr) and isinstance(s.value, ast.Constant))]
expect(len(body) == 2 and isinstance(body[0], ast.Assign) and isinstance(body[1], ast.Return),
       'evaluate is `operators = {...}; return ...`')
expect(ast.unparse(body[0].targets[0]) == 'operators' and isinstance(body[0].value, ast.Dict), 'operators dict literal')
expect(ast.unparse(body[1].value) == 'operators[self.op](other, self.val)', 'evaluate returns operators[self.op](other, self.val)')
table = []
for k, v in zip(body[0].value.keys, body[0].value.values):
    expect(isinstance(k, ast.Constant) and isinstance(k.value, str), 'operator key is a string literal')
    expect(isinstance(v, ast.Lambda) and len(v.args.args) == 2, 'operator value is a two-argument lambda')
    a, b = [x.arg for x in v.args.args]
    # normalise the parameter names to a, b
    class Ren(ast.NodeTransformer):
        def visit_Name(self, n):
            return ast.copy_location(ast.Name(id={a: 'a', b: 'b'}.get(n.id, n.id), ctx=n.ctx), n)
    table.append((k.value, ast.unparse(Ren().visit(v.body))))
expect(len({k for k, _ in table}) == len(table), 'operator keys are distinct')

# ---- __init__: self.t_or_f = operator in {...}
init = meth['__init__']
expect([a.arg for a in init.args.args] == ['self', 'operator', 'value'], '__init__(self, operator, value)')
assigns = {ast.unparse(s.targets[0]): s.value for s in init.body if isinstance(s, ast.Assign)}
expect(set(assigns) == {'self.op', 'self.val', 'self.t_or_f'}, '__init__ assigns op, val, t_or_f')
expect(ast.unparse(assigns['self.op']) == 'operator' and ast.unparse(assigns['self.val']) == 'value', 'op/val are the arguments')
tf = assigns['self.t_or_f']
expect(isinstance(tf, ast.Compare) and len(tf.ops) == 1 and isinstance(tf.ops[0], ast.In)
       and ast.unparse(tf.left) == 'operator' and isinstance(tf.comparators[0], ast.Set), 't_or_f = operator in {...}')
tset = []
for e in tf.comparators[0].elts:
    expect(isinstance(e, ast.Constant) and isinstance(e.value, str), 't_or_f element is a string literal')
    tset.append(e.value)

# ---- __str__
st = [s for s in meth['__str__'].body if isinstance(s, ast.Return)]
expect(len(st) == 1, '__str__ returns once')
str_fmt = ast.unparse(st[0].value)

# ---- alias constructors: def EQ(value): return Condition("==", value)
aliases = []
for n in tree.body:
    if isinstance(n, ast.FunctionDef) and len(n.body) == 1 and isinstance(n.body[0], ast.Return):
        c = n.body[0].value
        if isinstance(c, ast.Call) and ast.unparse(c.func) == 'Condition':
            expect(len(c.args) == 2 and isinstance(c.args[0], ast.Constant), '%s passes a literal operator' % n.name)
            aliases.append((n.name, c.args[0].value, ast.unparse(c.args[1])))
for name, op, _ in aliases:
    expect(getattr(models, name)(*([] if name in ('IS_TRUTHY', 'IS_FALSY') else [0])).op == op, 'live %s uses %r' % (name, op))

print(header('CondOps', 'dataclass_wizard/models.py (class Condition and its alias constructors)'))
print('Definition cond_op_table : list (pstr * pstr) := %s.\n'
      % coq_list(['(%s, %s)' % (coq_str(k), coq_str(v)) for k, v in table]))
print('Definition cond_t_or_f : list pstr := %s.\n' % coq_list([coq_str(x) for x in tset]))
print('Definition cond_str_format : pstr := %s.\n' % coq_str(str_fmt))
print('Definition cond_aliases : list (pstr * (pstr * pstr)) := %s.\n'
      % coq_list(['(%s, (%s, %s))' % (coq_str(n), coq_str(o), coq_str(a)) for n, o, a in aliases]))

# ---- get_skip_if_condition(skip_if, _locals, operand_2): the guards (early returns) and what the rest of the
# function does with `_locals`.  Statement forms are encoded as (kind, [texts]); anything that is not one of
# the known forms is emitted as ('other', [text]) and has no meaning in SkipLocals.binder_of_src, so the proof
# obligation C11_binder_source_tie fails.
gfn = [n for n in tree.body if isinstance(n, ast.FunctionDef) and n.name == 'get_skip_if_condition']
expect(len(gfn) == 1, 'one function get_skip_if_condition in models.py')
gfn = gfn[0]
expect([a.arg for a in gfn.args.args] == ['skip_if', '_locals', 'operand_2'] and not gfn.args.kwonlyargs
       and gfn.args.vararg is None and gfn.args.kwarg is None, 'get_skip_if_condition(skip_if, _locals, operand_2)')
gbody = [s for s in gfn.body
         if not (isinstance(s, ast.Expr) and isinstance(s.value, ast.Constant) and isinstance(s.value.value, str))
         and not isinstance(s, (ast.Import, ast.ImportFrom))]
guards, galiases = [], []
k = 0
while k < len(gbody):
    s = gbody[k]
    if (isinstance(s, ast.If) and not s.orelse and len(s.body) == 1 and isinstance(s.body[0], ast.Return)
            and s.body[0].value is not None):
        guards.append((ast.unparse(s.test), ast.unparse(s.body[0].value)))
    elif (isinstance(s, ast.Assign) and len(s.targets) == 1 and isinstance(s.targets[0], ast.Name)
          and isinstance(s.value, ast.Attribute)):
        expect(s.targets[0].id not in ('skip_if', '_locals', 'operand_2'), 'alias does not rebind a parameter')
        expect(all(a != s.targets[0].id for a, _ in galiases), 'alias assigned once')
        galiases.append((s.targets[0].id, ast.unparse(s.value)))
    else:
        break
    k += 1
tail = []
for s in gbody[k:]:
    for sub in ast.walk(s):      # a later re-assignment of an alias would invalidate its resolution
        if isinstance(sub, ast.Name) and isinstance(sub.ctx, ast.Store):
            expect(all(a != sub.id for a, _ in galiases), 'alias %s not re-assigned in the tail' % sub.id)
    if (isinstance(s, ast.Assign) and len(s.targets) == 1 and isinstance(s.targets[0], ast.Subscript)
            and isinstance(s.targets[0].value, ast.Name)):
        tail.append(('setitem', [s.targets[0].value.id, ast.unparse(s.targets[0].slice), ast.unparse(s.value)]))
    elif (isinstance(s, ast.Return) and isinstance(s.value, ast.JoinedStr) and len(s.value.values) == 3
          and isinstance(s.value.values[0], ast.FormattedValue) and s.value.values[0].conversion == -1
          and s.value.values[0].format_spec is None
          and isinstance(s.value.values[1], ast.Constant) and s.value.values[1].value == ' '
          and isinstance(s.value.values[2], ast.FormattedValue) and s.value.values[2].conversion == -1
          and s.value.values[2].format_spec is None):
        tail.append(('return_op_name', [ast.unparse(s.value.values[0].value), ast.unparse(s.value.values[2].value)]))
    else:
        tail.append(('other', [ast.unparse(s)]))

print('Definition cond_gsc_guards : list (pstr * pstr) := %s.\n'
      % coq_list(['(%s, %s)' % (coq_str(t), coq_str(r)) for t, r in guards]))
print('Definition cond_gsc_aliases : list (pstr * pstr) := %s.\n'
      % coq_list(['(%s, %s)' % (coq_str(a), coq_str(b)) for a, b in galiases]))
print('Definition cond_gsc_tail : list (pstr * list pstr) := %s.\n'
      % coq_list(['(%s, %s)' % (coq_str(kd), coq_list([coq_str(x) for x in xs])) for kd, xs in tail]))
