"""Fail-closed translator from a small subset of Python (a character scanner: straight-line
assignments, if/elif/else, `continue`, `for c in <arg>`) to Gallina, by SYMBOLIC EXECUTION of the
function body: every path through the loop body becomes one leaf of a decision tree whose leaves
are complete state records.  Used by harness/tables/ObjPathAlg.py (tie T for an ALGORITHM, not a
table): the generated `step_src`/`finish_src` are proved equal to the hand-written model by
proofs/ObjPathSrcTie.v on every run, so the C08 path theorems are theorems about what the source
says NOW.  Anything outside the subset raises Unsupported (no output -> broken tie)."""
import ast


class Unsupported(Exception):
    pass


def need(cond, node, what):
    if not cond:
        line = getattr(node, 'lineno', '?')
        raise Unsupported('%s (source line %s): %s' % (what, line, ast.dump(node)[:200] if isinstance(node, ast.AST) else node))


class Scanner:
    """Symbolic executor.  `types`: local name -> 'bool' | 'str' | 'optchar' | 'toks';
    `loopvar`: name of the character variable (None outside the loop);
    `consts`: module-level frozenset name -> Gallina list-of-pstr constant."""

    def __init__(self, types, consts, loopvar=None):
        self.types, self.consts, self.loopvar = types, consts, loopvar

    # ---- expressions -------------------------------------------------------------------
    def char(self, node):
        """a one-character expression -> Gallina ascii"""
        if isinstance(node, ast.Name) and node.id == self.loopvar:
            return 'c'
        if isinstance(node, ast.Constant) and isinstance(node.value, str) and len(node.value) == 1 \
                and ord(node.value) < 128:
            return '(ch %d)' % ord(node.value)
        need(False, node, 'not a character expression')

    def cond(self, node, env):
        if isinstance(node, ast.BoolOp):
            op = ' && ' if isinstance(node.op, ast.And) else ' || '
            return '(' + op.join(self.cond(v, env) for v in node.values) + ')'
        if isinstance(node, ast.UnaryOp) and isinstance(node.op, ast.Not):
            return '(negb %s)' % self.cond(node.operand, env)
        if isinstance(node, ast.Name):
            need(self.types.get(node.id) == 'bool', node, 'truth test of a non-bool local in a compound condition')
            return env[node.id]
        if isinstance(node, ast.Call):
            f = node.func
            need(isinstance(f, ast.Attribute) and f.attr == 'isdigit' and not node.args and not node.keywords
                 and isinstance(f.value, ast.Name) and f.value.id == self.loopvar, node, 'unsupported call')
            return '(is_digit c)'
        if isinstance(node, ast.Compare):
            need(len(node.ops) == 1 and len(node.comparators) == 1, node, 'chained comparison')
            op, left, right = node.ops[0], node.left, node.comparators[0]
            if isinstance(op, (ast.Eq, ast.NotEq)):
                need(isinstance(left, ast.Name) and left.id == self.loopvar, node, 'comparison of a non-character')
                if isinstance(right, ast.Name) and self.types.get(right.id) == 'optchar':
                    e = '(quote_is %s c)' % env[right.id]
                else:
                    e = '(ascii_eqb c %s)' % self.char(right)
                return e if isinstance(op, ast.Eq) else '(negb %s)' % e
            if isinstance(op, ast.In):
                if isinstance(right, ast.Set):
                    need(isinstance(left, ast.Name) and left.id == self.loopvar and right.elts, node, 'set membership')
                    return '(' + ' || '.join('ascii_eqb c %s' % self.char(e) for e in right.elts) + ')'
                need(isinstance(right, ast.Name) and right.id in self.consts, node, 'membership in an unknown set')
                if isinstance(left, ast.Name) and left.id == self.loopvar:
                    return '(mem_str [c] %s)' % self.consts[right.id]
                need(isinstance(left, ast.Name) and self.types.get(left.id) == 'str', node, 'membership of a non-string')
                return '(mem_str %s %s)' % (env[left.id], self.consts[right.id])
        need(False, node, 'unsupported condition')

    # ---- the one library idiom: try int(s) / float(s) / keep the string -----------------
    def is_number_idiom(self, node, var):
        """try: num=int(s); res.append(num)  except ValueError: try: num=float(s); res.append(num)
           except ValueError: res.append(s)"""
        def conv(body, fn):
            return (len(body) == 2 and isinstance(body[0], ast.Assign) and len(body[0].targets) == 1
                    and isinstance(body[0].targets[0], ast.Name)
                    and isinstance(body[0].value, ast.Call) and isinstance(body[0].value.func, ast.Name)
                    and body[0].value.func.id == fn and len(body[0].value.args) == 1
                    and isinstance(body[0].value.args[0], ast.Name) and self.types.get(body[0].value.args[0].id) == 'str'
                    and self.append_of(body[1]) == ('name', body[0].targets[0].id)
                    and body[0].value.args[0].id)
        def handler(t):
            return (len(t.handlers) == 1 and isinstance(t.handlers[0].type, ast.Name)
                    and t.handlers[0].type.id == 'ValueError' and not t.orelse and not t.finalbody)
        if not (isinstance(node, ast.Try) and handler(node)):
            return None
        s1 = conv(node.body, 'int')
        inner = node.handlers[0].body
        if not (s1 and len(inner) == 1 and isinstance(inner[0], ast.Try) and handler(inner[0])):
            return None
        s2 = conv(inner[0].body, 'float')
        last = inner[0].handlers[0].body
        if not (s2 == s1 and len(last) == 1 and self.append_of(last[0]) == ('name', s1)):
            return None
        return s1

    def append_of(self, st):
        """`<toks>.append(X)` -> ('const', v) | ('name', id) | None"""
        if not (isinstance(st, ast.Expr) and isinstance(st.value, ast.Call)):
            return None
        f = st.value.func
        if not (isinstance(f, ast.Attribute) and f.attr == 'append' and isinstance(f.value, ast.Name)
                and self.types.get(f.value.id) == 'toks' and len(st.value.args) == 1 and not st.value.keywords):
            return None
        a = st.value.args[0]
        if isinstance(a, ast.Constant) and isinstance(a.value, bool):
            return ('const', a.value)
        if isinstance(a, ast.Name):
            return ('name', a.id)
        return None

    # ---- statements: symbolic execution, returns a Gallina term --------------------------
    def run(self, stmts, env, leaf, indent=2):
        """Execute `stmts` from symbolic state `env`; `leaf(env)` renders the end of a path."""
        pad = ' ' * indent
        if not stmts:
            return pad + leaf(env)
        st, rest = stmts[0], stmts[1:]
        if isinstance(st, ast.Continue):
            need(self.loopvar is not None, st, 'continue outside the loop')
            return pad + leaf(env)
        if isinstance(st, ast.If):
            t = st.test
            if isinstance(t, ast.Name) and self.types.get(t.id) == 'str':      # `if s:` non-empty test
                a = self.run(st.body + rest, dict(env), leaf, indent + 2)
                b = self.run(st.orelse + rest, dict(env), leaf, indent + 2)
                return '%smatch %s with\n%s| [] =>\n%s\n%s| _ :: _ =>\n%s\n%send' % (pad, env[t.id], pad, b, pad, a, pad)
            c = self.cond(t, env)
            a = self.run(st.body + rest, dict(env), leaf, indent + 2)
            b = self.run(st.orelse + rest, dict(env), leaf, indent + 2)
            return '%sif %s then\n%s\n%selse\n%s' % (pad, c, a, pad, b)
        env = dict(env)
        s = self.is_number_idiom(st, None)
        if s:
            toks = [n for n, ty in self.types.items() if ty == 'toks']
            need(len(toks) == 1, st, 'exactly one token list expected')
            env[toks[0]] = '(%s ++ [TNum %s])' % (env[toks[0]], env[s])
            return self.run(rest, env, leaf, indent)
        ap = self.append_of(st)
        if ap:
            toks = st.value.func.value.id
            if ap[0] == 'const':
                item = 'TBool %s' % ('true' if ap[1] else 'false')
            else:
                need(self.types.get(ap[1]) == 'str', st, 'append of a non-string local')
                item = 'TStr %s' % env[ap[1]]
            env[toks] = '(%s ++ [%s])' % (env[toks], item)
            return self.run(rest, env, leaf, indent)
        if isinstance(st, ast.Assign):
            need(len(st.targets) == 1 and isinstance(st.targets[0], ast.Name) and st.targets[0].id in self.types,
                 st, 'assignment to something that is not a declared local')
            name, ty, v = st.targets[0].id, self.types[st.targets[0].id], st.value
            if ty == 'bool':
                need(isinstance(v, ast.Constant) and isinstance(v.value, bool), st, 'bool local assigned a non-constant')
                env[name] = 'true' if v.value else 'false'
            elif ty == 'str':
                need(isinstance(v, ast.Constant) and v.value == '', st, 'str local assigned something other than ""')
                env[name] = '[]'
            elif ty == 'optchar':
                if isinstance(v, ast.Constant) and v.value is None:
                    env[name] = 'None'
                else:
                    need(isinstance(v, ast.Name) and v.id == self.loopvar, st, 'quote variable assigned a non-character')
                    env[name] = '(Some c)'
            else:
                need(False, st, 'assignment to the token list')
            return self.run(rest, env, leaf, indent)
        if isinstance(st, ast.AugAssign):
            need(isinstance(st.op, ast.Add) and isinstance(st.target, ast.Name)
                 and self.types.get(st.target.id) == 'str', st, 'augmented assignment other than str +=')
            env[st.target.id] = '(snoc %s %s)' % (env[st.target.id], self.char(st.value))
            return self.run(rest, env, leaf, indent)
        need(False, st, 'unsupported statement')


def init_types(assigns):
    """initial assignments -> (types, initial Gallina values)"""
    types, init = {}, {}
    for st in assigns:
        need(isinstance(st, ast.Assign) and len(st.targets) == 1 and isinstance(st.targets[0], ast.Name), st,
             'unexpected statement before the loop')
        n, v = st.targets[0].id, st.value
        if isinstance(v, ast.List) and not v.elts:
            types[n], init[n] = 'toks', '[]'
        elif isinstance(v, ast.Constant) and v.value == '':
            types[n], init[n] = 'str', '[]'
        elif isinstance(v, ast.Constant) and isinstance(v.value, bool):
            types[n], init[n] = 'bool', 'true' if v.value else 'false'
        elif isinstance(v, ast.Constant) and v.value is None:
            types[n], init[n] = 'optchar', 'None'
        else:
            need(False, st, 'unsupported initial value')
    return types, init
