"""Tie T for an ALGORITHM: the list comprehensions that decide WHICH fields a MissingFields error
lists are translated from the current SOURCE TEXT of dataclass_wizard/errors.py
(MissingFields.__init__: both branches) and dataclass_wizard/v1/loaders.py
(check_and_raise_missing_fields, dataclass branch) into Gallina filters over the field declarations
of model/FieldsMissing.v (gen/T_MissingFieldsAlg.v); proofs/FieldsMissingSrcTie.v proves them equal
to the hand-written v0_missing / v1_provided / v1_missing for every class and every key list.
Subset: `[f.name for f in <fields> if c1 and c2 and ...]` with conjuncts
  f.init                                   -> finit f
  f.name not in <list>                     -> negb (mem_str (fname f) <list>)
  f'__{f.name}' not in _locals             -> negb (has_key (fname f) bound)   (the generated code binds
                                              the parsed value of field x to the local `__x`)
  f.default is MISSING and f.default_factory is MISSING   (adjacent, possibly parenthesised)
                                           -> is_required (fdef f)
Fails closed otherwise."""
import sys, os, ast, inspect, textwrap
sys.path.insert(0, os.path.dirname(os.path.abspath(__file__)))
from _common import *
from _py2gallina import Unsupported, need
from dataclass_wizard import errors
from dataclass_wizard.v1 import loaders as v1l


def flat_and(t):
    if isinstance(t, ast.BoolOp) and isinstance(t.op, ast.And):
        out = []
        for v in t.values:
            out.extend(flat_and(v))
        return out
    return [t]


def is_missing_test(t, var, attr):
    return (isinstance(t, ast.Compare) and len(t.ops) == 1 and isinstance(t.ops[0], ast.Is)
            and isinstance(t.left, ast.Attribute) and t.left.attr == attr and isinstance(t.left.value, ast.Name)
            and t.left.value.id == var and isinstance(t.comparators[0], ast.Name) and t.comparators[0].id == 'MISSING')


def field_attr(t, var, attr):
    return isinstance(t, ast.Attribute) and t.attr == attr and isinstance(t.value, ast.Name) and t.value.id == var


def comprehension(node, fields_name, lists):
    """`[f.name for f in <fields_name> if ...]` -> Gallina; `lists`: python expression (unparsed) -> Gallina list / ('bound',)"""
    need(isinstance(node, ast.ListComp) and len(node.generators) == 1, node, 'list comprehension expected')
    g = node.generators[0]
    need(isinstance(g.target, ast.Name) and not g.is_async and isinstance(g.iter, ast.Name) and g.iter.id == fields_name,
         node, 'comprehension must iterate over the field tuple')
    v = g.target.id
    need(field_attr(node.elt, v, 'name'), node, 'comprehension must collect f.name')
    conj = []
    for c in g.ifs:
        conj.extend(flat_and(c))
    out, i = [], 0
    while i < len(conj):
        t = conj[i]
        if field_attr(t, v, 'init'):
            out.append('finit f')
        elif is_missing_test(t, v, 'default'):
            need(i + 1 < len(conj) and is_missing_test(conj[i + 1], v, 'default_factory'), t,
                 '`f.default is MISSING` must be followed by `f.default_factory is MISSING`')
            out.append('is_required (fdef f)')
            i += 1
        elif isinstance(t, ast.Compare) and len(t.ops) == 1 and isinstance(t.ops[0], ast.NotIn):
            key = ast.unparse(t.comparators[0])
            need(key in lists, t, 'membership in an unknown collection %r' % key)
            if lists[key] == ('bound',):
                l = t.left          # f'__{f.name}'
                need(isinstance(l, ast.JoinedStr) and len(l.values) == 2 and isinstance(l.values[0], ast.Constant)
                     and l.values[0].value == '__' and isinstance(l.values[1], ast.FormattedValue)
                     and field_attr(l.values[1].value, v, 'name') and l.values[1].conversion == -1
                     and l.values[1].format_spec is None, t, "expected f'__{f.name}' not in _locals")
                out.append('negb (has_key (fname f) bound)')
            else:
                need(field_attr(t.left, v, 'name'), t, 'expected f.name not in <list>')
                out.append('negb (mem_str (fname f) %s)' % lists[key])
        else:
            need(False, t, 'unsupported conjunct')
        i += 1
    need(out, node, 'comprehension without a filter')
    return 'map fname (filter (fun f => %s) fs)' % ' && '.join(out)


try:
    # ---- errors.MissingFields.__init__ ------------------------------------------------------------
    init = ast.parse(textwrap.dedent(inspect.getsource(errors.MissingFields.__init__))).body[0]
    argn = [a.arg for a in init.args.args]
    need(argn[:7] == ['self', 'base_err', 'obj', 'cls', 'cls_fields', 'cls_kwargs', 'missing_fields'], init, 'signature')
    ifs = [s for s in init.body if isinstance(s, ast.If)]
    need(len(ifs) == 1 and isinstance(ifs[0].test, ast.Name) and ifs[0].test.id == 'missing_fields', init,
         'expected one `if missing_fields:`')

    def assigns(stmts):
        d = {}
        for s in stmts:
            need(isinstance(s, ast.Assign) and len(s.targets) == 1 and isinstance(s.targets[0], ast.Attribute)
                 and isinstance(s.targets[0].value, ast.Name) and s.targets[0].value.id == 'self', s, 'self.<attr> = ...')
            d[s.targets[0].attr] = s.value
        return d
    a, b = assigns(ifs[0].body), assigns(ifs[0].orelse)
    need(set(a) == set(b) == {'fields', 'missing_fields'}, init, 'both branches must set fields and missing_fields')
    # branch 1 (v1 passes the missing list): provided = comprehension, missing = argument
    need(isinstance(a['missing_fields'], ast.Name) and a['missing_fields'].id == 'missing_fields', init, 'branch 1')
    provided_given = comprehension(a['fields'], 'cls_fields', {'missing_fields': 'missing'})
    # branch 2 (default engine): provided = list(cls_kwargs.keys()), missing = comprehension over self.fields
    f2 = b['fields']
    need(isinstance(f2, ast.Call) and isinstance(f2.func, ast.Name) and f2.func.id == 'list' and len(f2.args) == 1
         and ast.unparse(f2.args[0]) == 'cls_kwargs.keys()', init, 'branch 2: fields = list(cls_kwargs.keys())')
    missing_default = comprehension(b['missing_fields'], 'cls_fields', {'self.fields': 'provided'})
    # order of the two assignments in branch 2 matters (missing is computed from self.fields)
    order = [s.targets[0].attr for s in ifs[0].orelse]
    need(order == ['fields', 'missing_fields'], init, 'branch 2 must set fields before missing_fields')

    # ---- v1 check_and_raise_missing_fields (dataclass branch) ---------------------------------------
    fn = ast.parse(textwrap.dedent(inspect.getsource(v1l.check_and_raise_missing_fields))).body[0]
    need([x.arg for x in fn.args.args] == ['_locals', 'o', 'cls', 'fields'], fn, 'signature')
    top = [s for s in fn.body if isinstance(s, ast.If)]
    need(len(top) == 1 and ast.unparse(top[0].test) == 'fields is None', fn, 'expected `if fields is None:`')
    mf = [s for s in top[0].orelse if isinstance(s, ast.Assign) and isinstance(s.targets[0], ast.Name)
          and s.targets[0].id == 'missing_fields']
    need(len(mf) == 1, fn, 'dataclass branch must assign missing_fields once')
    v1_missing = comprehension(mf[0].value, 'fields', {'_locals': ('bound',)})
    rs = [s for s in fn.body if isinstance(s, ast.Raise)]
    need(len(rs) == 1 and isinstance(rs[0].exc, ast.Call) and ast.unparse(rs[0].exc.func) == 'MissingFields'
         and [ast.unparse(x) for x in rs[0].exc.args[:6]] == ['None', 'o', 'cls', 'fields', 'None', 'missing_fields'],
         fn, 'expected raise MissingFields(None, o, cls, fields, None, missing_fields, ...)')
except Unsupported as e:
    expect(False, str(e))

print('(* GENERATED by harness/tables/MissingFieldsAlg.py from the SOURCE TEXT of dataclass_wizard/errors.py\n'
      '   (MissingFields.__init__) and v1/loaders.py (check_and_raise_missing_fields) on every check run. Do not edit. *)')
print('From DW Require Import PyStr FieldsMissing.\n')
print('(* MissingFields.__init__, `missing_fields` argument empty: self.missing_fields *)')
print('Definition v0_missing_src {ty V C : Type} (fs : list (fdecl ty V C)) (provided : list pstr) : list pstr :=\n  %s.\n' % missing_default)
print('(* MissingFields.__init__, `missing_fields` argument given: self.fields *)')
print('Definition v1_provided_src {ty V C : Type} (fs : list (fdecl ty V C)) (missing : list pstr) : list pstr :=\n  %s.\n' % provided_given)
print('(* check_and_raise_missing_fields, dataclass branch: missing_fields *)')
print('Definition v1_missing_src {ty V C : Type} (fs : list (fdecl ty V C)) (bound : list (pstr * pv V)) : list pstr :=\n  %s.' % v1_missing)
