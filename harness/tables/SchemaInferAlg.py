"""Tie T for an ALGORITHM: the scalar type inference of dataclass_wizard/wizard_cli/schema.py
(`possible_types_for_string_value`, `can_be_bool`, `json_to_python_type`) is translated from its
current SOURCE TEXT (Python ast) into Gallina by symbolic execution and printed as
gen/T_SchemaInferAlg.v; proofs/SchemaInferSrcTie.v proves the result equal to the hand-written
`kinds_of_string` / `can_be_bool` / `scalar_contrib` of model/SchemaGen.v for ALL strings, oracle
functions and flag values.  The stdlib/library functions the code merely calls (as_date, as_time,
as_datetime, str.isnumeric, float) are the same oracle parameters as in the model.
Subset (anything else fails closed):
  try: _ = F(x); return PyDataType.M  except <exc>: pass        -> if F_ok x then [M] else ...
  if ':' not in x: <block that returns>                        -> if negb (has_colon x) then ... else ...
  L = [] ; if/elif chain of L.append(PyDataType.M)              (L is tracked symbolically per path)
  if Globals.force_strings and L: return L[0]                  -> if fs then ... (L's emptiness is known per path)
  return L / return PyDataType.M
  json_to_python_type: `if o is None` / `if isinstance(o, T)` chain, evaluated per JSON constructor
  with Python's subclass relation (bool is an int)."""
import sys, os, ast, inspect, textwrap
sys.path.insert(0, os.path.dirname(os.path.abspath(__file__)))
from _common import *
from _py2gallina import Unsupported, need
from dataclass_wizard.wizard_cli import schema as sc

PRIM = {'STRING': 'PStr', 'FLOAT': 'PFloat', 'INT': 'PInt', 'BOOL': 'PBool', 'DATE': 'PDate',
        'DATETIME': 'PDatetime', 'TIME': 'PTime'}
ORACLE = {'as_date': 'as_date_ok', 'as_time': 'as_time_ok', 'as_datetime': 'as_datetime_ok'}


def fn_body(f, nargs=1):
    node = ast.parse(textwrap.dedent(inspect.getsource(f))).body[0]
    need(isinstance(node, ast.FunctionDef) and len(node.args.args) == nargs and not node.args.vararg
         and not node.args.kwarg and not node.args.kwonlyargs and not node.decorator_list, node, 'signature')
    body = [s for s in node.body if not (isinstance(s, ast.Expr) and isinstance(s.value, ast.Constant))]
    return node, [a.arg for a in node.args.args], body


def member(node):
    """PyDataType.M -> Gallina prim (or 'NULL' / 'LIST' / 'DICT')"""
    need(isinstance(node, ast.Attribute) and isinstance(node.value, ast.Name) and node.value.id == 'PyDataType',
         node, 'expected PyDataType.<member>')
    return node.attr


def prim(node):
    m = member(node)
    need(m in PRIM, node, 'not a scalar PyDataType member')
    return PRIM[m]


def glist(items):
    return '[' + '; '.join(items) + ']'


class Infer:
    def __init__(self, arg):
        self.arg, self.exc = arg, {}

    def is_arg(self, n):
        return isinstance(n, ast.Name) and n.id == self.arg

    def test(self, t):
        """classifier test on the argument -> Gallina bool"""
        if isinstance(t, ast.Call) and not t.keywords:
            f = t.func
            if isinstance(f, ast.Attribute) and f.attr == 'isnumeric' and self.is_arg(f.value) and not t.args:
                return 'isnumeric s'
            if isinstance(f, ast.Name) and len(t.args) == 1 and self.is_arg(t.args[0]):
                if f.id == 'is_float':
                    return 'is_float s'
                if f.id == 'can_be_bool':
                    return 'can_be_bool_src bool_values s'
        need(False, t, 'unsupported classifier test')

    def run(self, stmts, lists, ind):
        """symbolic execution; `lists`: name -> python list of prims known on this path"""
        pad = ' ' * ind
        need(stmts, None, 'a path falls off the end of the function without return')
        st, rest = stmts[0], stmts[1:]
        if isinstance(st, ast.Assign) and len(st.targets) == 1 and isinstance(st.targets[0], ast.Name):
            n, v = st.targets[0].id, st.value
            if isinstance(v, ast.Tuple) and all(isinstance(e, ast.Name) and e.id in ('TypeError', 'ValueError') for e in v.elts):
                self.exc[n] = sorted(e.id for e in v.elts)
                return self.run(rest, lists, ind)
            if isinstance(v, ast.List) and not v.elts:
                return self.run(rest, dict(lists, **{n: []}), ind)
            need(False, st, 'unsupported assignment')
        if isinstance(st, ast.Try):
            need(len(st.body) == 2 and not st.orelse and not st.finalbody and len(st.handlers) == 1, st, 'try shape')
            a, r = st.body
            need(isinstance(a, ast.Assign) and isinstance(a.value, ast.Call) and isinstance(a.value.func, ast.Name)
                 and a.value.func.id in ORACLE and len(a.value.args) == 1 and self.is_arg(a.value.args[0])
                 and not a.value.keywords, a, 'try body: expected `_ = as_xxx(string)`')
            need(getattr(sc, a.value.func.id).__module__ == 'dataclass_wizard.utils.type_conv', a, 'oracle function rebound')
            need(isinstance(r, ast.Return), r, 'try body: expected return')
            h = st.handlers[0]
            need(isinstance(h.type, ast.Name) and self.exc.get(h.type.id) == ['TypeError', 'ValueError']
                 and len(h.body) == 1 and isinstance(h.body[0], ast.Pass), h, 'handler must be `except (TypeError, ValueError): pass`')
            return '%sif %s s then %s\n%selse\n%s' % (pad, ORACLE[a.value.func.id], glist([prim(r.value)]), pad,
                                                     self.run(rest, lists, ind + 2))
        if isinstance(st, ast.Return):
            v = st.value
            if isinstance(v, ast.Name) and v.id in lists:
                return pad + glist(lists[v.id])
            if isinstance(v, ast.Subscript) and isinstance(v.value, ast.Name) and v.value.id in lists \
                    and isinstance(v.slice, ast.Constant) and v.slice.value == 0 and lists[v.value.id]:
                return pad + glist(lists[v.value.id][:1])
            return pad + glist([prim(v)])
        if isinstance(st, ast.Expr) and isinstance(st.value, ast.Call) and isinstance(st.value.func, ast.Attribute) \
                and st.value.func.attr == 'append' and isinstance(st.value.func.value, ast.Name) \
                and st.value.func.value.id in lists and len(st.value.args) == 1:
            n = st.value.func.value.id
            return self.run(rest, dict(lists, **{n: lists[n] + [prim(st.value.args[0])]}), ind)
        if isinstance(st, ast.If):
            t = st.test
            # ':' not in string
            if isinstance(t, ast.Compare) and len(t.ops) == 1 and isinstance(t.ops[0], ast.NotIn) \
                    and isinstance(t.left, ast.Constant) and t.left.value == ':' and self.is_arg(t.comparators[0]):
                return '%sif negb (has_colon s) then\n%s\n%selse\n%s' % (
                    pad, self.run(st.body + rest, lists, ind + 2), pad, self.run(st.orelse + rest, lists, ind + 2))
            # Globals.force_strings and <list>
            if isinstance(t, ast.BoolOp) and isinstance(t.op, ast.And) and len(t.values) == 2 \
                    and isinstance(t.values[0], ast.Attribute) and t.values[0].attr == 'force_strings' \
                    and isinstance(t.values[0].value, ast.Name) and t.values[0].value.id == 'Globals' \
                    and isinstance(t.values[1], ast.Name) and t.values[1].id in lists:
                if not lists[t.values[1].id]:          # empty list is falsy: the branch is dead on this path
                    return self.run(st.orelse + rest, lists, ind)
                return '%sif fs then\n%s\n%selse\n%s' % (
                    pad, self.run(st.body + rest, lists, ind + 2), pad, self.run(st.orelse + rest, lists, ind + 2))
            c = self.test(t)
            return '%sif %s then\n%s\n%selse\n%s' % (
                pad, c, self.run(st.body + rest, lists, ind + 2), pad, self.run(st.orelse + rest, lists, ind + 2))
        need(False, st, 'unsupported statement')


try:
    node, (arg,), body = fn_body(sc.possible_types_for_string_value)
    for s in ast.walk(node):
        need(not isinstance(s, (ast.While, ast.For, ast.Raise, ast.With, ast.Lambda, ast.Yield, ast.Global,
                                ast.Nonlocal, ast.NamedExpr, ast.Continue, ast.Break)), s, 'construct outside the subset')
    kinds = Infer(arg).run(body, {}, 2)

    # can_be_bool(o): return o.lower() in _BOOL_VALUES
    node, (a,), body = fn_body(sc.can_be_bool)
    need(len(body) == 1 and isinstance(body[0], ast.Return), node, 'can_be_bool: single return')
    t = body[0].value
    need(isinstance(t, ast.Compare) and len(t.ops) == 1 and isinstance(t.ops[0], ast.In)
         and isinstance(t.left, ast.Call) and isinstance(t.left.func, ast.Attribute) and t.left.func.attr == 'lower'
         and isinstance(t.left.func.value, ast.Name) and t.left.func.value.id == a and not t.left.args
         and isinstance(t.comparators[0], ast.Name) and t.comparators[0].id == '_BOOL_VALUES', t, 'can_be_bool: shape')

    # is_float(s): try float(s) -> True / except ValueError -> False   (float() itself is the oracle is_float)
    node, (a,), body = fn_body(sc.is_float)
    need(len(body) == 1 and isinstance(body[0], ast.Try) and len(body[0].body) == 2 and len(body[0].handlers) == 1
         and isinstance(body[0].body[0], ast.Assign) and isinstance(body[0].body[0].value, ast.Call)
         and isinstance(body[0].body[0].value.func, ast.Name) and body[0].body[0].value.func.id == 'float'
         and isinstance(body[0].body[1], ast.Return) and body[0].body[1].value.value is True
         and isinstance(body[0].handlers[0].type, ast.Name) and body[0].handlers[0].type.id == 'ValueError'
         and isinstance(body[0].handlers[0].body[0], ast.Return) and body[0].handlers[0].body[0].value.value is False,
         node, 'is_float: shape')

    # json_to_python_type(o): `is None` / isinstance chain, evaluated per JSON constructor
    node, (o,), body = fn_body(sc.json_to_python_type)
    CTORS = [('JNull', type(None)), ('JBool _', bool), ('JInt _', int), ('JFloat _ _', float), ('JStr s', str),
             ('JArr _', list), ('JObj _', dict)]
    PYT = {'str': str, 'bool': bool, 'int': int, 'float': float, 'list': list, 'dict': dict}
    arms = []
    for pat, pyt in CTORS:
        res = None
        for st in body:
            need(isinstance(st, ast.If) and not st.orelse and len(st.body) == 1 and isinstance(st.body[0], ast.Return),
                 st, 'json_to_python_type: expected `if <test>: return <type>`')
            t = st.test
            if isinstance(t, ast.Compare) and len(t.ops) == 1 and isinstance(t.ops[0], ast.Is) \
                    and isinstance(t.left, ast.Name) and t.left.id == o and isinstance(t.comparators[0], ast.Constant) \
                    and t.comparators[0].value is None:
                hit = pyt is type(None)
            else:
                need(isinstance(t, ast.Call) and isinstance(t.func, ast.Name) and t.func.id == 'isinstance'
                     and len(t.args) == 2 and isinstance(t.args[0], ast.Name) and t.args[0].id == o
                     and isinstance(t.args[1], ast.Name) and t.args[1].id in PYT, t, 'json_to_python_type: test')
                hit = issubclass(pyt, PYT[t.args[1].id])
            if hit:
                res = st.body[0].value
                break
        need(res is not None, node, 'json_to_python_type: no branch for %s' % pat)
        if isinstance(res, ast.Call):
            need(isinstance(res.func, ast.Name) and res.func.id == 'possible_types_for_string_value'
                 and len(res.args) == 1 and isinstance(res.args[0], ast.Name) and res.args[0].id == o
                 and pyt is str, res, 'json_to_python_type: call')
            arms.append((pat, 'CPrims (kinds_of_string_src as_date_ok as_time_ok as_datetime_ok isnumeric is_float bool_values fs s)'))
        else:
            m = member(res)
            arms.append((pat, 'CNull' if m == 'NULL' else 'CContainer' if m in ('LIST', 'DICT')
                         else 'CPrims [%s]' % PRIM[m]))
    need([a for p, a in arms if a == 'CContainer'] == ['CContainer'] * 2 and arms[5][1] == arms[6][1] == 'CContainer',
         node, 'json_to_python_type: list/dict must map to LIST/DICT')
except Unsupported as e:
    expect(False, str(e))

SIG = ('(as_date_ok as_time_ok as_datetime_ok isnumeric is_float : pstr -> bool) (bool_values : list pstr) (fs : bool)')
print('(* GENERATED by harness/tables/SchemaInferAlg.py from the SOURCE TEXT of\n'
      '   dataclass_wizard/wizard_cli/schema.py on every check run. Do not edit. *)')
print('From DW Require Import PyStr SchemaGen.\n')
print('Definition can_be_bool_src (bool_values : list pstr) (s : pstr) : bool := mem_str (lower s) bool_values.\n')
print('Definition kinds_of_string_src %s (s : pstr) : list prim :=\n%s.\n' % (SIG, kinds))
print('(* json_to_python_type on scalars; containers (LIST / DICT members) are handled by the callers *)')
print('Definition scalar_contrib_src %s (v : json) : contrib :=\n  match v with' % SIG)
for pat, a in arms:
    print('  | %s => %s' % (pat, 'CNull' if a == 'CContainer' else a))
print('  end.')
