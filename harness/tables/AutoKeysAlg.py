"""Tie T for an ALGORITHM: dataclass_wizard/utils/string_conv.py:possible_json_keys (the key
spellings the v1 engine tries under KeyCase.AUTO) and `normalize` are translated from their current
SOURCE TEXT into Gallina (gen/T_AutoKeysAlg.v); proofs/AutoKeysSrcTie.v proves the result equal to
the hand-written StrConv.possible_json_keys for every field name.  The casing functions it CALLS
(to_camel_case, to_lisp_case) are the hand-written models validated by correspondence (regex code is
outside the translated subset).  Subset: `L = []`, `k = <expr>`, `L.append(k)`,
`if <arg> in L: L.remove(<arg>)`, `return L`; expressions: to_camel_case(arg) (may raise IndexError
-> option), to_lisp_case(arg), k[0].upper() + k[1:] (IndexError on ''), k.title(), k.lower(),
k.upper(), k.replace(ch, ch).  Fails closed otherwise."""
import sys, os, ast, inspect, textwrap
sys.path.insert(0, os.path.dirname(os.path.abspath(__file__)))
from _common import *
from _py2gallina import Unsupported, need
from dataclass_wizard.utils import string_conv as scv


def fn_body(f):
    node = ast.parse(textwrap.dedent(inspect.getsource(f))).body[0]
    need(isinstance(node, ast.FunctionDef) and len(node.args.args) == 1 and not node.args.vararg
         and not node.args.kwarg and not node.args.kwonlyargs and not node.decorator_list, node, 'signature')
    body = [s for s in node.body if not (isinstance(s, ast.Expr) and isinstance(s.value, ast.Constant))]
    return node, node.args.args[0].arg, body


def onechar(n):
    need(isinstance(n, ast.Constant) and isinstance(n.value, str) and len(n.value) == 1 and ord(n.value) < 128, n,
         'one ASCII character expected')
    return '(ch %d)' % ord(n.value)


def total_expr(node, env):
    """expressions that cannot raise -> Gallina pstr"""
    if isinstance(node, ast.Name):
        need(node.id in env, node, 'unknown name')
        return env[node.id]
    if isinstance(node, ast.Call) and not node.keywords:
        f = node.func
        if isinstance(f, ast.Name) and f.id == 'to_lisp_case' and len(node.args) == 1:
            return '(to_lisp %s)' % total_expr(node.args[0], env)
        if isinstance(f, ast.Attribute):
            inner = total_expr(f.value, env)
            if f.attr in ('title', 'lower', 'upper') and not node.args:
                return '(%s %s)' % (f.attr, inner)
            if f.attr == 'replace' and len(node.args) == 2:
                a, b = node.args
                if isinstance(b, ast.Constant) and b.value == '':
                    return '(remove_char %s %s)' % (onechar(a), inner)
                return '(replace_char %s %s %s)' % (onechar(a), onechar(b), inner)
    need(False, node, 'unsupported expression')


def is_cap_first(node):
    """k[0].upper() + k[1:]  ->  name k, else None"""
    if not (isinstance(node, ast.BinOp) and isinstance(node.op, ast.Add)):
        return None
    l, r = node.left, node.right
    ok = (isinstance(l, ast.Call) and isinstance(l.func, ast.Attribute) and l.func.attr == 'upper' and not l.args
          and isinstance(l.func.value, ast.Subscript) and isinstance(l.func.value.value, ast.Name)
          and isinstance(l.func.value.slice, ast.Constant) and l.func.value.slice.value == 0
          and isinstance(r, ast.Subscript) and isinstance(r.value, ast.Name) and r.value.id == l.func.value.value.id
          and isinstance(r.slice, ast.Slice) and isinstance(r.slice.lower, ast.Constant) and r.slice.lower.value == 1
          and r.slice.upper is None and r.slice.step is None)
    return l.func.value.value.id if ok else None


try:
    node, arg, body = fn_body(scv.possible_json_keys)
    for s in ast.walk(node):
        need(not isinstance(s, (ast.While, ast.For, ast.Try, ast.Raise, ast.With, ast.Lambda, ast.Yield)), s,
             'construct outside the subset')
    need(isinstance(body[0], ast.Assign) and isinstance(body[0].value, ast.List) and not body[0].value.elts
         and isinstance(body[0].targets[0], ast.Name), body[0], 'first statement must be `L = []`')
    L = body[0].targets[0].id
    env, keys, lines, closers, n = {arg: 'f'}, [], [], 0, 0
    stmts = body[1:]
    need(len(stmts) >= 2 and isinstance(stmts[-1], ast.Return) and isinstance(stmts[-1].value, ast.Name)
         and stmts[-1].value.id == L, node, 'must end with `return L`')
    fin = stmts[-2]
    need(isinstance(fin, ast.If) and not fin.orelse and len(fin.body) == 1
         and isinstance(fin.test, ast.Compare) and len(fin.test.ops) == 1 and isinstance(fin.test.ops[0], ast.In)
         and isinstance(fin.test.left, ast.Name) and fin.test.left.id == arg
         and isinstance(fin.test.comparators[0], ast.Name) and fin.test.comparators[0].id == L
         and isinstance(fin.body[0], ast.Expr) and isinstance(fin.body[0].value, ast.Call)
         and isinstance(fin.body[0].value.func, ast.Attribute) and fin.body[0].value.func.attr == 'remove'
         and isinstance(fin.body[0].value.func.value, ast.Name) and fin.body[0].value.func.value.id == L
         and len(fin.body[0].value.args) == 1 and isinstance(fin.body[0].value.args[0], ast.Name)
         and fin.body[0].value.args[0].id == arg, fin, 'expected `if field in L: L.remove(field)`')
    for st in stmts[:-2]:
        if isinstance(st, ast.Assign):
            need(len(st.targets) == 1 and isinstance(st.targets[0], ast.Name), st, 'assignment target')
            name, v = st.targets[0].id, st.value
            need(name != arg and name != L, st, 'rebinding of the argument / list')
            n += 1
            fresh = 'k%d' % n
            if isinstance(v, ast.Call) and isinstance(v.func, ast.Name) and v.func.id == 'to_camel_case' \
                    and len(v.args) == 1 and isinstance(v.args[0], ast.Name) and v.args[0].id in env and not v.keywords:
                lines.append('match to_camel %s with\n  | None => None\n  | Some %s =>' % (env[v.args[0].id], fresh))
                closers += 1
            elif is_cap_first(v):
                src = is_cap_first(v)
                need(src in env, st, 'unknown name')
                lines.append('match %s with\n  | [] => None\n  | c%d :: r%d =>\n  let %s := to_upper c%d :: r%d in'
                             % (env[src], n, n, fresh, n, n))
                closers += 1
            else:
                lines.append('let %s := %s in' % (fresh, total_expr(v, env)))
            env[name] = fresh
        elif isinstance(st, ast.Expr) and isinstance(st.value, ast.Call) and isinstance(st.value.func, ast.Attribute) \
                and st.value.func.attr == 'append' and isinstance(st.value.func.value, ast.Name) \
                and st.value.func.value.id == L and len(st.value.args) == 1 and isinstance(st.value.args[0], ast.Name):
            need(st.value.args[0].id in env, st, 'unknown name')
            keys.append(env[st.value.args[0].id])
        else:
            need(False, st, 'unsupported statement')
    ks = '[' + '; '.join(keys) + ']'
    lines.append('let ks := %s in\n  Some (if mem_str f ks then remove_first f ks else ks)' % ks)
    pjk = '\n  '.join(lines) + '\n  ' + ' '.join(['end'] * closers)

    node, arg, body = fn_body(scv.normalize)
    need(len(body) == 1 and isinstance(body[0], ast.Return), node, 'normalize: single return')
    norm = total_expr(body[0].value, {arg: 's'})
    need(scv.to_camel_case.__module__ == scv.to_lisp_case.__module__ == 'dataclass_wizard.utils.string_conv',
         node, 'casing functions rebound')
except Unsupported as e:
    expect(False, str(e))

print('(* GENERATED by harness/tables/AutoKeysAlg.py from the SOURCE TEXT of\n'
      '   dataclass_wizard/utils/string_conv.py on every check run. Do not edit. *)')
print('From DW Require Import PyStr StrConv.\n')
print('Definition possible_json_keys_src (f : pstr) : option (list pstr) :=\n  %s.\n' % pjk)
print('Definition normalize_src (s : pstr) : pstr := %s.' % norm)
