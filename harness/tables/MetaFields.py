"""AbstractMeta / AbstractEnvMeta: setting names, __special_attrs__, default values (tie T for C12)."""
import sys, os, enum
sys.path.insert(0, os.path.dirname(os.path.abspath(__file__)))
from _common import *
from dataclass_wizard.bases import AbstractMeta, AbstractEnvMeta, ABCOrAndMeta
from dataclass_wizard import constants


def value(cls, k):
    expect(k in cls.__dict__, '%s.%s has no class attribute (default)' % (cls.__name__, k))
    v = cls.__dict__[k]
    if v is None:
        return '(%s, %s, %s)' % (coq_str(k), coq_str('none'), coq_str(''))
    if isinstance(v, bool):
        return '(%s, %s, %s)' % (coq_str(k), coq_str('bool'), coq_str(repr(v)))
    if isinstance(v, str):
        return '(%s, %s, %s)' % (coq_str(k), coq_str('str'), coq_str(v))
    if isinstance(v, enum.Enum):
        return '(%s, %s, %s)' % (coq_str(k), coq_str('enum'), coq_str('%s.%s' % (type(v).__name__, v.name)))
    expect(False, '%s.%s has a default of unexpected type %r' % (cls.__name__, k, type(v)))


def table(cls, prefix):
    ann = cls.__dict__.get('__annotations__')
    expect(isinstance(ann, dict) and ann, '%s.__annotations__' % cls.__name__)
    expect(cls.all_fields == frozenset(ann), '%s.all_fields is not frozenset(__annotations__)' % cls.__name__)
    sp = cls.__special_attrs__
    expect(isinstance(sp, frozenset) and all(isinstance(k, str) for k in sp), '%s.__special_attrs__' % cls.__name__)
    expect(cls.fields_to_merge == frozenset(ann) - sp, '%s.fields_to_merge is not all_fields - __special_attrs__' % cls.__name__)
    expect(type(cls) is ABCOrAndMeta, 'metaclass of %s' % cls.__name__)
    names = list(ann)
    print('Definition %s_all_fields : list pstr := %s.\n' % (prefix, coq_list([coq_str(k) for k in names])))
    print('Definition %s_special_attrs : list pstr := %s.\n' % (prefix, coq_list([coq_str(k) for k in names if k in sp] + [coq_str(k) for k in sorted(sp - frozenset(names))])))
    print('Definition %s_defaults : list (pstr * pstr * pstr) := %s.\n' % (prefix, coq_list([value(cls, k) for k in names])))


print(header('MetaFields', 'dataclass_wizard/bases.py (AbstractMeta, AbstractEnvMeta), constants.TAG'))
table(AbstractMeta, 'meta')
table(AbstractEnvMeta, 'envmeta')
expect(isinstance(constants.TAG, str), 'constants.TAG')
print('Definition const_tag : pstr := %s.\n' % coq_str(constants.TAG))
