"""Tie T for an ALGORITHM: the zero-value derivation of dataclass_wizard/property_wizard.py
(`_process_field`, `_default_from_annotation`, `_default_from_type`, `_default_from_generic_type`,
`_default_from_typing_args`) is translated from its current SOURCE TEXT (Python ast) into Gallina
and printed as gen/T_PropWizDefaultsAlg.v.  The translation keeps the decision structure of the
source - order of tests, which exception a `try` catches, what each branch returns, which function
is called with which object - and expresses every library / runtime operation by a primitive of
model/PropWizObj.v (get_args, get_origin, is_generic, is_annotated, is_literal,
eval_forward_ref_if_needed, call without arguments, isinstance, `is not MISSING`,
dataclasses.field(...)).  proofs/PropWizDefaults.v proves the generated functional, closed by `dfa`
of model/PropWiz.v, equal to `dfa` for ALL annotations (C16_defaults_source_tie), so the C16
theorems about implied defaults are about the branch structure the source spells out NOW.

Subset (anything else fails closed -> no output -> broken tie):
  x = <expr>                                  let x := .. in
  a, *b = args                                let a := tuple_item0 args in let b := tl args in
  try: x = f(..) except NameError: x = None   let x := match .. with Some v => v | None => py_none end in
  try: x = y() except TypeError: <returns> else: <block>    match call0 y with None => .. | Some x => .. end
  try: return args[0] except TypeError: return None         tuple_item0 args   (indexing a tuple cannot raise TypeError)
  if <test>: <block that returns on every path> [elif/else]  if .. then .. else <rest>
  for e in xs: if isinstance(e, Field): return <expr>        match find .. xs with Some e => .. | None => <rest> end
  return <expr>
The pair (cls_annotations, field) is represented by the one object `cls_annotations.get(field)`; the
translator checks that every call passes either the caller's own pair or `{field: X}, field`."""
import sys, os, ast, inspect, textwrap
sys.path.insert(0, os.path.dirname(os.path.abspath(__file__)))
from _common import *
from _py2gallina import Unsupported, need
import importlib
importlib.import_module('dataclass_wizard.property_wizard')
pw = sys.modules['dataclass_wizard.property_wizard']
from dataclass_wizard.utils import typing_compat as tc
import dataclasses, typing

ANN = 'ann_obj'          # Gallina name of `cls_annotations.get(field)`
FUNCS = {'_default_from_typing_args': 'default_from_typing_args_src',
         '_default_from_type': 'default_from_type_src',
         '_process_field': 'process_field_src',
         '_default_from_generic_type': 'default_from_generic_type_src',
         '_default_from_annotation': 'default_from_annotation_src'}
RESERVED = {'rec', 'fix', 'match', 'with', 'end', 'let', 'in', 'if', 'then', 'else', 'fun', 'forall', 'as', 'return',
            'fst', 'snd', 'tl', 'find', 'true', 'false', 'negb', 'existsb', ANN} | set(FUNCS.values())


def check_bindings():
    """the names the source uses must be bound to the objects the primitives model"""
    need(pw.get_args is tc.get_args and pw.get_origin is tc.get_origin and pw.is_generic is tc.is_generic
         and pw.is_literal is tc.is_literal and pw.is_annotated is tc.is_annotated
         and pw.eval_forward_ref_if_needed is tc.eval_forward_ref_if_needed, None, 'typing_compat names rebound')
    need(pw.dataclass_field is dataclasses.field and pw.Field is dataclasses.Field and pw.MISSING is dataclasses.MISSING,
         None, 'dataclasses names rebound')
    need(pw.Union is typing.Union and pw.NoneType is type(None), None, 'Union / NoneType rebound')


class Fn:
    """translator of one function.  `params`: python parameter -> role ('cls' | 'anns' | 'field' | 'obj')"""

    def __init__(self, name, roles):
        self.name = name
        node = ast.parse(textwrap.dedent(inspect.getsource(getattr(pw, name)))).body[0]
        need(isinstance(node, ast.FunctionDef) and node.name == name and not node.decorator_list and not node.args.vararg
             and not node.args.kwarg and not node.args.kwonlyargs, node, 'signature of ' + name)
        args = [a.arg for a in node.args.args]
        need(len(args) == len(roles), node, 'parameter count of ' + name)
        self.role = dict(zip(args, roles))
        self.objs = [a for a in args if self.role[a] == 'obj']
        for a in self.objs:
            need(a not in RESERVED, node, 'parameter name clashes with a Gallina name')
        self.locals = set(self.objs)
        self.body = [s for s in node.body if not (isinstance(s, ast.Expr) and isinstance(s.value, ast.Constant))]
        self.node = node

    # ---- helpers -------------------------------------------------------------------------
    def is_name(self, n, role):
        return isinstance(n, ast.Name) and self.role.get(n.id) == role

    def local(self, n):
        need(isinstance(n, ast.Name) and n.id in self.locals, n, 'not a local object variable')
        return n.id

    def bind(self, n):
        need(isinstance(n, ast.Name) and n.id not in RESERVED and n.id not in self.role or
             (isinstance(n, ast.Name) and self.role.get(n.id) == 'obj'), n, 'unsupported assignment target')
        self.locals.add(n.id)
        return n.id

    def ann_pair(self, d, f):
        """the (annotations, field) pair of a call -> the object `annotations.get(field)`"""
        need(self.is_name(f, 'field'), f, 'field argument must be the caller\'s `field`')
        if self.is_name(d, 'anns'):
            return ANN
        need(isinstance(d, ast.Dict) and len(d.keys) == 1 and self.is_name(d.keys[0], 'field'), d,
             'annotations argument must be the caller\'s own or {field: X}')
        return self.expr(d.values[0])

    def plain_call(self, n, fname, nargs):
        return (isinstance(n, ast.Call) and isinstance(n.func, ast.Name) and n.func.id == fname
                and len(n.args) == nargs and not n.keywords)

    # ---- expressions: objects ---------------------------------------------------------------
    def expr(self, n):
        """an expression used where an object is expected"""
        t = self.raw(n)
        return '(OFd %s)' % t if self.kind(n) == 'fdef' else t

    def kind(self, n):
        """Gallina type of the translation of `n`: 'fdef' for calls that return a Field, else 'obj'"""
        if isinstance(n, ast.Call) and isinstance(n.func, ast.Name) and n.func.id in (
                'dataclass_field', '_default_from_type', '_default_from_generic_type', '_default_from_annotation'):
            return 'fdef'
        if isinstance(n, ast.Subscript) and self.plain_call(n.value, '_process_field', 4):
            return 'fdef'
        return 'obj'

    def raw(self, n):
        if isinstance(n, ast.Name):
            return self.local(n)
        if isinstance(n, ast.Constant) and n.value is None:
            return 'py_none'
        if isinstance(n, ast.Subscript) and isinstance(n.slice, ast.Constant) and n.slice.value == 0:
            if isinstance(n.value, ast.Name):
                return '(tuple_item0 %s)' % self.local(n.value)
            if self.plain_call(n.value, '_process_field', 4):
                return '(fst %s)' % self.expr(n.value)
            need(False, n, 'unsupported [0]')
        if isinstance(n, ast.Tuple) and len(n.elts) == 2 and isinstance(n.elts[1], ast.Constant) \
                and isinstance(n.elts[1].value, bool):
            return '(%s, %s)' % (self.field_expr(n.elts[0]), 'true' if n.elts[1].value else 'false')
        if isinstance(n, ast.Call):
            f = n.func
            # cls_annotations.get(field)
            if isinstance(f, ast.Attribute) and f.attr == 'get' and self.is_name(f.value, 'anns') and len(n.args) == 1 \
                    and self.is_name(n.args[0], 'field') and not n.keywords:
                return ANN
            need(isinstance(f, ast.Name), n, 'unsupported call')
            if f.id in ('get_args', 'get_origin') and len(n.args) == 1 and not n.keywords:
                return '(%s %s)' % (f.id, self.expr(n.args[0]))
            if f.id == 'dataclass_field' and not n.args:
                if not n.keywords:
                    return 'fd_empty'
                need(len(n.keywords) == 1 and n.keywords[0].arg in ('default', 'default_factory'), n, 'dataclass_field keywords')
                prim = 'field_with_factory' if n.keywords[0].arg == 'default_factory' else 'field_with_default'
                return '(%s %s)' % (prim, self.expr(n.keywords[0].value))
            if self.plain_call(n, '_default_from_typing_args', 1) or self.plain_call(n, '_default_from_type', 1):
                return '(%s %s)' % (FUNCS[f.id], self.expr(n.args[0]))
            if self.plain_call(n, '_default_from_generic_type', 3):
                need(self.is_name(n.args[0], 'cls') and self.is_name(n.args[2], 'field'), n, 'cls / field arguments')
                return '(%s rec %s)' % (FUNCS[f.id], self.expr(n.args[1]))
            if self.plain_call(n, '_default_from_annotation', 3):
                need(self.is_name(n.args[0], 'cls'), n, 'cls argument')
                return '(rec %s)' % self.ann_pair(n.args[1], n.args[2])
            if self.plain_call(n, '_process_field', 4):
                need(self.is_name(n.args[0], 'cls'), n, 'cls argument')
                return '(process_field_src rec %s %s)' % (self.ann_pair(n.args[1], n.args[2]), self.expr(n.args[3]))
        need(False, n, 'unsupported expression')

    def field_expr(self, n):
        """an expression whose value is a Field (Gallina type fdef)"""
        if self.kind(n) == 'fdef':
            return self.raw(n)
        return '(as_field %s)' % self.raw(n)

    # ---- tests --------------------------------------------------------------------------------
    def test(self, n):
        if isinstance(n, ast.Call) and isinstance(n.func, ast.Name) and not n.keywords:
            if n.func.id in ('is_annotated', 'is_literal', 'is_generic') and len(n.args) == 1:
                return '(%s %s)' % (n.func.id, self.expr(n.args[0]))
            if n.func.id == 'isinstance' and len(n.args) == 2:
                k = n.args[1]
                if isinstance(k, ast.Name) and k.id == 'Field':
                    return '(isinstance_field %s)' % self.expr(n.args[0])
                need(isinstance(k, ast.Tuple) and all(isinstance(e, ast.Name) for e in k.elts)
                     and sorted(e.id for e in k.elts) == ['dict', 'list', 'set'], n, 'isinstance classes must be exactly (list, dict, set)')
                return '(isinstance_lds %s)' % self.expr(n.args[0])
        if isinstance(n, ast.Compare) and len(n.ops) == 1:
            l, op, r = n.left, n.ops[0], n.comparators[0]
            if isinstance(op, ast.IsNot) and isinstance(r, ast.Name) and r.id == 'MISSING' and isinstance(l, ast.Attribute) \
                    and l.attr in ('default', 'default_factory'):
                return '(%s %s)' % ('fd_factory_set' if l.attr == 'default_factory' else 'fd_default_set', self.expr(l.value))
            if isinstance(op, ast.Is) and isinstance(r, ast.Name) and r.id == 'Union':
                return '(is_union_form %s)' % self.expr(l)
            if isinstance(op, ast.NotIn) and isinstance(l, ast.Name) and l.id == 'NoneType':
                return '(negb (existsb is_nonetype_obj %s))' % self.expr(r)
        if isinstance(n, ast.BoolOp) and isinstance(n.op, ast.And):
            parts = []
            for v in n.values:
                if isinstance(v, ast.Name):        # truth value of a tuple
                    parts.append('(tuple_nonempty %s)' % self.local(v))
                else:
                    parts.append(self.test(v))
            return '(' + ' && '.join(parts) + ')'
        need(False, n, 'unsupported test')

    # ---- statements -------------------------------------------------------------------------------
    def returns(self, stmts):
        """does every path through `stmts` end in return?"""
        if not stmts:
            return False
        s = stmts[-1]
        if isinstance(s, ast.Return):
            return True
        if isinstance(s, ast.If):
            return self.returns(s.body) and self.returns(s.orelse)
        if isinstance(s, ast.Try):
            return all(self.returns(h.body) for h in s.handlers) and self.returns(s.orelse or s.body)
        return False

    def block(self, stmts, ind, field_result):
        pad = ' ' * ind
        need(stmts, self.node, 'a path falls off the end of %s' % self.name)
        s, rest = stmts[0], stmts[1:]
        if isinstance(s, ast.Return):
            need(not rest and s.value is not None, s, 'code after return')
            return pad + (self.field_expr(s.value) if field_result else self.expr(s.value))
        if isinstance(s, ast.Assign) and len(s.targets) == 1:
            t = s.targets[0]
            if isinstance(t, ast.Name):
                v = self.expr(s.value)
                return '%slet %s := %s in\n%s' % (pad, self.bind(t), v, self.block(rest, ind, field_result))
            need(isinstance(t, (ast.Tuple, ast.List)) and len(t.elts) == 2 and isinstance(t.elts[1], ast.Starred)
                 and isinstance(s.value, ast.Name), s, 'unsupported unpacking')
            src = self.local(s.value)
            a, b = self.bind(t.elts[0]), self.bind(t.elts[1].value)
            return '%slet %s := tuple_item0 %s in\n%slet %s := tl %s in\n%s' % (pad, a, src, pad, b, src,
                                                                                 self.block(rest, ind, field_result))
        if isinstance(s, ast.If):
            need(self.returns(s.body), s, 'if-body must return on every path')
            return '%sif %s then\n%s\n%selse\n%s' % (pad, self.test(s.test), self.block(s.body, ind + 2, field_result), pad,
                                                     self.block(s.orelse + rest, ind + 2, field_result))
        if isinstance(s, ast.For):
            need(isinstance(s.target, ast.Name) and isinstance(s.iter, ast.Name) and not s.orelse and len(s.body) == 1
                 and isinstance(s.body[0], ast.If) and not s.body[0].orelse and len(s.body[0].body) == 1
                 and isinstance(s.body[0].body[0], ast.Return), s, 'unsupported loop')
            xs = self.local(s.iter)
            e = self.bind(s.target)
            return '%smatch find (fun %s => %s) %s with\n%s| Some %s =>\n%s\n%s| None =>\n%s\n%send' % (
                pad, e, self.test(s.body[0].test), xs, pad, e, self.block(s.body[0].body, ind + 4, field_result), pad,
                self.block(rest, ind + 4, field_result), pad)
        if isinstance(s, ast.Try):
            need(len(s.handlers) == 1 and not s.finalbody and isinstance(s.handlers[0].type, ast.Name)
                 and s.handlers[0].name is None and len(s.body) == 1, s, 'try shape')
            exc, h, b = s.handlers[0].type.id, s.handlers[0].body, s.body[0]
            # try: return args[0] / except TypeError: return None
            if isinstance(b, ast.Return) and isinstance(b.value, ast.Subscript) and isinstance(b.value.value, ast.Name) \
                    and exc == 'TypeError' and not s.orelse and len(h) == 1 and isinstance(h[0], ast.Return) \
                    and isinstance(h[0].value, ast.Constant) and h[0].value.value is None:
                return self.block([b], ind, field_result)
            need(isinstance(b, ast.Assign) and len(b.targets) == 1 and isinstance(b.targets[0], ast.Name)
                 and isinstance(b.value, ast.Call) and not b.value.keywords, b, 'try body')
            x, call = b.targets[0], b.value
            # try: x = eval_forward_ref_if_needed(x, cls) / except NameError: x = None
            if isinstance(call.func, ast.Name) and call.func.id == 'eval_forward_ref_if_needed':
                need(exc == 'NameError' and len(call.args) == 2 and self.is_name(call.args[1], 'cls') and not s.orelse
                     and len(h) == 1 and isinstance(h[0], ast.Assign) and len(h[0].targets) == 1
                     and isinstance(h[0].targets[0], ast.Name) and h[0].targets[0].id == x.id
                     and isinstance(h[0].value, ast.Constant) and h[0].value.value is None, s, 'forward-reference try')
                arg = self.expr(call.args[0])
                return '%slet %s := match eval_forward_ref_if_needed %s with Some v => v | None => py_none end in\n%s' % (
                    pad, self.bind(x), arg, self.block(rest, ind, field_result))
            # try: x = y() / except TypeError: <returns> / else: <block>
            need(exc == 'TypeError' and not call.args and isinstance(call.func, ast.Name) and self.returns(h), s, 'call try')
            callee = self.local(call.func)
            hb = self.block(h, ind + 4, field_result)
            return '%smatch call0 %s with\n%s| None =>\n%s\n%s| Some %s =>\n%s\n%send' % (
                pad, callee, pad, hb, pad, self.bind(x), self.block(s.orelse + rest, ind + 4, field_result), pad)
        need(False, s, 'unsupported statement')


try:
    check_bindings()
    out = []
    f = Fn('_default_from_typing_args', ['obj'])
    out.append('Definition default_from_typing_args_src (%s : list obj) : obj :=\n%s.\n' % (f.objs[0], f.block(f.body, 2, False)))
    f = Fn('_default_from_type', ['obj'])
    out.append('Definition default_from_type_src (%s : obj) : fdef :=\n%s.\n' % (f.objs[0], f.block(f.body, 2, True)))
    f = Fn('_process_field', ['cls', 'anns', 'field', 'obj'])
    out.append('Definition process_field_src (rec : obj -> fdef) (%s : obj) (%s : obj) : fdef * bool :=\n%s.\n'
               % (ANN, f.objs[0], f.block(f.body, 2, False)))
    f = Fn('_default_from_generic_type', ['cls', 'obj', 'field'])
    need(len(f.node.args.defaults) == 1 and isinstance(f.node.args.defaults[0], ast.Constant)
         and f.node.args.defaults[0].value is None, f.node, 'default of `field`')
    out.append('Definition default_from_generic_type_src (rec : obj -> fdef) (%s : obj) : fdef :=\n%s.\n'
               % (f.objs[0], f.block(f.body, 2, True)))
    f = Fn('_default_from_annotation', ['cls', 'anns', 'field'])
    out.append('Definition default_from_annotation_src (rec : obj -> fdef) (%s : obj) : fdef :=\n%s.\n'
               % (ANN, f.block(f.body, 2, True)))
except Unsupported as e:
    expect(False, str(e))

print('(* GENERATED by harness/tables/PropWizDefaultsAlg.py from the SOURCE TEXT of\n'
      '   dataclass_wizard/property_wizard.py (_process_field .. _default_from_typing_args) on every check run.\n'
      '   Do not edit. *)')
print('From DW Require Import PyStr PropWiz PropWizObj.\n')
print('\n'.join(out))
