"""wizard_cli/schema.py data tables -> coq/gen/T_SchemaTables.v: the strings that look like
booleans, the PyDataType members and their rendered names, English.singularize's rule /
uncountable / irregular tables (read from the function's AST, it builds them locally), and
the attribute names of JSONWizard (a root-class field with such a name gets a default).
Fail-closed."""
import sys, os, ast, inspect, textwrap
sys.path.insert(0, os.path.dirname(os.path.abspath(__file__)))
from _common import *
from dataclass_wizard.wizard_cli import schema
from dataclass_wizard.utils import type_conv
from dataclass_wizard import JSONWizard

bv = schema._BOOL_VALUES
expect(isinstance(bv, (set, frozenset)) and all(isinstance(x, str) and x.isascii() for x in bv), '_BOOL_VALUES shape')
expect(type_conv.TRUTHY_VALUES <= bv, 'TRUTHY_VALUES not included in _BOOL_VALUES')

members = []
for m in schema.PyDataType:
    members.append((m.name, str(m)))
expect(len(members) == 10, 'PyDataType has %d members' % len(members))

# The three tables are literals somewhere in the source of class English: locals of singularize()
# (pinned tree), class-level constants, or module-level constants.  Find them by name
# (any spelling containing rule / uncountable / irregular), innermost scope first.
def literal_tables(tree):
    found = {}
    for node in ast.walk(tree):
        if isinstance(node, ast.Assign) and len(node.targets) == 1 and isinstance(node.targets[0], ast.Name):
            name = node.targets[0].id.lower()
        elif isinstance(node, ast.AnnAssign) and isinstance(node.target, ast.Name) and node.value is not None:
            name = node.target.id.lower()
        else:
            continue
        kind = ('uncountable_words' if 'uncountable' in name else 'irregular_words' if 'irregular' in name
                else 'rules' if 'rule' in name else None)
        if kind is None:
            continue
        try:
            val = ast.literal_eval(node.value)
        except (ValueError, SyntaxError):
            continue        # e.g. `rules = English._SINGULAR_RULES`: an alias, not the literal
        found.setdefault(kind, []).append(val)
    return found

scopes = [ast.parse(textwrap.dedent(inspect.getsource(schema.English.singularize))),
          ast.parse(textwrap.dedent(inspect.getsource(schema.English))),
          ast.parse(inspect.getsource(schema))]
tables = {}
for tree in scopes:
    for kind, vals in literal_tables(tree).items():
        if kind not in tables:
            expect(len(vals) == 1, 'several literal %s tables in one scope' % kind)
            tables[kind] = vals[0]
expect(set(tables) == {'rules', 'uncountable_words', 'irregular_words'}, 'singularize tables found: %r' % sorted(tables))
# the function must still be driven by tables of this content: spot-check one word per table
expect(schema.English.singularize('Sheep') == 'Sheep' and schema.English.singularize('Children') == 'Child'
       and schema.English.singularize('Boxes') == 'Box', 'singularize does not behave like its tables')
rules = tables['rules']
expect(all(isinstance(r, (list, tuple)) and len(r) == 2 and all(isinstance(x, str) for x in r) for r in rules), 'rules shape')
expect(isinstance(tables['uncountable_words'], (list, tuple, set, frozenset)) and all(isinstance(x, str) for x in tables['uncountable_words']), 'uncountable shape')
expect(isinstance(tables['irregular_words'], dict), 'irregular shape')

# does the out-file argument type create/truncate the file while the arguments are parsed? (F14a)
import tempfile, shutil
from dataclass_wizard.wizard_cli import cli
_d = tempfile.mkdtemp(prefix='schematables_')
try:
    _p = os.path.join(_d, 'probe.py')
    _h = cli.FileTypeWithExt('w', ext='.py')(_p)
    opened_at_parse = os.path.exists(_p)
    try:
        _h.close()
    except Exception:
        pass
finally:
    shutil.rmtree(_d, ignore_errors=True)

attrs = sorted(a for a in dir(JSONWizard) if a.isidentifier() and not a.startswith('__'))
expect('from_dict' in attrs and 'to_dict' in attrs, 'JSONWizard lacks from_dict/to_dict')

print(header('SchemaTables', 'dataclass_wizard/wizard_cli/schema.py'))
print('Definition schema_bool_values : list pstr := %s.\n' % coq_list([coq_str(x) for x in sorted(bv)]))
print('Definition schema_prim_members : list (pstr * pstr) := %s.\n'
      % coq_list(['(%s, %s)' % (coq_str(a), coq_str(b)) for a, b in members]))
print('Definition singularize_rules : list (pstr * pstr) := %s.\n'
      % coq_list(['(%s, %s)' % (coq_str(a), coq_str(b)) for a, b in rules]))
print('Definition singularize_uncountable : list pstr := %s.\n' % coq_list([coq_str(x) for x in tables['uncountable_words']]))
print('Definition singularize_irregular : list (pstr * pstr) := %s.\n'
      % coq_list(['(%s, %s)' % (coq_str(a), coq_str(b)) for a, b in tables['irregular_words'].items()]))
print('Definition jsonwizard_attrs : list pstr := %s.\n' % coq_list([coq_str(x) for x in attrs]))
print('Definition cli_output_opened_at_parse : bool := %s.\n' % ('true' if opened_at_parse else 'false'))
