"""wizard_cli/schema.py data tables -> coq/gen/T_SchemaTables.v: the strings that look like
booleans, the PyDataType members and their rendered names, English.singularize's rule /
uncountable / irregular tables (read from the function's AST, it builds them locally), and
the attribute names of JSONWizard (a root-class field with such a name gets a default).
Fail-closed."""
import sys, os, ast, inspect, textwrap
sys.path.insert(0, os.path.dirname(os.path.abspath(__file__)))
from _common import *
from dataclass_wizard.wizard_cli import schema
from dataclass_wizard.utils import type_conv
from dataclass_wizard import JSONWizard

bv = schema._BOOL_VALUES
expect(isinstance(bv, (set, frozenset)) and all(isinstance(x, str) and x.isascii() for x in bv), '_BOOL_VALUES shape')
expect(type_conv.TRUTHY_VALUES <= bv, 'TRUTHY_VALUES not included in _BOOL_VALUES')

members = []
for m in schema.PyDataType:
    members.append((m.name, str(m)))
expect(len(members) == 10, 'PyDataType has %d members' % len(members))

src = textwrap.dedent(inspect.getsource(schema.English.singularize))
fn = ast.parse(src).body[0]
expect(isinstance(fn, ast.FunctionDef) and fn.name == 'singularize', 'singularize is not a plain function')
tables = {}
for node in fn.body:
    if isinstance(node, ast.Assign) and len(node.targets) == 1 and isinstance(node.targets[0], ast.Name):
        name = node.targets[0].id
        if name in ('rules', 'uncountable_words', 'irregular_words'):
            tables[name] = ast.literal_eval(node.value)
expect(set(tables) == {'rules', 'uncountable_words', 'irregular_words'}, 'singularize tables found: %r' % sorted(tables))
rules = tables['rules']
expect(all(isinstance(r, list) and len(r) == 2 and all(isinstance(x, str) for x in r) for r in rules), 'rules shape')
expect(all(isinstance(x, str) for x in tables['uncountable_words']), 'uncountable shape')
expect(isinstance(tables['irregular_words'], dict), 'irregular shape')

# does the out-file argument type create/truncate the file while the arguments are parsed? (F14a)
import tempfile, shutil
from dataclass_wizard.wizard_cli import cli
_d = tempfile.mkdtemp(prefix='schematables_')
try:
    _p = os.path.join(_d, 'probe.py')
    _h = cli.FileTypeWithExt('w', ext='.py')(_p)
    opened_at_parse = os.path.exists(_p)
    try:
        _h.close()
    except Exception:
        pass
finally:
    shutil.rmtree(_d, ignore_errors=True)

attrs = sorted(a for a in dir(JSONWizard) if a.isidentifier() and not a.startswith('__'))
expect('from_dict' in attrs and 'to_dict' in attrs, 'JSONWizard lacks from_dict/to_dict')

print(header('SchemaTables', 'dataclass_wizard/wizard_cli/schema.py'))
print('Definition schema_bool_values : list pstr := %s.\n' % coq_list([coq_str(x) for x in sorted(bv)]))
print('Definition schema_prim_members : list (pstr * pstr) := %s.\n'
      % coq_list(['(%s, %s)' % (coq_str(a), coq_str(b)) for a, b in members]))
print('Definition singularize_rules : list (pstr * pstr) := %s.\n'
      % coq_list(['(%s, %s)' % (coq_str(a), coq_str(b)) for a, b in rules]))
print('Definition singularize_uncountable : list pstr := %s.\n' % coq_list([coq_str(x) for x in tables['uncountable_words']]))
print('Definition singularize_irregular : list (pstr * pstr) := %s.\n'
      % coq_list(['(%s, %s)' % (coq_str(a), coq_str(b)) for a, b in tables['irregular_words'].items()]))
print('Definition jsonwizard_attrs : list pstr := %s.\n' % coq_list([coq_str(x) for x in attrs]))
print('Definition cli_output_opened_at_parse : bool := %s.\n' % ('true' if opened_at_parse else 'false'))
