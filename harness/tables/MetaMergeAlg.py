"""Tie T for an ALGORITHM: ABCOrAndMeta.__or__ / __and__ (dataclass_wizard/bases.py), the merge of two
Meta configs, are translated from their current SOURCE TEXT (Python ast, symbolic tracking of which
class's __dict__ each local denotes) into Gallina over the association-list model of
model/MetaMerge.v (gen/T_MetaMergeAlg.v); proofs/MetaMergeSrcTie.v proves the result equal to the
hand-written meta_or / meta_or_abstract / meta_and for ALL Meta contents.
Subset: aliases `x = cls|other|<alias>`, `d = <class>.__dict__`, `base_dict = {...}` (only the
non-setting key '__slots__'), `if src is AbstractMeta or src is AbstractEnvMeta:` (-> the two
generated functions), loops `for k in <class>.fields_to_merge | .__special_attrs__ | .all_fields:`
whose body is an if/elif chain `if k in D: base_dict[k] = D[k]` (or `setattr(cls, k, D[k])` in
__and__).  What happens after the loops of __or__ (naming and creation of the new class) is outside
the model and is ignored.  Fails closed otherwise."""
import sys, os, ast, inspect, textwrap
sys.path.insert(0, os.path.dirname(os.path.abspath(__file__)))
from _common import *
from _py2gallina import Unsupported, need
from dataclass_wizard.bases import ABCOrAndMeta, AbstractMeta, AbstractEnvMeta

ITER = {'fields_to_merge': 'fields_to_merge', '__special_attrs__': 'meta_special_attrs', 'all_fields': 'meta_all_fields'}


def body_of(f):
    node = ast.parse(textwrap.dedent(inspect.getsource(f))).body[0]
    need(isinstance(node, ast.FunctionDef) and [a.arg for a in node.args.args] == ['cls', 'other'], node, 'signature')
    return node, [s for s in node.body if not (isinstance(s, ast.Expr) and isinstance(s.value, ast.Constant))]


class Merge:
    """classes: local -> 'src' | 'other'; dicts: local -> the CLASS whose __dict__ it is, fixed at binding time."""

    def __init__(self, abstract, sink):
        self.abstract, self.sink = abstract, sink      # abstract: is the first operand AbstractMeta?
        self.cls = {'cls': 'src', 'other': 'other'}
        self.dicts = {}
        self.parts = []

    def gdict(self, who):
        if who == 'other':
            return 'other'
        return 'abstract_dict' if self.abstract else 'src'

    def klass(self, node):
        need(isinstance(node, ast.Name) and node.id in self.cls, node, 'expected a Meta class local')
        return self.cls[node.id]

    def run(self, stmts):
        for st in stmts:
            if isinstance(st, ast.Assign) and len(st.targets) == 1 and isinstance(st.targets[0], ast.Name):
                n, v = st.targets[0].id, st.value
                if isinstance(v, ast.Name) and v.id in self.cls:
                    self.cls[n] = self.cls[v.id]
                elif isinstance(v, ast.Attribute) and v.attr == '__dict__':
                    self.dicts[n] = self.gdict(self.klass(v.value))
                elif isinstance(v, ast.Dict) and n == self.sink:
                    need(all(isinstance(k, ast.Constant) and k.value == '__slots__' for k in v.keys), st,
                         'initial base_dict may hold only __slots__')
                else:
                    return 'stop'          # naming / creation of the new class: outside the model
            elif isinstance(st, ast.If):
                t = st.test
                need(isinstance(t, ast.BoolOp) and isinstance(t.op, ast.Or) and len(t.values) == 2 and all(
                    isinstance(c, ast.Compare) and len(c.ops) == 1 and isinstance(c.ops[0], ast.Is)
                    and isinstance(c.left, ast.Name) and self.cls.get(c.left.id) == 'src'
                    and isinstance(c.comparators[0], ast.Name) for c in t.values)
                     and [c.comparators[0].id for c in t.values] == ['AbstractMeta', 'AbstractEnvMeta'], st,
                     'expected `if src is AbstractMeta or src is AbstractEnvMeta:`')
                r = self.run(st.body if self.abstract else st.orelse)
                need(r != 'stop', st, 'unexpected statement inside the abstract/concrete branch')
            elif isinstance(st, ast.For):
                need(isinstance(st.target, ast.Name) and not st.orelse and isinstance(st.iter, ast.Attribute)
                     and st.iter.attr in ITER, st, 'loop header')
                self.klass(st.iter.value)      # the iterated attribute is the same frozenset on every Meta class
                k = st.target.id
                need(len(st.body) == 1 and isinstance(st.body[0], ast.If), st, 'loop body must be one if/elif chain')
                chain, node = [], st.body[0]
                while True:
                    t = node.test
                    need(isinstance(t, ast.Compare) and len(t.ops) == 1 and isinstance(t.ops[0], ast.In)
                         and isinstance(t.left, ast.Name) and t.left.id == k
                         and isinstance(t.comparators[0], ast.Name) and t.comparators[0].id in self.dicts, t,
                         'expected `k in <dict>`')
                    d = t.comparators[0].id
                    need(len(node.body) == 1, node, 'one statement per branch')
                    a = node.body[0]
                    if self.sink == 'setattr':
                        ok = (isinstance(a, ast.Expr) and isinstance(a.value, ast.Call) and isinstance(a.value.func, ast.Name)
                              and a.value.func.id == 'setattr' and len(a.value.args) == 3
                              and isinstance(a.value.args[0], ast.Name) and self.cls.get(a.value.args[0].id) == 'src'
                              and isinstance(a.value.args[1], ast.Name) and a.value.args[1].id == k
                              and ast.unparse(a.value.args[2]) == '%s[%s]' % (d, k))
                    else:
                        ok = (isinstance(a, ast.Assign) and ast.unparse(a.targets[0]) == '%s[%s]' % (self.sink, k)
                              and ast.unparse(a.value) == '%s[%s]' % (d, k))
                    need(ok, a, 'branch must copy <dict>[k] into the result')
                    chain.append(self.dicts[d])
                    if len(node.orelse) == 1 and isinstance(node.orelse[0], ast.If):
                        node = node.orelse[0]
                    else:
                        need(not node.orelse, node, 'else branch in the copy chain')
                        break
                e = '(own k %s)' % chain[-1]
                for d in reversed(chain[:-1]):
                    e = '(first_some (own k %s) %s)' % (d, e)
                self.parts.append('flat_map (fun k => pick k %s) %s' % (e, ITER[st.iter.attr]))
            elif isinstance(st, ast.Return):
                return 'return'
            elif isinstance(st, ast.Expr) and isinstance(st.value, ast.Constant):
                pass
            else:
                return 'stop'
        return 'end'


try:
    need(ABCOrAndMeta.__or__.__qualname__ == 'ABCOrAndMeta.__or__' and type(AbstractMeta) is ABCOrAndMeta
         and type(AbstractEnvMeta) is ABCOrAndMeta, None, 'metaclass')
    _, body = body_of(ABCOrAndMeta.__or__)
    conc = Merge(False, 'base_dict'); conc.run(body)
    absn = Merge(True, 'base_dict'); absn.run(body)
    need(len(conc.parts) == 2 and len(absn.parts) == 2, None, '__or__: expected a merge loop and a special-attrs loop')
    node, body = body_of(ABCOrAndMeta.__and__)
    andm = Merge(False, 'setattr')
    r = andm.run(body)
    need(r == 'return' and len(andm.parts) == 1 and isinstance(body[-1], ast.Return)
         and isinstance(body[-1].value, ast.Name) and body[-1].value.id == 'cls', node, '__and__: expected one loop, `return cls`')
except Unsupported as e:
    expect(False, str(e))

print('(* GENERATED by harness/tables/MetaMergeAlg.py from the SOURCE TEXT of dataclass_wizard/bases.py\n'
      '   (ABCOrAndMeta.__or__, __and__) on every check run. Do not edit. *)')
print('From DW Require Import PyStr T_MetaFields MetaMerge.\nFrom Coq Require Import List.\nImport ListNotations.\n')
print('(* __or__ when the first operand is a concrete Meta: the settings of the new class *)')
print('Definition meta_or_src (src other : meta) : meta :=\n  %s.\n' % '\n  ++ '.join(conc.parts))
print('(* __or__ when the first operand is AbstractMeta / AbstractEnvMeta *)')
print('Definition meta_or_abstract_src (other : meta) : meta :=\n  %s.\n' % '\n  ++ '.join(absn.parts))
print('(* __and__: in-place overlay; later writes shadow the existing entries *)')
print('Definition meta_and_src (src other : meta) : meta :=\n  %s ++ src.' % andm.parts[0])
