"""type_conv.TRUTHY_VALUES (shared by the default engine's as_bool and the v1 load_to_bool
template) -> coq/gen/T_Truthy.v.  Fail-closed: any surprise in shape stops the translation."""
import sys, os
sys.path.insert(0, os.path.dirname(os.path.abspath(__file__)))
from _common import *
from dataclass_wizard.utils import type_conv
from dataclass_wizard.v1 import loaders as v1_loaders

tv = type_conv.TRUTHY_VALUES
expect(isinstance(tv, (frozenset, set, tuple, list)), 'TRUTHY_VALUES is a %r' % type(tv))
expect(all(isinstance(x, str) for x in tv), 'TRUTHY_VALUES has a non-str member')
expect(all(all(ord(c) < 128 for c in x) for x in tv), 'TRUTHY_VALUES has a non-ASCII member')
expect(getattr(v1_loaders, 'TRUTHY_VALUES', None) is tv, 'v1 loaders do not share type_conv.TRUTHY_VALUES')
for fn in ('as_bool', 'as_int', 'as_int_v1', 'as_str', 'as_list', 'as_dict', 'as_datetime', 'as_date', 'as_time',
           'as_timedelta', 'as_datetime_v1', 'as_date_v1', 'as_time_v1'):
    expect(callable(getattr(type_conv, fn, None)), 'type_conv.%s missing' % fn)

print(header('Truthy', 'dataclass_wizard/utils/type_conv.py'))
print('Definition truthy_values : list pstr := %s.\n' % coq_list([coq_str(x) for x in sorted(tv)]))
