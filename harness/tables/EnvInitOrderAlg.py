"""Tie T for the ORDER of the generated EnvWizard.__init__ (dataclass_wizard/environ/wizard.py,
EnvWizard._create_methods), read from the current SOURCE TEXT (Python ast):

  * env_init_preamble_v0: every generated line that calls `Env.<something>` before `_vars = []`, in
    program order, with the generated-code guard it is emitted under (`with fn_gen.if_(..)`,
    `else_()`, `fn(..)` where `fn` is bound to fn_gen.elif_ / fn_gen.if_) and the generation-time
    condition (`if _meta_env_file:`) if any.  This is the order of Env.reload / load_environ,
    update_with_secret_values, update_with_dotenv (Meta value), update_with_dotenv (argument).
  * env_init_field_v0: the decision emitted per field: the guard of the value branch
    (keyword first, `or`, then the lookup), the two lookup forms, and the three fall-back lines in
    their if / elif / else order (default, default_factory call, add to the missing list).
  * env_update_with_v0: inside lookups.Env.update_with_secret_values / update_with_dotenv the order
    `cls.reload(values)` then `environ.update(values)`.

model/EnvInit.v decodes the tables into step lists and interprets them; props/C18.v pins them
(`C18_overlay_order_table`) and proves the interpreted order equal to the hand-written
`prepare` / `resolve_field`.  Fail-closed: any unexpected shape -> no file."""
import sys, os, ast, inspect, textwrap
sys.path.insert(0, os.path.dirname(os.path.abspath(__file__)))
from _common import *
from dataclass_wizard.environ import wizard as wz
from dataclass_wizard.environ import lookups as lk


def fn_ast(fn):
    node = ast.parse(textwrap.dedent(inspect.getsource(fn))).body[0]
    expect(isinstance(node, ast.FunctionDef), 'source of %r is not one function' % fn)
    return node


cm = wz.EnvWizard.__dict__.get('_create_methods')
expect(cm is not None, 'EnvWizard._create_methods missing')
fa = fn_ast(getattr(cm, '__func__', cm))


def text_of(node):
    """string literal / f-string -> its template text ({expr} kept as written)"""
    if isinstance(node, ast.Constant) and isinstance(node.value, str):
        return node.value
    if isinstance(node, ast.JoinedStr):
        out = []
        for v in node.values:
            if isinstance(v, ast.Constant):
                out.append(v.value)
            else:
                expect(isinstance(v, ast.FormattedValue), 'f-string part')
                out.append('{%s%s}' % (ast.unparse(v.value), '!r' if v.conversion == 114 else ''))
        return ''.join(out)
    expect(False, 'not a string literal: %s' % ast.dump(node)[:120])


def fg_call(node):
    """fn_gen.<m>(args) or fn(args) -> (method, args) else None"""
    if not isinstance(node, ast.Call):
        return None
    f = node.func
    if isinstance(f, ast.Attribute) and isinstance(f.value, ast.Name) and f.value.id == 'fn_gen':
        return f.attr, node.args
    if isinstance(f, ast.Name) and f.id == 'fn':
        return 'fn', node.args
    return None


events = []     # (gen_time_condition, guard, line)  in program order


def walk(stmts, cond, guard):
    for s in stmts:
        if isinstance(s, ast.With):
            expect(len(s.items) == 1, 'with of one item')
            c = fg_call(s.items[0].context_expr)
            expect(c is not None, 'with over something else than fn_gen: %s' % ast.unparse(s.items[0].context_expr)[:80])
            m, args = c
            if m == 'function':
                walk(s.body, cond, guard)
            elif m in ('if_', 'elif_', 'fn'):
                expect(len(args) == 1, 'one guard argument')
                walk(s.body, cond, guard + [m.rstrip('_') + ' ' + text_of(args[0])])
            elif m == 'else_':
                walk(s.body, cond, guard + ['else'])
            elif m == 'try_':
                walk(s.body, cond, guard)
            elif m == 'except_':
                walk(s.body, cond, guard + ['except'])
            else:
                expect(False, 'unknown fn_gen block %s' % m)
        elif isinstance(s, ast.If):
            t = ast.unparse(s.test)
            walk(s.body, cond + [t], guard)
            # the elif/else chain of a Python `if`: conditions are recorded as `not (..)`
            walk(s.orelse, cond + ['not (%s)' % t], guard)
        elif isinstance(s, ast.For):
            walk(s.body, cond + ['for ' + ast.unparse(s.target)], guard)
        elif isinstance(s, ast.Expr) and fg_call(s.value) and fg_call(s.value)[0] == 'add_line':
            args = fg_call(s.value)[1]
            expect(len(args) == 1, 'add_line of one argument')
            events.append((list(cond), list(guard), text_of(args[0])))
        elif isinstance(s, ast.Assign) and len(s.targets) == 1 and isinstance(s.targets[0], ast.Name) \
                and s.targets[0].id == 'fn':
            v = s.value
            expect(isinstance(v, ast.Attribute) and isinstance(v.value, ast.Name) and v.value.id == 'fn_gen'
                   and v.attr in ('if_', 'elif_'), 'fn bound to something else')
            events.append((list(cond), list(guard), '<fn=%s>' % v.attr))
        elif isinstance(s, (ast.Try,)):
            expect(False, 'python try inside _create_methods body walk')


# body of the FIRST `with fn_gen.function('__init__', ...)`
init_with = [s for s in fa.body if isinstance(s, ast.With) and fg_call(s.items[0].context_expr)
             and fg_call(s.items[0].context_expr)[0] == 'function']
expect(len(init_with) >= 1, 'no fn_gen.function block')
first = fg_call(init_with[0].items[0].context_expr)[1]
expect(text_of(first[0]) == '__init__', 'first generated function is not __init__')
walk(init_with[0].body, [], [])

lines = [e[2] for e in events]
expect(lines.count('_vars = []') == 1, '`_vars = []` marker')
cut = lines.index('_vars = []')
pre, post = events[:cut], events[cut + 1:]

# ---- preamble ---------------------------------------------------------------------------------------
fn_bind = {}
preamble = []
for cond, guard, line in pre:
    if line.startswith('<fn='):
        expect(len(cond) == 1, 'fn bound under one generation-time condition')
        fn_bind[cond[0]] = line[4:-1]
        continue
    expect(line.startswith('Env.'), 'preamble line that is not an Env call: %r' % line)
    expect(len(guard) == 1 and len(cond) <= 1, 'preamble line nested deeper than one guard: %r' % line)
    preamble.append((cond[0] if cond else '', guard[0], line))
expect(sorted(fn_bind.values()) == ['elif_', 'if_'] and len(fn_bind) == 2, 'fn binding %r' % fn_bind)
k_true = [k for k in fn_bind if not k.startswith('not (')]
expect(len(k_true) == 1 and fn_bind[k_true[0]] == 'elif_' and fn_bind['not (%s)' % k_true[0]] == 'if_',
       'fn = elif_ when the Meta file is set, if_ otherwise: %r' % fn_bind)
# nothing but Env calls may touch the environment: no other statement kinds were accepted above
expect(all('os.environ' not in l for l in lines), 'generated __init__ mentions os.environ')

# ---- per-field decision ----------------------------------------------------------------------------------
field = []
loop = [e for e in post if any(c.startswith('for ') for c in e[0])]
expect(loop, 'no per-field loop')
for cond, guard, line in loop:
    c = [x for x in cond if not x.startswith('for ') and x != 'field_names']
    field.append((' & '.join(c), ' / '.join(guard), line))
# the two lookup forms (`part`), assigned under `if env_var:` / else
parts = []
for n in ast.walk(fa):
    if isinstance(n, ast.If) and ast.unparse(n.test) == 'env_var':
        for br, stmts in (('env_var', n.body), ('not env_var', n.orelse)):
            for s in stmts:
                if isinstance(s, ast.Assign) and isinstance(s.targets[0], ast.Name) and s.targets[0].id == 'part':
                    parts.append((br, text_of(s.value)))
expect(len(parts) == 2, 'two lookup forms: %r' % parts)
after = [e for e in post if e not in loop]

# ---- update_with_* in lookups.py ----------------------------------------------------------------------------
upd = []
for name in ('update_with_secret_values', 'update_with_dotenv'):
    f = lk.Env.__dict__.get(name)
    expect(f is not None, name + ' missing')
    node = fn_ast(getattr(f, '__func__', f))
    seq = []
    for s in ast.walk(node):
        pass
    for s in node.body:
        if isinstance(s, ast.Expr) and isinstance(s.value, ast.Call):
            t = ast.unparse(s.value.func)
            if t.startswith('_yp'):
                continue
            seq.append(ast.unparse(s.value))
        elif isinstance(s, ast.Expr) and isinstance(s.value, ast.Constant):
            continue
        elif isinstance(s, (ast.Assign, ast.If)):
            t = ast.unparse(s)
            expect('environ' not in t.replace('dotenv', '') or 'os.environ' not in t, 'assignment touching os.environ in ' + name)
            expect('reload' not in t and '.update' not in t, 'reload/update hidden in an assignment of ' + name)
        else:
            expect(False, 'statement in %s: %s' % (name, ast.unparse(s)[:80]))
    upd.append((name, seq))


def triples(rows):
    return coq_list(['(%s, %s, %s)' % (coq_str(a), coq_str(b), coq_str(c)) for a, b, c in rows])


print(header('EnvInitOrderAlg', 'dataclass_wizard/environ/wizard.py (EnvWizard._create_methods), environ/lookups.py'))
print('(* (generation-time condition, guard in the generated code, generated line), program order, before `_vars = []` *)')
print('Definition env_init_preamble_v0 : list (pstr * pstr * pstr) :=\n  %s.\n' % triples(preamble))
print('(* per field, program order *)')
print('Definition env_init_field_v0 : list (pstr * pstr * pstr) :=\n  %s.\n' % triples(field))
print('Definition env_init_lookup_forms_v0 : list (pstr * pstr) :=\n  %s.\n'
      % coq_list(['(%s, %s)' % (coq_str(a), coq_str(b)) for a, b in parts]))
print('(* after the loop *)')
print('Definition env_init_after_v0 : list (pstr * pstr * pstr) :=\n  %s.\n'
      % triples([(' & '.join(c), ' / '.join(g), l) for c, g, l in after]))
print('Definition env_update_with_v0 : list (pstr * list pstr) :=\n  %s.\n'
      % coq_list(['(%s, %s)' % (coq_str(n), coq_list([coq_str(x) for x in seq])) for n, seq in upd]))
