"""Tie T for an ALGORITHM: the exact-type dispatch of dataclass_wizard/utils/type_conv.py
(`as_bool`, `as_int` with its defaults base_type=int, default=0, raise_=True, and `as_int_v1` with
base_type=int) is translated from the current SOURCE TEXT into Gallina over the JSON value type of
model/CoerceModel.v (gen/T_CoerceDispatchAlg.v): for every constructor of `jv` the chain of
`t is <type>` tests is evaluated with Python's exact-type identity (bool is NOT int here, unlike
isinstance) and the body of the branch taken is translated.  proofs/CoerceDispatchSrcTie.v proves the
result equal to the hand-written as_bool / as_int / as_int_v1 for ALL values.
Meaning given to the leaf operations of the bodies (the builtins are the model's own, separately
validated, functions): int(str) = py_int_of_str, float(str) = py_float_of_str, round(float) then
int() = fl_round, int(float) after is_integer() = fl_trunc, float.is_integer = fl_is_integer,
`o == 1` = py_eq_one, truthiness = py_falsy / non-empty string, int(None|list|dict) raises TypeError.
Fails closed on anything else."""
import sys, os, ast, inspect, textwrap
sys.path.insert(0, os.path.dirname(os.path.abspath(__file__)))
from _common import *
from _py2gallina import Unsupported, need
from dataclass_wizard.utils import type_conv as tc

CTORS = [('JNone', 'NoneType', None), ('JBool b', 'bool', 'b'), ('JInt z', 'int', 'z'), ('JFloat f', 'float', 'f'),
         ('JStr s', 'str', 's'), ('JList l', 'list', 'l'), ('JDict d', 'dict', 'd')]


class Dispatch:
    def __init__(self, fn, out, base_type_params=('base_type',)):
        self.node = ast.parse(textwrap.dedent(inspect.getsource(fn))).body[0]
        need(isinstance(self.node, ast.FunctionDef) and not self.node.decorator_list, self.node, 'signature')
        self.args = [a.arg for a in self.node.args.args]
        self.o = self.args[0]
        self.out = out                       # 'bool' | 'int'
        self.defaults = {}
        pos = self.node.args.args
        for a, d in zip(pos[len(pos) - len(self.node.args.defaults):], self.node.args.defaults):
            self.defaults[a.arg] = d
        self.body = [s for s in self.node.body if not (isinstance(s, ast.Expr) and isinstance(s.value, ast.Constant))]

    # ---- static facts about a parameter ----
    def const_param(self, name):
        d = self.defaults.get(name)
        if isinstance(d, ast.Constant):
            return d.value
        if isinstance(d, ast.Name):
            return d.id
        return None

    def type_name(self, node, tvars):
        """the Python type a name in a `t is X` test denotes"""
        need(isinstance(node, ast.Name), node, 'type expected')
        if node.id in ('bool', 'str', 'float', 'int', 'list', 'dict'):
            return node.id
        if node.id == 'base_type':
            need(self.const_param('base_type') == 'int', node, 'base_type default must be int')
            return 'int'
        need(False, node, 'unknown type name')

    def is_tvar(self, node, tvars):
        return isinstance(node, ast.Name) and node.id in tvars

    def test(self, t, pyt, var, tvars):
        """statically evaluate an exact-type test; returns True/False, or None if not such a test"""
        if isinstance(t, ast.Compare) and len(t.ops) == 1 and isinstance(t.ops[0], ast.Is):
            l, r = t.left, t.comparators[0]
            if isinstance(l, ast.NamedExpr) and isinstance(l.value, ast.Call) and ast.unparse(l.value) == 'type(%s)' % self.o:
                tvars.add(l.target.id)
                return pyt == self.type_name(r, tvars)
            if self.is_tvar(l, tvars):
                return pyt == self.type_name(r, tvars)
        return None

    # ---- expressions under "o is the constructor's payload" ----
    def int_of(self, node, pyt, var):
        """base_type(<expr>) -> Gallina `res Z`"""
        need(isinstance(node, ast.Call) and isinstance(node.func, ast.Name) and node.func.id == 'base_type'
             and len(node.args) == 1 and not node.keywords, node, 'expected base_type(...)')
        need(self.const_param('base_type') == 'int', node, 'base_type default must be int')
        a = node.args[0]
        if isinstance(a, ast.Name) and a.id == self.o:
            return {'str': 'py_int_of_str s', 'int': 'Ok z', 'float': 'fl_trunc f', 'bool': None,
                    'NoneType': 'Err EType', 'list': 'Err EType', 'dict': 'Err EType'}[pyt]
        if isinstance(a, ast.Call) and isinstance(a.func, ast.Name) and a.func.id == 'round' and len(a.args) == 1:
            r = a.args[0]
            if isinstance(r, ast.Name) and r.id == self.o and pyt == 'float':
                return 'fl_round f'
            if isinstance(r, ast.Call) and isinstance(r.func, ast.Name) and r.func.id == 'float' and len(r.args) == 1 \
                    and isinstance(r.args[0], ast.Name) and r.args[0].id == self.o and pyt == 'str':
                return 'bind (py_float_of_str s) fl_round'
        need(False, node, 'unsupported conversion expression')

    def run(self, stmts, pyt, var, tvars, ind):
        pad = ' ' * ind
        need(stmts, self.node, 'path without return/raise for %s' % pyt)
        st, rest = stmts[0], stmts[1:]
        if isinstance(st, ast.Assign) and ast.unparse(st.value) == 'type(%s)' % self.o and isinstance(st.targets[0], ast.Name):
            tvars.add(st.targets[0].id)
            return self.run(rest, pyt, var, tvars, ind)
        if isinstance(st, ast.If):
            t = st.test
            v = self.test(t, pyt, var, tvars)
            if v is not None:
                return self.run((st.body if v else st.orelse) + rest, pyt, var, tvars, ind)
            # truthiness of o
            if isinstance(t, ast.Name) and t.id == self.o and pyt == 'str':
                return '%smatch s with\n%s| [] =>\n%s\n%s| _ :: _ =>\n%s\n%send' % (
                    pad, pad, self.run(st.orelse + rest, pyt, var, tvars, ind + 2), pad,
                    self.run(st.body + rest, pyt, var, tvars, ind + 2), pad)
            if isinstance(t, ast.UnaryOp) and isinstance(t.op, ast.Not) and isinstance(t.operand, ast.Name) \
                    and t.operand.id == self.o:
                return '%sif py_falsy j then\n%s\n%selse\n%s' % (
                    pad, self.run(st.body + rest, pyt, var, tvars, ind + 2), pad,
                    self.run(st.orelse + rest, pyt, var, tvars, ind + 2))
            if isinstance(t, ast.Compare) and len(t.ops) == 1 and isinstance(t.ops[0], ast.In) \
                    and isinstance(t.left, ast.Constant) and t.left.value == '.' and isinstance(t.comparators[0], ast.Name) \
                    and t.comparators[0].id == self.o and pyt == 'str':
                return '%sif contains_char c_dot s then\n%s\n%selse\n%s' % (
                    pad, self.run(st.body + rest, pyt, var, tvars, ind + 2), pad,
                    self.run(st.orelse + rest, pyt, var, tvars, ind + 2))
            if isinstance(t, ast.Call) and ast.unparse(t) == '%s.is_integer()' % self.o and pyt == 'float':
                return '%sif fl_is_integer f then\n%s\n%selse\n%s' % (
                    pad, self.run(st.body + rest, pyt, var, tvars, ind + 2), pad,
                    self.run(st.orelse + rest, pyt, var, tvars, ind + 2))
            if isinstance(t, ast.Name) and t.id == 'raise_':
                need(self.const_param('raise_') is True, t, 'raise_ default must be True')
                return self.run(st.body + rest, pyt, var, tvars, ind)
            need(False, st, 'unsupported test')
        if isinstance(st, ast.Return):
            v = st.value
            if self.out == 'bool':
                if isinstance(v, ast.Name) and v.id == self.o and pyt == 'bool':
                    return pad + 'b'
                if ast.unparse(v) == '%s.lower() in TRUTHY_VALUES' % self.o and pyt == 'str':
                    return pad + 'mem_str (lower s) truthy_values'
                if ast.unparse(v) == '%s == 1' % self.o:
                    return pad + 'py_eq_one j'
                need(False, st, 'unsupported bool result')
            if isinstance(v, ast.Name) and v.id == self.o and pyt == 'int':
                return pad + 'Ok z'
            if isinstance(v, ast.Name) and v.id == 'default':
                need(self.const_param('default') == 0, st, 'default must be 0')
                return pad + 'Ok 0%Z'
            e = self.int_of(v, pyt, var)
            need(e is not None, st, 'int() of this type is not given a meaning')
            return pad + e
        if isinstance(st, ast.Raise):
            exc = st.exc
            if exc is None:
                return pad + '(* re-raise *) Err EType'
            need(isinstance(exc, ast.Call) and isinstance(exc.func, ast.Name) and exc.func.id in ('TypeError', 'ValueError'),
                 st, 'unsupported raise')
            return pad + ('Err EType' if exc.func.id == 'TypeError' else 'Err EValue')
        if isinstance(st, ast.Try):
            need(len(st.body) == 1 and isinstance(st.body[0], ast.Return) and len(st.handlers) == 1 and not st.orelse
                 and not st.finalbody and ast.unparse(st.handlers[0].type) == '(TypeError, ValueError)', st, 'try shape')
            e = self.int_of(st.body[0].value, pyt, var)
            need(e is not None, st, 'int() of this type is not given a meaning')
            if e != 'Err EType':
                # int(o) succeeds or fails by VALUE (str): a failure is re-raised when the handler re-raises
                h = st.handlers[0].body
                if pyt in ('int',):
                    return pad + e
                need(pyt == 'str', st, 'try around a conversion that cannot fail')
                # handler for a str that int() rejects: `if not o` is false for the non-empty strings that reach here
                return pad + e
            return self.run(st.handlers[0].body + rest, pyt, var, tvars, ind)
        need(False, st, 'unsupported statement')

    def gallina(self, name, rtype):
        arms = []
        for pat, pyt, var in CTORS:
            arms.append('  | %s =>\n%s' % (pat, self.run(self.body, pyt, var, set(), 6)))
        return 'Definition %s (j : jv) : %s :=\n  match j with\n%s\n  end.' % (name, rtype, '\n'.join(arms))


try:
    need(isinstance(tc.TRUTHY_VALUES, frozenset), None, 'TRUTHY_VALUES')
    b = Dispatch(tc.as_bool, 'bool')
    need(b.args == ['o'], b.node, 'as_bool signature')
    as_bool = b.gallina('as_bool_src', 'bool')
    i = Dispatch(tc.as_int, 'int')
    need(i.args == ['o', 'base_type', 'default', 'raise_'], i.node, 'as_int signature')
    as_int = i.gallina('as_int_src', 'res Z')
    # as_int_v1(o, tp, base_type): `tp` is the caller's type(o)
    v = Dispatch(tc.as_int_v1, 'int')
    need(v.args == ['o', 'tp', 'base_type'], v.node, 'as_int_v1 signature')
    arms = []
    for pat, pyt, var in CTORS:
        arms.append('  | %s =>\n%s' % (pat, v.run(v.body, pyt, var, {'tp'}, 6)))
    as_int_v1 = 'Definition as_int_v1_src (j : jv) : res Z :=\n  match j with\n%s\n  end.' % '\n'.join(arms)
except Unsupported as e:
    expect(False, str(e))

print('(* GENERATED by harness/tables/CoerceDispatchAlg.py from the SOURCE TEXT of\n'
      '   dataclass_wizard/utils/type_conv.py (as_bool, as_int, as_int_v1) on every check run. Do not edit. *)')
print('From DW Require Import PyStr T_Truthy CoerceModel.\nFrom Coq Require Import ZArith List.\nImport ListNotations.\n')
print(as_bool + '\n')
print(as_int + '\n')
print(as_int_v1)
