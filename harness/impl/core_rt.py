"""Runtime library for the default-engine core checks (C03, C05, C01), executed inside
the implementation runner (fresh interpreter, PYTHONPATH=/repo).

It turns the harness' abstract specs (JSON) into real classes / values, prints real
Python objects as Gallina terms of CoreValues.pv / CoreSchema.ty (with the oracle
answers of the stdlib functions the library calls), renders objects in the same
canonical text as the model's `show_pv`, and holds the independent reference
implementations used by the direct predicates (reference encoder, conformance check).
"""
import sys, os, math, base64, collections, dataclasses, datetime, decimal, enum, pathlib, typing, uuid, copy, json

sys.path.insert(0, os.path.dirname(os.path.abspath(__file__)))


# --------------------------------------------------------------------------- Gallina printers
def cstr(s):
    b = s.encode('utf-8', 'surrogatepass') if isinstance(s, str) else bytes(s)
    if all(32 <= c < 127 and c != 34 for c in b):
        return '(S "%s")' % b.decode('ascii')
    return '(B [%s]%%N)' % ';'.join(str(c) for c in b)


def clist(items):
    return '[' + '; '.join(items) + ']'


def copt(x):
    return 'None' if x is None else '(Some %s)' % x


def fhex(f):
    return f.hex() if math.isfinite(f) else repr(f)


SK = {list: 'SList', tuple: 'STuple', set: 'SSet', frozenset: 'SFrozenSet', collections.deque: 'SDeque'}
SKCH = {list: 'l', tuple: 't', set: 's', frozenset: 'f', collections.deque: 'q'}
DK = {dict: 'DDict', collections.defaultdict: 'DDefault', collections.OrderedDict: 'DOrdered'}
DKCH = {dict: 'd', collections.defaultdict: 'e', collections.OrderedDict: 'o'}
TK = {'uuid': ('KUUID', 'u'), 'decimal': ('KDecimal', 'c'), 'path': ('KPath', 'p'), 'date': ('KDate', 'a'),
      'datetime': ('KDateTime', 'm'), 'time': ('KTime', 'i'), 'timedelta': ('KTimedelta', 'r')}


def tok_kind(o):
    if isinstance(o, uuid.UUID): return 'uuid'
    if isinstance(o, decimal.Decimal): return 'decimal'
    if isinstance(o, pathlib.PurePath): return 'path'
    if isinstance(o, datetime.datetime): return 'datetime'
    if isinstance(o, datetime.date): return 'date'
    if isinstance(o, datetime.time): return 'time'
    if isinstance(o, datetime.timedelta): return 'timedelta'
    return None


def tok_answers(o):
    """(kind, str, aux, num): the oracle answers the model's token carries."""
    k = tok_kind(o)
    if k == 'uuid':
        return k, str(o), o.hex, 0
    if k in ('decimal', 'path'):
        return k, str(o), '', 0
    if k == 'date':
        try:
            num = round(datetime.datetime.combine(o, datetime.time.min).timestamp())
        except Exception:
            num = 0
        return k, o.isoformat(), '', num
    if k == 'datetime':
        try:
            num = round(o.timestamp())
        except Exception:
            num = 0
        return k, o.isoformat(), '', num
    if k == 'time':
        return k, o.isoformat(), '', 0
    if k == 'timedelta':
        return k, str(o), '', (o.days * 86400 + o.seconds) * 1000000 + o.microseconds
    raise TypeError(o)


class Reg:
    """Classes built for one case: spec id -> class, class -> (kind, id, coq name)."""

    def __init__(self):
        self.by_id = {}
        self.info = {}     # cls -> dict(kind=..., id=..., spec=...)
        self.lets = []     # Gallina let-bindings (name, term) in dependency order
        self.built = {}    # id(spec node) -> annotation object built for it
        self.alias_reordered = False

    def let(self, name, term):
        self.lets.append((name, term))

    def wrap(self, body):
        return ''.join('let %s := %s in\n' % (n, t) for n, t in self.lets) + body


def coq_pv(o, reg, old=True):
    """Gallina term for a real Python object."""
    f = lambda x: coq_pv(x, reg, old)
    ob = 'true' if old else 'false'
    if o is None: return 'VNone'
    t = type(o)
    if t is bool: return '(VBool %s)' % ('true' if o else 'false')
    if isinstance(o, enum.Enum):
        return '(VEnum e%d %s %s)' % (reg.info[t]['id'], cstr(o.name), coq_pv(o.value, reg, old))
    if t is int: return '(VInt (%d)%%Z)' % o
    if t is float: return '(VFloat %s)' % cstr(fhex(o))
    if t is str: return '(VStr %s)' % cstr(o)
    if t in (bytes, bytearray):
        return '(VBytes %s %s %s)' % ('true' if t is bytearray else 'false', cstr(bytes(o)), cstr(base64.b64encode(o).decode()))
    if dataclasses.is_dataclass(o):
        return '(VInst c%d %s)' % (reg.info[t]['id'], clist([f(getattr(o, fd.name)) for fd in dataclasses.fields(o)]))
    if isinstance(o, tuple) and hasattr(o, '_fields'):
        return '(VNT n%d %s)' % (reg.info[t]['id'], clist([f(x) for x in o]))
    if t in SK:
        return '(VSeq %s %s %s)' % (SK[t], ob, clist([f(x) for x in o]))
    if t in DK:
        return '(VDict %s %s %s)' % (DK[t], ob, clist(['(%s, %s)' % (f(k), f(v)) for k, v in o.items()]))
    k = tok_kind(o)
    if k:
        k, s, aux, num = tok_answers(o)
        return '(VTok (mkTok %s %s %s (%d)%%Z))' % (TK[k][0], cstr(s), cstr(aux), num)
    raise TypeError('coq_pv: unsupported %r' % (t,))


def show(o, reg, old_ids=None, sort_sets=False):
    """Canonical text of a real object; must agree with CoreValues.show_pv.
    sort_sets: order-insensitive rendering of set/frozenset (their iteration order is not part of the value)."""
    f = lambda x: show(x, reg, old_ids, sort_sets)
    hx = lambda s: (s.encode('utf-8', 'surrogatepass') if isinstance(s, str) else bytes(s)).hex()
    oc = lambda x: 'O' if (old_ids is not None and id(x) in old_ids) else 'N'
    if o is None: return 'N'
    t = type(o)
    if t is bool: return 'T' if o else 'F'
    if isinstance(o, enum.Enum):
        if t not in reg.info: return '?enum:%s;' % t.__name__
        return 'E%d:%s;' % (reg.info[t]['id'], hx(o.name))
    if t is int: return 'I%d;' % o
    if t is float: return 'D%s;' % hx(fhex(o))
    if t is str: return 'S%s;' % hx(o)
    if t in (bytes, bytearray): return 'B%s%s;' % ('1' if t is bytearray else '0', hx(bytes(o)))
    if dataclasses.is_dataclass(o) and t in reg.info:
        return '(%d:%s)' % (reg.info[t]['id'], ''.join(f(getattr(o, fd.name, None)) for fd in dataclasses.fields(o)))
    if isinstance(o, tuple) and hasattr(o, '_fields') and t in reg.info:
        return '<%d:%s>' % (reg.info[t]['id'], ''.join(f(x) for x in o))
    if t in SK:
        items = [f(x) for x in o]
        if sort_sets and t in (set, frozenset):
            items.sort()
        return '[' + SKCH[t] + oc(o) + ''.join(items) + ']'
    if t in DK:
        items = [f(k) + f(v) for k, v in o.items()]
        if sort_sets == 'dicts' and t in (dict, collections.defaultdict):
            items.sort()
        return '{' + DKCH[t] + oc(o) + ''.join(items) + '}'
    k = tok_kind(o)
    if k and t.__module__ in ('uuid', 'decimal', 'pathlib', 'datetime'):
        return 'K%s%s;' % (TK[k][1], hx(tok_answers(o)[1]))
    return '?%s:%s;' % (t.__name__, hx(repr(o)[:80]))


def show_sorted_sets(o, reg):
    """Like show but order-insensitive for sets/frozensets and for lists that came from sets
    (used only where the model's list order is not meaningful)."""
    if type(o) in (set, frozenset):
        return '[' + SKCH[type(o)] + 'N' + ''.join(sorted(show_sorted_sets(x, reg) for x in o)) + ']'
    return show(o, reg)


# --------------------------------------------------------------------------- building types / classes
def enum_value(v):
    return int(v['x']) if v['v'] == 'int' else v['x']


def fresh_typing_caches():
    """typing caches generic aliases by argument EQUALITY (List[Union[None, X]] written after List[Optional[X]] is the SAME object,
    with the first spelling's argument order).  Every case starts from empty caches so that annotations mean what the case wrote."""
    for f in getattr(typing, '_cleanups', []):
        try:
            f()
        except Exception:
            pass


def _check_alias(alias, built_args, reg):
    """flag the case when typing handed out a cached alias whose Union arguments are ordered differently from what was written"""
    try:
        got = typing.get_args(alias)
        for g, b in zip(got, built_args):
            if typing.get_origin(b) is typing.Union or isinstance(b, __import__('types').UnionType):
                if typing.get_args(g) != typing.get_args(b):
                    reg.alias_reordered = True
    except Exception:
        pass
    return alias


def build_type(spec, reg, meta=None):
    a = build_type0(spec, reg, meta)
    if isinstance(spec, dict) and spec.get('t') in ('seq', 'tuple', 'vartuple', 'dict', 'opt', 'union'):
        subs = [spec[k] for k in ('e', 'kt', 'vt') if k in spec] + list(spec.get('es', []))
        built = [reg.built.get(id(x)) for x in subs]
        if all(b is not None for b in built):
            _check_alias(a, built if spec['t'] != 'union' else [], reg)
    reg.built[id(spec)] = a if a is not None else type(None)
    return a


def build_type0(spec, reg, meta=None):
    """Real annotation object for a type spec; creates Enum / NamedTuple / TypedDict /
    dataclass classes on first sight (cached by id in reg)."""
    t = spec['t']
    T = typing
    if t == 'any': return T.Any
    if t == 'none': return None
    if t in ('bool', 'int', 'float', 'str', 'bytes', 'bytearray'):
        return {'bool': bool, 'int': int, 'float': float, 'str': str, 'bytes': bytes, 'bytearray': bytearray}[t]
    if t == 'tok':
        return {'uuid': uuid.UUID, 'decimal': decimal.Decimal, 'path': pathlib.Path, 'date': datetime.date,
                'datetime': datetime.datetime, 'time': datetime.time, 'timedelta': datetime.timedelta}[spec['k']]
    if t == 'enum':
        key = ('enum', spec['id'])
        if key not in reg.by_id:
            members = [(m, enum_value(v)) for m, v in spec['members']]
            if spec.get('flag'):
                cls = enum.Flag(spec['name'], members)
            elif spec['mix'] == 'int':
                cls = enum.IntEnum(spec['name'], members)
            elif spec['mix'] == 'str':
                cls = enum.Enum(spec['name'], members, type=str)
            else:
                cls = enum.Enum(spec['name'], members)
            reg.by_id[key] = cls
            reg.info[cls] = {'kind': 'enum', 'id': spec['id'], 'spec': spec}
            reg.let('e%d' % spec['id'], 'mkE %d %s %s' % (spec['id'], cstr(spec['name']),
                                                          {'plain': 'EPlain', 'int': 'EIntMix', 'str': 'EStrMix'}[spec['mix']]))
        return reg.by_id[key]
    builtin = spec.get('spell') == 'builtin'
    nn = lambda a: type(None) if a is None else a      # builtin generics keep a literal None argument; typing turns it into NoneType
    if t == 'seq':
        e = build_type(spec['e'], reg)
        if builtin:
            return {'list': list, 'set': set, 'frozenset': frozenset, 'deque': collections.deque}[spec['k']][nn(e)]
        return {'list': T.List, 'set': T.Set, 'frozenset': T.FrozenSet, 'deque': T.Deque}[spec['k']][e]
    if t == 'tuple':
        return (tuple if builtin else T.Tuple)[tuple(nn(build_type(e, reg)) for e in spec['es'])]
    if t == 'vartuple':
        return (tuple if builtin else T.Tuple)[nn(build_type(spec['e'], reg)), ...]
    if t == 'dict':
        kt, vt = build_type(spec['kt'], reg), build_type(spec['vt'], reg)
        if builtin:
            return {'dict': dict, 'defaultdict': collections.defaultdict, 'ordered': collections.OrderedDict}[spec['k']][nn(kt), nn(vt)]
        return {'dict': T.Dict, 'defaultdict': T.DefaultDict, 'ordered': T.OrderedDict}[spec['k']][kt, vt]
    if t == 'opt':
        e = build_type(spec['e'], reg)
        if spec.get('spell') == 'pep604':
            try:
                return e | None
            except TypeError:
                pass
        if spec.get('spell') == 'union':
            return T.Union[e, None]
        return T.Optional[e]
    if t == 'union':
        ms = tuple(type(None) if e['t'] == 'none' else build_type(e, reg) for e in spec['es'])
        if spec.get('spell') == 'pep604':
            try:
                import functools, operator
                return functools.reduce(operator.or_, ms)
            except TypeError:
                pass
        return T.Union[ms]
    if t == 'lit':
        return T.Literal[tuple(build_value(v, reg) for v in spec['vs'])]
    if t == 'nt':
        key = ('nt', spec['id'])
        if key not in reg.by_id:
            ns = {'NamedTuple': T.NamedTuple}
            lines = ['class %s(NamedTuple):' % spec['name']]
            for i, (fname, ft, dflt) in enumerate(spec['fields']):
                ns['T%d' % i] = build_type(ft, reg)
                if dflt is None:
                    lines.append('    %s: T%d' % (fname, i))
                else:
                    ns['D%d' % i] = build_value(dflt, reg)
                    lines.append('    %s: T%d = D%d' % (fname, i, i))
            exec('\n'.join(lines), ns)
            cls = ns[spec['name']]
            reg.by_id[key] = cls
            reg.info[cls] = {'kind': 'nt', 'id': spec['id'], 'spec': spec}
            reg.let('n%d' % spec['id'], 'mkN %d %s %s' % (spec['id'], cstr(spec['name']),
                                                          clist([cstr(f[0]) for f in spec['fields']])))
        return reg.by_id[key]
    if t == 'td':
        key = ('td', spec['id'])
        if key not in reg.by_id:
            if spec.get('total') is False:
                # the same key sets spelled the other way round: total=False with Required[...] on the required keys
                ann = {k: T.Required[build_type(ft, reg)] for k, ft in spec['req']}
                ann.update({k: build_type(ft, reg) for k, ft in spec['opt']})
                cls = T.TypedDict(spec['name'], ann, total=False)
            else:
                ann = {k: build_type(ft, reg) for k, ft in spec['req']}
                ann.update({k: T.NotRequired[build_type(ft, reg)] for k, ft in spec['opt']})
                cls = T.TypedDict(spec['name'], ann)
            reg.by_id[key] = cls
            reg.info[cls] = {'kind': 'td', 'id': spec['id'], 'spec': spec}
        return reg.by_id[key]
    if t == 'data':
        key = ('data', spec['id'])
        if key not in reg.by_id:
            from dataclass_wizard import JSONWizard
            from dataclass_wizard.models import json_field
            ns = {'dataclass': dataclasses.dataclass, 'field': dataclasses.field, 'json_field': json_field,
                  'copy': copy, 'BASES': tuple(spec.get('bases_objs', ()))}
            bases = []
            if spec.get('base') is not None:
                ns['BaseCls'] = build_type(spec['base'], reg)
                bases.append('BaseCls')
            for b in spec.get('bases', []):
                import dataclass_wizard
                ns[b] = getattr(dataclass_wizard, b)
                bases.append(b)
            lines = ['@dataclass', 'class %s%s:' % (spec['name'], '(%s)' % ', '.join(bases) if bases else '')]
            for i, fd in enumerate(spec['fields']):
                if fd.get('inherited'):
                    continue
                ns['T%d' % i] = build_type(fd['ty'], reg)
                args = []
                if fd.get('default') is not None:
                    ns['D%d' % i] = build_value(fd['default'], reg)
                    if isinstance(ns['D%d' % i], (list, dict, set, bytearray, collections.deque)) or dataclasses.is_dataclass(ns['D%d' % i]):
                        args.append('default_factory=lambda: copy.deepcopy(D%d)' % i)
                    else:
                        args.append('default=D%d' % i)
                if fd.get('catchall'):
                    from dataclass_wizard import CatchAll
                    ns['CatchAll'] = CatchAll
                    lines.append('    %s: CatchAll = None' % fd['name'])
                elif fd.get('alias') is not None:
                    lines.append('    %s: T%d = json_field(%r, all=True%s)' % (fd['name'], i, fd['alias'], ''.join(', ' + a for a in args)))
                elif args:
                    lines.append('    %s: T%d = field(%s)' % (fd['name'], i, ', '.join(args)))
                else:
                    lines.append('    %s: T%d' % (fd['name'], i))
            if not [fd for fd in spec['fields'] if not fd.get('inherited')]:
                lines.append('    pass')
            exec('\n'.join(lines), ns)
            cls = ns[spec['name']]
            reg.by_id[key] = cls
            reg.info[cls] = {'kind': 'data', 'id': spec['id'], 'spec': spec}
            if spec.get('tag') is not None:
                from dataclass_wizard import LoadMeta
                kw = {'tag': spec['tag']}
                if spec.get('v1'):
                    kw['v1'] = True
                LoadMeta(**kw).bind_to(cls)
            reg.let('c%d' % spec['id'], 'mkC %d %s %s %s' % (
                spec['id'], cstr(spec['name']),
                clist(['mkF %s %s' % (cstr(fd['name']), copt(cstr(fd['alias']) if fd.get('alias') is not None else None))
                       for fd in spec['fields']]),
                copt(cstr(eff_tag(spec)) if eff_tag(spec) is not None else None)))
        return reg.by_id[key]
    raise ValueError('type spec %r' % (spec,))


def has_f56(ann, seen=None):
    """finding F56: a defaultdict annotation whose VALUE type is a PEP 604 union object (types.UnionType) - typing's alias cache can
    hand it out even for a value type written typing.Union[...] when an equal `X | Y` alias was created earlier in the process"""
    import types
    seen = set() if seen is None else seen
    if id(ann) in seen:
        return False
    seen.add(id(ann))
    origin = typing.get_origin(ann)
    args = typing.get_args(ann)
    if origin is collections.defaultdict and len(args) == 2 and isinstance(args[1], types.UnionType):
        return True
    if dataclasses.is_dataclass(ann):
        return any(has_f56(f.type, seen) for f in dataclasses.fields(ann))
    if isinstance(ann, type) and hasattr(ann, '__annotations__') and (hasattr(ann, '_fields') or typing.is_typeddict(ann)):
        return any(has_f56(a, seen) for a in ann.__annotations__.values())
    return any(has_f56(a, seen) for a in args if a is not Ellipsis)


def bind_meta(cls, meta):
    """One Meta carrying every requested setting, bound with LoadMeta(...).bind_to."""
    if meta:
        from dataclass_wizard import LoadMeta
        LoadMeta(**meta).bind_to(cls)


def tzinfo_of(off):
    """None (naive) | offset seconds (0 = timezone.utc) | {'off': s, 'name': n} named fixed offset | {'zone': IANA key}"""
    if off is None:
        return None
    if isinstance(off, dict):
        if 'zone' in off:
            import zoneinfo
            return zoneinfo.ZoneInfo(off['zone'])
        return datetime.timezone(datetime.timedelta(seconds=off['off']), off['name'])
    if off == 0:
        return datetime.timezone.utc
    return datetime.timezone(datetime.timedelta(seconds=off))


class SubStr(str): pass
class SubInt(int): pass
class SubFloat(float): pass
class SubList(list): pass
class SubTuple(tuple): pass
class SubSet(set): pass
class SubFrozenSet(frozenset): pass
class SubDeque(collections.deque): pass
class SubDict(dict): pass
class SubDefaultDict(collections.defaultdict): pass
class SubOrderedDict(collections.OrderedDict): pass
class SubDateTime(datetime.datetime): pass
class SubDate(datetime.date): pass
class SubTime(datetime.time): pass
class SubTimedelta(datetime.timedelta): pass
class SubDecimal(decimal.Decimal): pass
class SubUUID(uuid.UUID): pass
class SubPath(pathlib.PosixPath): pass


def build_value(v, reg):
    """value spec -> object; with v['sub'] the object is an instance of a user SUBCLASS of the documented type"""
    o = build_value0(v, reg)
    if v.get('sub'):
        t = type(o)
        sub = {str: SubStr, int: SubInt, float: SubFloat, list: SubList, tuple: SubTuple, set: SubSet, frozenset: SubFrozenSet,
               collections.deque: SubDeque, dict: SubDict, collections.OrderedDict: SubOrderedDict, decimal.Decimal: SubDecimal,
               datetime.date: SubDate, datetime.timedelta: SubTimedelta}.get(t)
        if sub is not None:
            return sub(days=o.days, seconds=o.seconds, microseconds=o.microseconds) if t is datetime.timedelta else \
                sub(o.year, o.month, o.day) if t is datetime.date else sub(o)
        if t is collections.defaultdict:
            return SubDefaultDict(o.default_factory, o)
        if t is datetime.datetime:
            return SubDateTime(o.year, o.month, o.day, o.hour, o.minute, o.second, o.microsecond, tzinfo=o.tzinfo)
        if t is datetime.time:
            return SubTime(o.hour, o.minute, o.second, o.microsecond, tzinfo=o.tzinfo)
        if t is uuid.UUID:
            return SubUUID(o.hex)
        if isinstance(o, pathlib.PurePath):
            return SubPath(str(o))
    return o


def build_value0(v, reg):
    k = v['v']
    if k == 'none': return None
    if k == 'bool': return bool(v['x'])
    if k == 'int': return int(v['x'])
    if k == 'float': return float(v['x']) if v['x'] in ('nan', 'inf', '-inf') else float.fromhex(v['x'])
    if k == 'str': return v['x']
    if k == 'bytes':
        b = bytes.fromhex(v['x'])
        return bytearray(b) if v.get('mut') else b
    if k == 'seq':
        xs = [build_value(x, reg) for x in v['xs']]
        return {'list': list, 'tuple': tuple, 'set': set, 'frozenset': frozenset, 'deque': collections.deque}[v['k']](xs)
    if k == 'dict':
        items = [(build_value(a, reg), build_value(b, reg)) for a, b in v['kvs']]
        if v['k'] == 'defaultdict':
            fac = {'list': list, 'int': int, 'str': str, 'dict': dict, 'set': set, None: None}[v.get('factory')]
            return collections.defaultdict(fac, items)
        return {'dict': dict, 'ordered': collections.OrderedDict}[v['k']](items)
    if k == 'enum':
        return reg.by_id[('enum', v['id'])][v['m']]
    if k == 'tok':
        x = v['x']
        kk = v['k']
        if kk == 'uuid': return uuid.UUID(x)
        if kk == 'decimal': return decimal.Decimal(x)
        if kk == 'path': return pathlib.Path(x)
        if kk == 'date': return datetime.date(*x)
        if kk == 'datetime': return datetime.datetime(*x[:7], tzinfo=tzinfo_of(x[7]))
        if kk == 'time': return datetime.time(*x[:4], tzinfo=tzinfo_of(x[4]))
        if kk == 'timedelta': return datetime.timedelta(days=x[0], seconds=x[1], microseconds=x[2])
    if k == 'nt':
        return reg.by_id[('nt', v['id'])](*[build_value(x, reg) for x in v['xs']])
    if k == 'inst':
        return reg.by_id[('data', v['id'])](*[build_value(x, reg) for x in v['xs']])
    raise ValueError('value spec %r' % (v,))


# --------------------------------------------------------------------------- Gallina term for a type spec
def coq_ty(spec, reg):
    t = spec['t']
    f = lambda s: coq_ty(s, reg)
    dv = lambda d: copt(coq_pv(build_value(d, reg), reg, old=False)) if d is not None else 'None'
    if t == 'any': return 'TAny'
    if t == 'none': return 'TNone'
    if t in ('bool', 'int', 'float', 'str'): return 'T' + t.capitalize()
    if t == 'bytes': return '(TBytes false)'
    if t == 'bytearray': return '(TBytes true)'
    if t == 'tok': return '(TTok %s)' % TK[spec['k']][0]
    if t == 'enum':
        build_type(spec, reg)
        return '(TEnum e%d %s)' % (spec['id'], clist(['(%s, %s)' % (cstr(m), coq_pv(enum_value(v), reg, False)) for m, v in spec['members']]))
    if t == 'seq':
        return '(TSeq %s %s)' % ({'list': 'SList', 'set': 'SSet', 'frozenset': 'SFrozenSet', 'deque': 'SDeque'}[spec['k']], f(spec['e']))
    if t == 'tuple': return '(TTuple %s)' % clist([f(e) for e in spec['es']])
    if t == 'vartuple': return '(TVarTuple %s)' % f(spec['e'])
    if t == 'dict':
        return '(TDict %s %s %s)' % ({'dict': 'DDict', 'defaultdict': 'DDefault', 'ordered': 'DOrdered'}[spec['k']], f(spec['kt']), f(spec['vt']))
    if t == 'opt': return '(TOptional %s)' % f(spec['e'])
    if t == 'union': return '(TUnion %s)' % clist([f(e) for e in spec['es']])
    if t == 'lit': return '(TLiteral %s)' % clist([coq_pv(build_value(v, reg), reg, False) for v in spec['vs']])
    if t == 'nt':
        build_type(spec, reg)
        return '(TNamedTuple n%d %s)' % (spec['id'], clist(['(%s, %s)' % (f(ft), dv(d)) for _, ft, d in spec['fields']]))
    if t == 'td':
        return '(TTypedDict %d %s %s)' % (spec['id'], clist(['(%s, %s)' % (cstr(k), f(ft)) for k, ft in spec['req']]),
                                          clist(['(%s, %s)' % (cstr(k), f(ft)) for k, ft in spec['opt']]))
    if t == 'data':
        build_type(spec, reg)
        return '(TData c%d %s)' % (spec['id'], clist(['(%s, %s)' % (f(fd['ty']), dv(fd.get('default'))) for fd in spec['fields']]))
    raise ValueError(spec)


# --------------------------------------------------------------------------- reference encoder (C03)
def spec_has(spec, flag):
    if isinstance(spec, dict):
        return bool(spec.get(flag)) or any(spec_has(v, flag) for v in spec.values())
    if isinstance(spec, list):
        return any(spec_has(v, flag) for v in spec)
    return False


def eff_tag(spec):
    """explicit Meta.tag, or the class name under auto_assign_tags for a Union member"""
    if spec.get('tag') is not None:
        return spec['tag']
    return spec['name'] if spec.get('auto_tag') else None


def ref_key(name, xf):
    """Documented spelling of a snake_case field name under a key transform (docs: Meta / key_transform)."""
    ws = [w for w in name.split('_') if w]          # a run of underscores is one separator
    cap = [w[:1].upper() + w[1:] for w in ws]
    if xf == 'CAMEL': return ws[0] + ''.join(cap[1:])
    if xf == 'PASCAL': return ''.join(cap)
    if xf == 'LISP': return '-'.join(ws)
    if xf == 'SNAKE': return '_'.join(ws)
    return name     # NONE


def ref_encode(o, cfg, reg):
    """The documented wire encoding, written from docs/overview.rst 'Supported Types' and the
    property text - independent of dumpers.py."""
    f = lambda x: ref_encode(x, cfg, reg)
    if o is None or type(o) in (bool, int, float, str):
        return o
    if isinstance(o, enum.Enum):
        return o.value
    if isinstance(o, (str, int, float)):             # user subclasses of the JSON scalars are written as they are
        return o
    if isinstance(o, (bytes, bytearray)):
        return base64.b64encode(bytes(o)).decode('ascii')
    if isinstance(o, uuid.UUID):
        return o.hex
    if isinstance(o, (decimal.Decimal, pathlib.PurePath)):
        return str(o)
    if isinstance(o, datetime.datetime):
        if cfg.get('dt') == 'TIMESTAMP':
            return round(o.timestamp())
        s = o.isoformat()
        return s[:-6] + 'Z' if s.endswith('+00:00') else s
    if isinstance(o, datetime.date):
        if cfg.get('dt') == 'TIMESTAMP':
            return round(datetime.datetime(o.year, o.month, o.day).timestamp())
        return o.isoformat()
    if isinstance(o, datetime.time):
        s = o.isoformat()
        return s[:-6] + 'Z' if s.endswith('+00:00') else s
    if isinstance(o, datetime.timedelta):
        return str(o)
    if dataclasses.is_dataclass(o):
        spec = reg.info[type(o)]['spec']
        out = {}
        for fd in spec['fields']:
            if fd.get('catchall'):
                # unknown keys captured on load are written back under their own names (docs: "Catch All")
                extra = getattr(o, fd['name'])
                if extra:
                    for k, v in extra.items():
                        out[k] = f(v)
                continue
            if fd.get('alias') is not None:
                key = fd['alias']
            elif cfg.get('lib_keys'):
                # identifiers outside the documented domain of the key transforms (leading/trailing underscores, capitals):
                # the spelling is whatever the library's conversion function gives (validated against the model by C08);
                # the VALUES are still checked independently
                from dataclass_wizard.utils import string_conv as sc
                fn = {'CAMEL': sc.to_camel_case, 'PASCAL': sc.to_pascal_case, 'LISP': sc.to_lisp_case, 'SNAKE': sc.to_snake_case}.get(cfg.get('xf') or 'CAMEL')
                key = fn(fd['name']) if fn else fd['name']
            else:
                key = ref_key(fd['name'], cfg.get('xf') or 'CAMEL')
            out[key] = f(getattr(o, fd['name']))
        if eff_tag(spec) is not None:
            out[cfg.get('tag_key') or '__tag__'] = eff_tag(spec)
        return out
    if isinstance(o, tuple) and hasattr(o, '_fields'):
        return type(o)(*[f(x) for x in o])
    if isinstance(o, tuple):
        return tuple(f(x) for x in o)
    if isinstance(o, (list, set, frozenset, collections.deque)):
        return [f(x) for x in o]
    if isinstance(o, collections.defaultdict):
        return {f(k): f(v) for k, v in o.items()}
    if isinstance(o, dict):
        return type(o)((f(k), f(v)) for k, v in o.items())
    raise TypeError('ref_encode: %r' % type(o))


def demix(o):
    """An int/str-mixin Enum member equals (and serialises as) its value."""
    if isinstance(o, enum.Enum) and isinstance(o, (int, str)):
        return o.value
    if isinstance(o, tuple) and hasattr(o, '_fields'):
        return type(o)(*[demix(x) for x in o])
    if type(o) in (list, tuple):
        return type(o)(demix(x) for x in o)
    if type(o) in (dict, collections.OrderedDict):
        return type(o)((demix(k), demix(v)) for k, v in o.items())
    return o


def mutable_ids(o, acc=None):
    """ids of every mutable container reachable from o."""
    if acc is None:
        acc = set()
    if isinstance(o, (list, dict, set, bytearray, collections.deque)):
        acc.add(id(o))
    if isinstance(o, dict):
        for k, v in o.items():
            mutable_ids(k, acc); mutable_ids(v, acc)
    elif isinstance(o, (list, tuple, set, frozenset, collections.deque)):
        for x in o:
            mutable_ids(x, acc)
    elif dataclasses.is_dataclass(o) and not isinstance(o, type):
        acc.add(id(o))
        for fd in dataclasses.fields(o):
            mutable_ids(getattr(o, fd.name, None), acc)
    return acc


def nested_instances(o, acc=None, top=True):
    """dataclass instances reachable from o (excluding o itself), in discovery order"""
    if acc is None:
        acc = []
    if dataclasses.is_dataclass(o) and not isinstance(o, type):
        if not top:
            acc.append(o)
        for fd in dataclasses.fields(o):
            nested_instances(getattr(o, fd.name, None), acc, False)
    elif isinstance(o, dict):
        for k, v in o.items():
            nested_instances(k, acc, False); nested_instances(v, acc, False)
    elif isinstance(o, (list, tuple, set, frozenset, collections.deque)):
        for x in o:
            nested_instances(x, acc, False)
    return acc


def scribble(o, seen=None):
    """Destructively edit every mutable container reachable from a dump result
    (the instance must not notice: it shares nothing with the result)."""
    seen = set() if seen is None else seen
    if id(o) in seen:
        return
    seen.add(id(o))
    if isinstance(o, dict):
        for v in list(o.values()):
            scribble(v, seen)
        o['<scribble>'] = ['x']
    elif isinstance(o, list):
        for v in o:
            scribble(v, seen)
        o.append('<scribble>')
    elif isinstance(o, tuple):
        for v in o:
            scribble(v, seen)


def json_safe_py(o):
    try:
        json.dumps(o)
        return True
    except (TypeError, ValueError):
        return False


# --------------------------------------------------------------------------- independent conformance check (C05)
def accepts_none(spec):
    t = spec['t']
    if t in ('none', 'opt'): return True
    if t == 'union': return any(e['t'] == 'none' for e in spec['es'])
    if t == 'lit': return any(v['v'] == 'none' for v in spec['vs'])
    return False


def conforms(o, spec, reg, path='$', lax=None):
    """None if `o` is a value of the annotated type `spec` (exact container type, element types,
    Literal members by value and type, Union members, nested dataclass types); else a description.
    With `lax` (a set) the two listed leniencies of the default engine are admitted and recorded:
    F46 annotation None keeps anything, F45 short fixed tuple (never for v1: '@v1' in lax)."""
    t = spec['t']
    bad = lambda why: '%s: %s (got %s %r)' % (path, why, type(o).__name__, repr(o)[:60])
    rec = lambda x, s, p: conforms(x, s, reg, p, lax)
    if t == 'any': return None
    if t == 'none':
        if o is None: return None
        if lax is not None and '@v1' not in lax:
            lax.add('F46-none-annotation-accepts-anything'); return None
        return bad('expected None')
    simple = {'bool': bool, 'int': int, 'float': float, 'str': str, 'bytes': bytes, 'bytearray': bytearray}
    if t in simple:
        return None if type(o) is simple[t] else bad('expected ' + t)
    if t == 'tok':
        want = {'uuid': uuid.UUID, 'decimal': decimal.Decimal, 'path': pathlib.PurePath, 'date': datetime.date,
                'datetime': datetime.datetime, 'time': datetime.time, 'timedelta': datetime.timedelta}[spec['k']]
        if spec['k'] == 'date' and isinstance(o, datetime.datetime):
            return bad('expected a plain date')
        return None if isinstance(o, want) else bad('expected ' + spec['k'])
    if t == 'enum':
        cls = reg.by_id[('enum', spec['id'])]
        return None if type(o) is cls else bad('expected member of ' + spec['name'])
    if t == 'seq':
        want = {'list': list, 'set': set, 'frozenset': frozenset, 'deque': collections.deque}[spec['k']]
        if type(o) is not want: return bad('expected ' + spec['k'])
        for i, x in enumerate(o):
            r = rec(x, spec['e'], '%s[%d]' % (path, i))
            if r: return r
        return None
    if t == 'tuple':
        if type(o) is not tuple: return bad('expected tuple')
        if len(o) != len(spec['es']):
            req = sum(1 for e in spec['es'] if not accepts_none(e))
            if lax is not None and '@v1' not in lax and req <= len(o) < len(spec['es']):
                lax.add('F45-short-tuple-with-optional-members')
            else:
                return bad('expected %d elements' % len(spec['es']))
        for i, (x, e) in enumerate(zip(o, spec['es'])):
            r = rec(x, e, '%s[%d]' % (path, i))
            if r: return r
        return None
    if t == 'vartuple':
        if type(o) is not tuple: return bad('expected tuple')
        for i, x in enumerate(o):
            r = rec(x, spec['e'], '%s[%d]' % (path, i))
            if r: return r
        return None
    if t == 'dict':
        want = {'dict': dict, 'defaultdict': collections.defaultdict, 'ordered': collections.OrderedDict}[spec['k']]
        if type(o) is not want: return bad('expected ' + spec['k'])
        for k, x in o.items():
            r = rec(k, spec['kt'], path + '.key') or rec(x, spec['vt'], '%s[%r]' % (path, k))
            if r: return r
        return None
    if t == 'opt':
        return None if o is None else rec(o, spec['e'], path)
    if t == 'union':
        for e in spec['es']:
            if e['t'] == 'none':            # a None MEMBER of a Union admits None only (the leniency F46 is about `None` on its own)
                if o is None:
                    return None
                continue
            trial = ({'@v1'} if '@v1' in lax else set()) if lax is not None else None
            if conforms(o, e, reg, path, trial) is None:
                if trial: lax.update(trial)
                return None
        if lax is not None and '@v1' not in lax and len(spec['es']) == 2 and spec['es'][0]['t'] == 'none':
            # F55 (default engine): Union[None, X] wraps the parser of its first argument (NoneType): anything passes
            lax.add('F55-v0-union-none-first'); return None
        return bad('in no Union member')
    if t == 'lit':
        for v in spec['vs']:
            m = build_value(v, reg)
            if type(m) is type(o) and m == o: return None
        return bad('not a Literal member')
    if t == 'nt':
        cls = reg.by_id[('nt', spec['id'])]
        if type(o) is not cls: return bad('expected ' + spec['name'])
        for (fname, ft, _), x in zip(spec['fields'], o):
            r = rec(x, ft, path + '.' + fname)
            if r: return r
        return None
    if t == 'td':
        if type(o) is not dict: return bad('expected dict (TypedDict)')
        allowed = {k: ft for k, ft in spec['req'] + spec['opt']}
        for k, _ in spec['req']:
            if k not in o: return bad('missing required key %r' % k)
        for k, x in o.items():
            if k not in allowed: return bad('unexpected key %r' % (k,))
            r = rec(x, allowed[k], '%s[%r]' % (path, k))
            if r: return r
        return None
    if t == 'data':
        cls = reg.by_id[('data', spec['id'])]
        if type(o) is not cls: return bad('expected instance of ' + spec['name'])
        for fd in spec['fields']:
            if not hasattr(o, fd['name']): return bad('field %s unset' % fd['name'])
            r = rec(getattr(o, fd['name']), fd['ty'], path + '.' + fd['name'])
            if r: return r
        return None
    raise ValueError(spec)


# --------------------------------------------------------------------------- JSON documents <-> Python
def build_json(j):
    """A JSON document spec (plain JSON with floats written as {"$f": hex}) as a Python object."""
    if isinstance(j, dict):
        if '$f' in j and len(j) == 1:
            x = j['$f']
            return float(x) if x in ('nan', 'inf', '-inf') else float.fromhex(x)
        if '$i' in j and len(j) == 1:
            return int(j['$i'])
        return {k: build_json(v) for k, v in j.items()}
    if isinstance(j, list):
        return [build_json(x) for x in j]
    return j
