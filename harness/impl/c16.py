"""Implementation runner for C16 (property_wizard field properties).

Input : {'classes': [{'src': <module source text>, 'cls': <class name>, 'queries': [names],
                      'getters': [names], 'calls': [{'args': {name: vj}, 'assign': [[name, vj], ...]}]}]}
Each source text is compiled and executed as its own module (registered in
sys.modules so that forward references are evaluated against its globals).
The source defines LOG (setter call log) and ORIG (property objects as written
in the class body).  Output per class: a canonical text, see props/c16.py.
Object identity is reported as the index of first appearance within the class
session (all instances are kept alive, so ids are not reused)."""
import sys, os, types, inspect, dataclasses, re, collections
sys.path.insert(0, os.path.dirname(os.path.abspath(__file__)))
from _util import main


def build_value(vj):
    k = vj[0]
    if k == 'none':
        return None
    if k in ('int', 'str', 'bool'):
        return vj[1]
    if k == 'new':
        return [vj[1]]
    raise ValueError(vj)


class Session:
    def __init__(self):
        self.ids = {}
        self.keep = []

    def tok(self, v):
        if v is None:
            return 'N'
        if isinstance(v, property):
            return 'P'
        if isinstance(v, bool):
            return 'B%d' % int(v)
        if isinstance(v, int):
            return 'I%d' % v
        if isinstance(v, str):
            m = re.match(r'ctr(\d+)-(\d+)$', v)
            if m:       # product of an ever-new-value factory: identity = the value
                n = self.ids.setdefault(('ctr', v), len(self.ids))
                return 'Ouser%s#%d' % (m.group(1), n)
            return 'S' + v.encode().hex()
        if isinstance(v, float) and v == 0.0:
            return 'Zfloat'
        if isinstance(v, bytes) and v == b'':
            return 'Zbytes'
        if isinstance(v, tuple) and v == ():
            return 'Ztuple'
        if isinstance(v, frozenset) and not v:
            return 'Zfrozenset'
        kind = None
        if type(v).__name__ == 'Gear' and v.parts == []:
            return 'Zuserobj'       # the one no-argument instance of a user class (identity is not part of the token)
        if type(v) is collections.deque and not v:
            return 'Zdeque'
        sub = {'OrderedDict': 'orddict', 'defaultdict': 'defdict', 'Counter': 'counter', 'MyList': 'mylist',
               'MySet': 'myset'}.get(type(v).__name__)
        if sub is not None and not v:
            kind = sub
        elif isinstance(v, list):
            kind = 'list' if not v else 'user%s' % (v[0],)
        elif isinstance(v, dict):
            kind = 'dict' if not v else 'dictX'
        elif isinstance(v, set):
            kind = 'set' if not v else 'setX'
        elif isinstance(v, collections.deque) and v:
            kind = 'user%s' % (v[0],)
        elif type(v).__name__ == 'Axle':
            kind = 'user%s' % (v.tag,)
        elif isinstance(v, tuple) and v and isinstance(v[0], list) and v[0]:
            kind = 'user%s' % (v[0][0],)
        elif isinstance(v, frozenset) and len(v) == 1:
            kind = 'user%s' % (next(iter(v)),)
        elif isinstance(v, bytearray) and v:
            kind = 'user%s' % (v[0],)
        if kind is not None:
            self.keep.append(v)
            n = self.ids.setdefault(id(v), len(self.ids))
            return 'O%s#%d' % (kind, n)
        return 'X' + type(v).__name__


def run_class(c, idx):
    name = 'c16_mod_%d' % idx
    # typing caches generic aliases by EQUALITY of their parameters, and Union[int, str] == Union[str, int],
    # Literal[0, ''] == Literal['', 0]: `Annotated[Union[str, int], 'm']` written in this class could come back as
    # the alias built for an earlier class with the members in another order.  Every class starts with empty caches,
    # as in an interpreter of its own.
    import typing
    for clear in getattr(typing, '_cleanups', []):
        clear()
    mod = types.ModuleType(name)
    sys.modules[name] = mod
    out = []
    try:
        code = compile(c['src'], name + '.py', 'exec')
        exec(code, mod.__dict__)
        cls = mod.__dict__[c['cls']]
    except BaseException as e:  # class creation failed
        return 'classerr:%s' % type(e).__name__
    ses = Session()
    LOG, ORIG, CALLS = mod.LOG, mod.ORIG, mod.CALLS
    # signature
    sig = []
    for p in list(inspect.signature(cls.__init__).parameters.values())[1:]:
        if p.default is inspect.Parameter.empty:
            k = 'R'
        elif isinstance(p.default, property):
            k = 'P'
        elif p.default is dataclasses._HAS_DEFAULT_FACTORY:
            k = 'F'
        else:
            k = 'V' + ses.tok(p.default)
        sig.append('%s:%s' % (p.name, k))
    out.append('sig=' + ','.join(sig))
    # state of the property objects
    fgets = {id(v.fget): n for n, v in ORIG.items()}
    st = []
    for q in c['queries']:
        v = cls.__dict__.get(q)
        if isinstance(v, property):
            if q in ORIG and v is ORIG[q]:
                s = 'same'
            elif id(v.fget) in fgets:
                o = ORIG[fgets[id(v.fget)]]
                s = 'wrapped' if (v.fset is not o.fset and getattr(v.fset, '__wrapped__', None) is o.fset) else 'other'
            else:
                s = 'other'
        else:
            s = 'noprop'
        st.append('%s=%s' % (q, s))
    out.append('props=' + ','.join(st))
    for call in c['calls']:
        del LOG[:]
        del CALLS[:]
        try:
            args = {k: build_value(v) for k, v in call['args'].items()}
            if call.get('positional'):
                inst = cls(*[args[k] for k in call['positional']])
            else:
                inst = cls(**args)
        except BaseException as e:
            out.append('call=err:%s' % type(e).__name__)
            continue
        ses.keep.append(inst)

        def snap():
            lg = ','.join('%s=%s' % (n, ses.tok(v)) for n, v in LOG)
            gs = []
            for g in c['getters']:
                try:
                    gs.append('%s=%s' % (g, ses.tok(getattr(inst, g))))
                except BaseException as e:
                    gs.append('%s=!%s' % (g, type(e).__name__))
            del LOG[:]
            return 'log=[%s] get=[%s]' % (lg, ','.join(gs))
        line = 'call=ok ' + snap() + ' fac=[%s]' % ','.join(str(t) for t in CALLS)
        if call.get('mutate'):
            # freshness, judged by CONTENT: every list / dict / set (or subclass instance) this instance holds is
            # mutated; a later instance built without the argument must still get an empty one
            for g in c['getters']:
                try:
                    v = getattr(inst, g)
                except BaseException:
                    continue
                if isinstance(v, list):
                    v.append('m')
                elif isinstance(v, dict):
                    v['m'] = 1
                elif isinstance(v, set):
                    v.add('m')
            del LOG[:]
        for n, vj in call.get('assign', []):
            try:
                setattr(inst, n, build_value(vj))
                line += ' set:' + snap()
            except BaseException as e:
                line += ' set:err:%s' % type(e).__name__
                del LOG[:]
        out.append(line)
    return '\n'.join(out)


def run_probe(pr):
    """the zero-value derivation alone, on many annotations in ONE interpreter (no cache is cleared in between):
    `_default_from_annotation(K, {'f': <annotation>}, 'f')` -> 'empty' | 'default=<token>' | 'factory=<token of a product>'"""
    import importlib
    importlib.import_module('dataclass_wizard.property_wizard')
    pw = sys.modules['dataclass_wizard.property_wizard']
    name = 'c16_probe_mod'
    mod = types.ModuleType(name)
    sys.modules[name] = mod
    exec(compile(pr['header'], name + '.py', 'exec'), mod.__dict__)
    K = mod.__dict__['K']
    out = []
    for src in pr['anns']:
        ses = Session()
        try:
            ann = eval(src, mod.__dict__)
            f = pw._default_from_annotation(K, {'f': ann}, 'f')
        except BaseException as e:
            out.append('EXC:%s' % type(e).__name__)
            continue
        noid = lambda t: t.split('#')[0]
        if f.default_factory is not dataclasses.MISSING:
            a, b = f.default_factory(), f.default_factory()
            t = noid(ses.tok(a))
            if a is b and t.startswith('O'):
                t = 'SHARED' + t
            out.append('factory=' + t)
        elif f.default is not dataclasses.MISSING:
            out.append('default=' + noid(ses.tok(f.default)))
        else:
            out.append('empty')
    return out


def handler(p):
    out = {'classes': [run_class(c, i) for i, c in enumerate(p.get('classes', []))]}
    if 'probe' in p:
        out['probe'] = run_probe(p['probe'])
    return out


if __name__ == '__main__':
    main(handler)
