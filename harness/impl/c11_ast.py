"""Canonical rendering of Python expression / statement ASTs in the format of
SkipModel.show_expr / show_stmt (coq/model/SkipModel.v).  Used by the C11 runner to
compare (a) ast.parse(repr(value)) with the model's repr_expr and (b) the source
of the generated cls_asdict with the model's gen_prog."""
import ast, re, math


class Unsupported(Exception):
    pass


def bin_(n):
    return bin(n)[2:] if n >= 0 else '-' + bin(-n)[2:]


def float_me(x):
    """finite x -> (m, e) with x == m * 2**e, m odd or (0, 0)."""
    if x == 0:
        return (0, 0)
    n, d = x.as_integer_ratio()
    e = -(d.bit_length() - 1)
    while n % 2 == 0:
        n //= 2
        e += 1
    return (n, e)


def fl(x):
    if math.isnan(x):
        return 'nan'
    if math.isinf(x):
        return 'inf' if x > 0 else '-inf'
    if x == 0 and math.copysign(1.0, x) < 0:
        return '-0'
    m, e = float_me(x)
    return bin_(m) + 'p' + bin_(e)


NAME_RX = re.compile(r'^(_skip_if_|_skip_|_default_)(\d+)$')


def cname(s):
    m = NAME_RX.match(s)
    return 'name:' + ((m.group(1) + bin_(int(m.group(2)))) if m else s)


CMP = {ast.Eq: '==', ast.NotEq: '!=', ast.Lt: '<', ast.LtE: '<=', ast.Gt: '>', ast.GtE: '>=',
       ast.Is: 'is', ast.IsNot: 'is not'}


def cexpr(n):
    if isinstance(n, ast.Constant):
        v = n.value
        if v is None:
            return 'None'
        if v is True:
            return 'True'
        if v is False:
            return 'False'
        if isinstance(v, int):
            return 'i' + bin_(v)
        if isinstance(v, float):
            return 'f' + fl(v)
        if isinstance(v, str):
            return 's' + v.encode('utf-8', 'surrogatepass').hex()
        raise Unsupported('constant %r' % (v,))
    if isinstance(n, ast.Name):
        return cname(n.id)
    if isinstance(n, ast.Attribute) and isinstance(n.value, ast.Name) and n.value.id == 'o':
        return 'o.' + n.attr
    if isinstance(n, ast.UnaryOp) and isinstance(n.op, ast.USub):
        return 'neg(%s)' % cexpr(n.operand)
    if isinstance(n, ast.UnaryOp) and isinstance(n.op, ast.Not):
        return 'not(%s)' % cexpr(n.operand)
    if isinstance(n, ast.Tuple):
        return 'tuple(%s)' % ''.join(cexpr(x) + ';' for x in n.elts)
    if isinstance(n, ast.List):
        return 'list(%s)' % ''.join(cexpr(x) + ';' for x in n.elts)
    if isinstance(n, ast.Dict):
        if any(k is None for k in n.keys):
            raise Unsupported('dict unpacking')
        return 'dict(%s)' % ''.join('%s:%s;' % (cexpr(k), cexpr(v)) for k, v in zip(n.keys, n.values))
    if isinstance(n, ast.Compare) and len(n.ops) == 1:
        a, b = cexpr(n.left), cexpr(n.comparators[0])
        if isinstance(n.ops[0], ast.In):
            return 'in(%s;%s)' % (a, b)
        if type(n.ops[0]) in CMP:
            return 'cmp(%s;%s;%s)' % (CMP[type(n.ops[0])], a, b)
    if isinstance(n, ast.BoolOp) and isinstance(n.op, ast.Or) and len(n.values) == 2:
        return 'or(%s;%s)' % (cexpr(n.values[0]), cexpr(n.values[1]))
    raise Unsupported(ast.dump(n)[:120])


def repr_canon(text):
    """canonical form of the expression `text`, 'BAD' if it is not an expression,
    'UNSUPPORTED:..' if it is an expression outside the model's grammar."""
    try:
        tree = ast.parse(text, mode='eval')
    except SyntaxError:
        return 'BAD'
    try:
        return cexpr(tree.body)
    except Unsupported as e:
        return 'UNSUPPORTED:%s' % e


def cstmt(s):
    if isinstance(s, ast.Assign):
        if len(s.targets) == 1 and isinstance(s.targets[0], ast.Name) and s.targets[0].id == 'result':
            return ''
        v = cexpr(s.value)
        out = ''
        for t in s.targets:
            if not isinstance(t, ast.Name):
                raise Unsupported('assignment target')
            out += 'set(%s;%s)' % (cname(t.id), v)
        return out
    if isinstance(s, ast.If):
        return 'if(%s;%s;%s)' % (cexpr(s.test), ''.join(cstmt(x) for x in s.body), ''.join(cstmt(x) for x in s.orelse))
    if isinstance(s, ast.Return):
        return ''
    if isinstance(s, ast.Expr) and isinstance(s.value, ast.Call):
        c = s.value
        if (isinstance(c.func, ast.Attribute) and c.func.attr == 'append' and isinstance(c.func.value, ast.Name)
                and c.func.value.id == 'result' and len(c.args) == 1 and isinstance(c.args[0], ast.Tuple)
                and len(c.args[0].elts) == 2):
            k, v = c.args[0].elts
            if (isinstance(k, ast.Constant) and isinstance(k.value, str) and isinstance(v, ast.Call)
                    and isinstance(v.func, ast.Name) and v.func.id == 'asdict' and v.args
                    and isinstance(v.args[0], ast.Attribute) and isinstance(v.args[0].value, ast.Name)
                    and v.args[0].value.id == 'o'):
                return 'append(%s;%s)' % (k.value.encode().hex(), v.args[0].attr)
    raise Unsupported(ast.dump(s)[:160])


def source_canon(src):
    """canonical form of the body of the generated `def cls_asdict(...)`."""
    try:
        tree = ast.parse(src)
    except SyntaxError:
        return 'BAD'
    fn = tree.body[0]
    if not isinstance(fn, ast.FunctionDef):
        return 'UNSUPPORTED:not a function'
    try:
        return ''.join(cstmt(s) for s in fn.body)
    except Unsupported as e:
        return 'UNSUPPORTED:%s' % e
