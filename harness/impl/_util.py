"""Shared helpers for implementation runners (executed under /venv/bin/python with
PYTHONPATH=/repo in a fresh interpreter).  Outcomes are canonical JSON."""
import sys, json, math, datetime, decimal, uuid, enum, pathlib, collections, dataclasses


def canon(v):
    """Canonical JSON-able rendering of a Python value with its concrete type."""
    if v is None:
        return None
    if isinstance(v, bool):
        return {'bool': v}
    if isinstance(v, enum.Enum):
        return {'enum': type(v).__name__, 'name': v.name}
    if isinstance(v, int):
        return {'int': str(v)}
    if isinstance(v, float):
        return {'float': v.hex() if math.isfinite(v) else repr(v)}
    if isinstance(v, str):
        return {'str': v}
    if isinstance(v, (bytes, bytearray)):
        return {type(v).__name__: v.hex()}
    if dataclasses.is_dataclass(v) and not isinstance(v, type):
        return {'inst': type(v).__name__,
                'fields': {f.name: canon(getattr(v, f.name, '<unset>')) for f in dataclasses.fields(v)}}
    if isinstance(v, tuple) and hasattr(v, '_fields'):
        return {'namedtuple': type(v).__name__, 'items': [canon(x) for x in v]}
    if isinstance(v, (list, tuple, collections.deque)):
        return {type(v).__name__: [canon(x) for x in v]}
    if isinstance(v, (set, frozenset)):
        return {type(v).__name__: sorted((canon(x) for x in v), key=lambda x: json.dumps(x, sort_keys=True))}
    if isinstance(v, dict):
        return {type(v).__name__: [[canon(k), canon(x)] for k, x in v.items()]}
    if isinstance(v, (datetime.datetime, datetime.date, datetime.time)):
        return {type(v).__name__: v.isoformat()}
    if isinstance(v, datetime.timedelta):
        return {'timedelta': [v.days, v.seconds, v.microseconds]}
    if isinstance(v, (uuid.UUID, decimal.Decimal, pathlib.PurePath)):
        return {type(v).__name__: str(v)}
    return {'opaque': type(v).__name__, 'repr': repr(v)[:200]}


def outcome(fn, *a, **k):
    """{'ok': canon(value)} or {'err': class name, lib: bool, fields...}."""
    try:
        return {'ok': canon(fn(*a, **k))}
    except BaseException as e:  # noqa
        return err_info(e)


def err_info(e):
    from dataclass_wizard.errors import JSONWizardError
    d = {'err': type(e).__name__, 'lib': isinstance(e, JSONWizardError), 'msg': None}
    try:
        d['msg'] = str(e)[:300]
        d['renders'] = True
    except BaseException as e2:  # noqa
        d['renders'] = False
        d['render_err'] = type(e2).__name__
    for a in ('class_name', 'field_name', 'missing_fields', 'unknown_keys'):
        try:
            x = getattr(e, a, None)
        except BaseException:
            x = '<raises>'
        if x is not None:
            d[a] = sorted(x) if isinstance(x, (set, frozenset)) else (x if isinstance(x, (str, list)) else repr(x))
    return d


def _unjoin(x):
    """JSON transport would JOIN a high surrogate directly followed by a low surrogate into one astral
    character, so a string the library mis-decoded into two lone surrogates (e.g. a "\\ud83d\\udd11"
    JSON escape read as a Python literal) would look correct on the harness side.  Such adjacent pairs
    never occur in a correct Python str: make them visible.  Unpaired surrogates (surrogateescape
    bytes) are transported unchanged."""
    if isinstance(x, str):
        if any(0xD800 <= ord(a) <= 0xDBFF and 0xDC00 <= ord(b) <= 0xDFFF for a, b in zip(x, x[1:])):
            return ''.join('<surrogate %04x>' % ord(c) if 0xD800 <= ord(c) <= 0xDFFF else c for c in x)
        return x
    if isinstance(x, list):
        return [_unjoin(v) for v in x]
    if isinstance(x, dict):
        return {_unjoin(k): _unjoin(v) for k, v in x.items()}
    return x


def main(handler):
    payload = json.load(sys.stdin)
    res = handler(payload)
    json.dump(_unjoin(res), sys.stdout)
