"""C03, declaration axis: class SOURCE TEXT for every documented way of declaring a class and of
configuring its dump (wizard base, class keywords, inner Meta, base class with inner Meta,
DumpMeta/LoadMeta(...).bind_to after the definition).

A declaration is a JSON object
  {'base': None|'JSONWizard'|'JSONSerializable'|'JSONPyWizard', 'key_case': None|str,
   'inner': None|BIND, 'parent': None|{'inner': None|BIND}, 'post': [BIND...],
   'spell': 'upper'|'lower'|'title'|'enum', 'meta_name': '_'|'Meta'|..., 'meta_base': name}
  BIND = {'xf': None|'CAMEL'|.., 'dt': None|'ISO_FORMAT'|'TIMESTAMP', 'tag_key': None|str,
          'extra': {other Meta attributes}, 'via': 'DumpMeta'|'LoadMeta', 'kw': 'key_transform'|'key_transform_with_dump'}

Two users: `program(decl)` is a stand-alone program (run with `python -c`, one fresh interpreter per
declaration, classes at module level) that prints what the library does with a fixed probe class;
`build_root(spec, decl, reg)` builds the root class of a generated class model from such a text."""
import json

IMPORTS = ('from dataclasses import dataclass, field\n'
           'from dataclass_wizard import JSONWizard, JSONSerializable, JSONPyWizard, DumpMeta, LoadMeta, asdict\n'
           'from dataclass_wizard.enums import LetterCase, DateTimeTo\n')


def spell_xf(x, spell):
    if spell == 'enum': return 'LetterCase.%s' % x
    if spell == 'lower': return repr(x.lower())
    if spell == 'title': return repr(x.title())
    return repr(x)


def spell_dt(x, spell):
    if spell == 'enum': return 'DateTimeTo.%s' % x
    if spell == 'lower': return repr(x.lower().replace('_', ' '))       # as_enum: upper(), ' ' -> '_'
    if spell == 'title': return repr(x.title())
    return repr(x)


def settings(m, spell, dump_kw=None):
    """[(attribute name, python expression)] of one Meta, in a fixed order"""
    out = []
    if m.get('xf') is not None:
        out.append((dump_kw or 'key_transform_with_dump', spell_xf(m['xf'], spell)))
    if m.get('dt') is not None:
        out.append(('marshal_date_time_as', spell_dt(m['dt'], spell)))
    if m.get('tag_key') is not None:
        out.append(('tag_key', repr(m['tag_key'])))
    for k, v in sorted((m.get('extra') or {}).items()):
        out.append((k, repr(v)))
    return out


def inner_meta_lines(m, decl, indent='    '):
    name = decl.get('meta_name') or '_'
    base = decl.get('meta_base') or (decl.get('base') or 'JSONWizard')
    lines = ['%sclass %s(%s.Meta):' % (indent, name, base)]
    body = settings(m, decl.get('spell'))
    if not body:
        lines.append('%s    pass' % indent)
    for k, v in body:
        lines.append('%s    %s = %s' % (indent, k, v))
    return lines


def bind_stmt(m, target, spell):
    via = m.get('via') or 'DumpMeta'
    kw = m.get('kw') if via == 'DumpMeta' else None
    args = ', '.join('%s=%s' % kv for kv in settings(m, spell, dump_kw=kw))
    return '%s(%s).bind_to(%s)' % (via, args, target)


def class_source(decl, name, field_lines, parent_name=None, parent_field_lines=None):
    """source of [parent class,] class and the bind_to statements after it"""
    lines = []
    base = decl.get('base')
    par = decl.get('parent')
    if par is not None:
        lines += ['@dataclass', 'class %s%s:' % (parent_name, '(%s)' % base if base else '')]
        if par.get('inner') is not None:
            lines += inner_meta_lines(par['inner'], decl)
        lines += (parent_field_lines or []) or (['    pass'] if par.get('inner') is None else [])
    hdr = []
    if par is not None:
        hdr.append(parent_name)
    elif base:
        hdr.append(base)
    if decl.get('key_case'):
        hdr.append('key_case=%r' % decl['key_case'])
    lines += ['@dataclass', 'class %s%s:' % (name, '(%s)' % ', '.join(hdr) if hdr else '')]
    if decl.get('inner') is not None:
        lines += inner_meta_lines(decl['inner'], decl)
    lines += field_lines or (['    pass'] if decl.get('inner') is None else [])
    for m in decl.get('post') or []:
        lines.append(bind_stmt(m, name, decl.get('spell')))
    return '\n'.join(lines) + '\n'


# ---- stream A: one stand-alone program per declaration ---------------------------------------------
PROBE_FIELDS = ['    probe_one: int = 1', "    probeTwo: str = 'x'", '    when_at: date = date(2020, 1, 2)',
                '    stamp_utc: datetime = datetime(2020, 1, 2, 3, 4, 5, tzinfo=timezone.utc)']
PARENT_FIELDS = ['    base_word: int = 7']

OBSERVE = r'''
import json, sys
from dataclass_wizard.dumpers import get_dumper
from dataclass_wizard.class_helper import get_meta
from dataclass_wizard.bases import AbstractMeta
out = {}
try:
    x = Probe()
    d = asdict(x)
    out['items'] = [[k, v] for k, v in d.items()]
    out['is_dict'] = type(d) is dict
    out['json'] = json.loads(json.dumps(d))
    if hasattr(x, 'to_dict'):
        out['to_dict'] = [[k, v] for k, v in x.to_dict().items()]
        out['to_json'] = json.loads(x.to_json())
        out['list_to_json'] = json.loads(type(x).list_to_json([x, x]))
    out['unchanged'] = x == Probe()
    f = get_dumper(Probe).transform_dataclass_field
    out['probe'] = [f('probe_one'), f('probeTwo')]
    m = get_meta(Probe)
    out['tag_key_attr'] = getattr(m, 'tag_key', None)
    if m is AbstractMeta:
        out['meta'] = None
    else:
        def norm(v):
            return v.name if hasattr(v, 'name') else (str(v).upper().replace(' ', '_') if isinstance(v, str) else v)
        own = m.__dict__
        out['meta'] = [norm(own['key_transform_with_dump']) if 'key_transform_with_dump' in own else None,
                       norm(own['marshal_date_time_as']) if 'marshal_date_time_as' in own else None,
                       own['tag_key'] if 'tag_key' in own else None]
    out['oracle'] = {'date_iso': x.when_at.isoformat(), 'date_ts': round(datetime(2020, 1, 2).timestamp()),
                     'dt_iso': x.stamp_utc.isoformat(), 'dt_ts': round(x.stamp_utc.timestamp())}
except BaseException as e:
    out['err'] = type(e).__name__
    out['msg'] = str(e)[:300]
sys.stdout.write(json.dumps(out))
'''


def program(decl):
    src = IMPORTS + 'from datetime import date, datetime, timezone\n'
    src += class_source(decl, 'Probe', PROBE_FIELDS, 'ProbeBase', PARENT_FIELDS)
    return src + OBSERVE


def run_programs(decls, jobs=8, timeout=120):
    """each declaration in its OWN fresh interpreter (same environment as this runner)"""
    import subprocess, sys, os, concurrent.futures as cf

    def one(decl):
        src = program(decl)
        try:
            p = subprocess.run([sys.executable, '-c', src], capture_output=True, text=True, timeout=timeout, env=dict(os.environ))
        except subprocess.TimeoutExpired:
            return {'err': 'Timeout', 'src': src}
        if p.returncode != 0 or not p.stdout.strip():
            return {'err': 'ProgramFailed', 'msg': (p.stderr or '')[-600:], 'src': src}
        try:
            r = json.loads(p.stdout)
        except ValueError:
            return {'err': 'BadOutput', 'msg': p.stdout[-300:], 'src': src}
        r['src'] = src
        return r
    with cf.ThreadPoolExecutor(max_workers=jobs) as ex:
        return list(ex.map(one, decls))


# ---- stream B: root class of a generated class model --------------------------------------------------
def build_root(spec, decl, reg):
    """Counterpart of core_rt.build_type0's 'data' case for a ROOT class declared through `decl`:
    same registration in `reg` (class, spec, Gallina let), the class statement comes from class_source."""
    import dataclasses, copy, collections
    import core_rt as rt
    import dataclass_wizard
    from dataclass_wizard.models import json_field
    from dataclass_wizard.enums import LetterCase, DateTimeTo
    key = ('data', spec['id'])
    ns = {'dataclass': dataclasses.dataclass, 'field': dataclasses.field, 'json_field': json_field, 'copy': copy,
          'LetterCase': LetterCase, 'DateTimeTo': DateTimeTo}
    for b in ('JSONWizard', 'JSONSerializable', 'JSONPyWizard', 'DumpMeta', 'LoadMeta'):
        ns[b] = getattr(dataclass_wizard, b) if hasattr(dataclass_wizard, b) else getattr(dataclass_wizard.serial_json, b)
    flines = []
    for i, fd in enumerate(spec['fields']):
        ns['T%d' % i] = rt.build_type(fd['ty'], reg)
        args = []
        if fd.get('default') is not None:
            ns['D%d' % i] = rt.build_value(fd['default'], reg)
            if isinstance(ns['D%d' % i], (list, dict, set, bytearray, collections.deque)) or dataclasses.is_dataclass(ns['D%d' % i]):
                args.append('default_factory=lambda: copy.deepcopy(D%d)' % i)
            else:
                args.append('default=D%d' % i)
        if fd.get('alias') is not None:
            flines.append('    %s: T%d = json_field(%r, all=True%s)' % (fd['name'], i, fd['alias'], ''.join(', ' + a for a in args)))
        elif args:
            flines.append('    %s: T%d = field(%s)' % (fd['name'], i, ', '.join(args)))
        else:
            flines.append('    %s: T%d' % (fd['name'], i))
    k = decl.get('parent_fields', 0) if decl.get('parent') is not None else 0
    src = class_source(decl, spec['name'], flines[k:], spec['name'] + 'Base', flines[:k])
    exec(src, ns)
    cls = ns[spec['name']]
    reg.by_id[key] = cls
    reg.info[cls] = {'kind': 'data', 'id': spec['id'], 'spec': spec}
    reg.built[id(spec)] = cls
    reg.let('c%d' % spec['id'], 'mkC %d %s %s %s' % (
        spec['id'], rt.cstr(spec['name']),
        rt.clist(['mkF %s %s' % (rt.cstr(fd['name']), rt.copt(rt.cstr(fd['alias']) if fd.get('alias') is not None else None))
                  for fd in spec['fields']]),
        rt.copt(rt.cstr(rt.eff_tag(spec)) if rt.eff_tag(spec) is not None else None)))
    return cls, src
