"""Implementation runner for C14: the v1 model runner of c02.py (same payload: class models with
a list of documents to load; outcomes carry exception MRO, class_name, field_name, obj and whether
str(e) raised)."""
import sys, os
sys.path.insert(0, os.path.dirname(os.path.abspath(__file__)))
from _util import main
from c02 import handler

if __name__ == '__main__':
    main(handler)
