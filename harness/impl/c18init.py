"""Implementation runner for the C18 extension stream (generated __init__ order, secrets directories on
the file system, default / default_factory).  One interpreter = one history.

Payload: {'os0': {..}, 'files': {fid: [[k, v], ..]},
          'classes': [{'name', 'prefix': str|None, 'env_file': [fid..]|None, 'meta_dirs': [dirspec..]|None,
                       'fields': [{'name', 'type': 'str'|'List[int]', 'kind': 'none'|'value'|'factory', ['default': v]}]}],
          'ops': [{'op': 'set', 'k', 'v'} | {'op': 'del', 'k'} |
                  {'op': 'inst', 'cls': i, 'kwargs': {..}, 'reload': bool, ['dirs': [dirspec..], 'dirs_form': ..],
                   ['env_file': False|[fid..]], ['prefix': str|None]}]}
dirspec: {'kind': 'absent'} | {'kind': 'file'} | {'kind': 'dir', 'entries': [[name, 'file', content] | [name, 'sub']]}
Every default_factory of the process is one counting function: its k-th call (k from 0) returns [1000 + k],
so the value of an attribute reveals which call produced it.  Identities of attribute objects are
reported as indices into a list of objects kept alive for the whole history."""
import sys, os, shutil, tempfile, pathlib
sys.path.insert(0, os.path.dirname(os.path.abspath(__file__)))
from _util import *
from c18 import dotenv_line, missing_names


def make_dirs(root, tag, specs):
    paths = []
    for j, d in enumerate(specs):
        p = os.path.join(root, '%s_%d' % (tag, j))
        if d['kind'] == 'absent':
            pass
        elif d['kind'] == 'file':
            with open(p, 'w') as f:
                f.write('not a directory')
        else:
            os.mkdir(p)
            for e in d['entries']:
                q = os.path.join(p, e[0])
                if e[1] == 'file':
                    with open(q, 'w', newline='') as f:
                        f.write(e[2])
                else:
                    os.mkdir(q)
                    with open(os.path.join(q, e[0]), 'w') as f:
                        f.write('inner')
        paths.append(p)
    return paths


def shape(paths, form):
    if form == 'tuple':
        return tuple(paths)
    if form == 'str' and len(paths) == 1:
        return paths[0]
    if form == 'path' and len(paths) == 1:
        return pathlib.Path(paths[0])
    if form == 'paths':
        return [pathlib.Path(p) for p in paths]
    return list(paths)


def handler(p):
    from dataclass_wizard import EnvWizard
    from dataclass_wizard.environ.lookups import Env
    from dataclass_wizard.errors import MissingVars
    import dataclasses, typing

    root = tempfile.mkdtemp(prefix='c18i_', dir=os.getcwd())
    out = []
    calls = [0]
    alive = []

    def fac():
        n = calls[0]
        calls[0] += 1
        return [1000 + n]

    def ident(o):
        for i, x in enumerate(alive):
            if x is o:
                return i
        alive.append(o)
        return len(alive) - 1

    try:
        fpath = {}
        for fid, content in p.get('files', {}).items():
            q = os.path.join(root, 'f_%s.env' % fid)
            with open(q, 'w') as f:
                for k, v in content:
                    f.write(dotenv_line(k, v))
            fpath[fid] = q
        os.environ.clear()
        os.environ.update(p['os0'])
        classes, defaults, meta_paths = [], [], []
        for ci, c in enumerate(p['classes']):
            before = dict(os.environ)
            ns = {'EnvWizard': EnvWizard, 'field': dataclasses.field, 'List': typing.List, '_fac': fac,
                  '__name__': 'c18i_case'}
            meta, body, dflt = [], [], {}
            if c.get('prefix') is not None:
                meta.append('env_prefix = %r' % c['prefix'])
            if c.get('env_file'):
                meta.append('env_file = %r' % (tuple(fpath[str(i)] for i in c['env_file']),))
            mp = None
            if c.get('meta_dirs') is not None:
                mp = make_dirs(root, 'm%d' % ci, c['meta_dirs'])
                meta.append('secrets_dir = %r' % (tuple(mp),))
            if meta:
                body.append('    class _(EnvWizard.Meta):\n' + ''.join('        %s\n' % m for m in meta))
            for i, f in enumerate(c['fields']):
                if f['kind'] == 'value':
                    ns['_d%d' % i] = dflt[f['name']] = f['default']
                    body.append('    %s: %s = _d%d\n' % (f['name'], f['type'], i))
                elif f['kind'] == 'factory':
                    body.append('    %s: %s = field(default_factory=_fac)\n' % (f['name'], f['type']))
                else:
                    body.append('    %s: %s\n' % (f['name'], f['type']))
            try:
                exec('class %s(EnvWizard):\n%s' % (c['name'], ''.join(body)), ns)
                classes.append(ns[c['name']])
                r = {'op': 'class', 'ok': True}
            except BaseException as e:
                classes.append(None)
                r = {'op': 'class', 'ok': False}; r.update(err_info(e))
            r['environ_same'] = dict(os.environ) == before
            r['calls'] = calls[0]
            out.append(r)
            defaults.append(dflt)
            meta_paths.append(mp)
        for oi, o in enumerate(p['ops']):
            if o['op'] == 'set':
                os.environ[o['k']] = o['v']
                out.append({'op': 'set'})
                continue
            if o['op'] == 'del':
                os.environ.pop(o['k'], None)
                out.append({'op': 'del'})
                continue
            cls = classes[o['cls']]
            cdef = p['classes'][o['cls']]
            kw = dict(o.get('kwargs', {}))
            if o.get('reload'):
                kw['_reload'] = True
            if 'env_file' in o:
                ef = o['env_file']
                kw['_env_file'] = False if ef is False else [fpath[str(i)] for i in ef]
            if 'prefix' in o:
                kw['_env_prefix'] = o['prefix']
            r = {'op': 'inst'}
            eff_paths = meta_paths[o['cls']]
            if 'dirs' in o:
                if o['dirs'] is None:
                    kw['_secrets_dir'] = None
                    eff_paths = None
                else:
                    eff_paths = make_dirs(root, 'o%d' % oi, o['dirs'])
                    kw['_secrets_dir'] = shape(eff_paths, o.get('dirs_form'))
            before = dict(os.environ)
            # Env.secret_values on its own (a pure function of the file system)
            if eff_paths:
                try:
                    r['sv'] = {'ok': sorted(Env.secret_values(eff_paths).items())}
                except ValueError:
                    r['sv'] = {'err': 'ValueError'}
                except BaseException as e:
                    r['sv'] = err_info(e)
            kw_objs = {k: v for k, v in kw.items() if not k.startswith('_')}
            try:
                inst = cls(**kw)
                vals, ids, shared = {}, {}, {}
                for f in cdef['fields']:
                    v = getattr(inst, f['name'])
                    vals[f['name']] = v
                    ids[f['name']] = ident(v)
                    if f['kind'] == 'value':
                        shared[f['name']] = v is defaults[o['cls']][f['name']]
                r['ok'] = vals; r['ids'] = ids; r['shared'] = shared
            except MissingVars as e:
                r.update({'err': 'MissingVars', 'missing': missing_names(e), 'lib': True})
            except BaseException as e:
                r.update(err_info(e))
            after = dict(os.environ)
            r['environ_same'] = after == before
            r['os'] = after
            r['calls'] = calls[0]
            out.append(r)
    finally:
        shutil.rmtree(root, ignore_errors=True)
    return {'results': out, 'leftover': os.path.exists(root)}


if __name__ == '__main__':
    main(handler)
