"""Oracle tables for C04: answers of the standard-library / third-party functions the
library merely calls (str, fromisoformat, fromtimestamp, pytimeparse.parse,
timedelta, Decimal, b64decode, json.loads), computed by the real functions in a fresh
interpreter under the same TZ as the implementation run.  Does not import the library.

payload: {'strings': [str], 'numbers': [int|float], 'strables': [json value]}
result:  per oracle a list aligned with the input list; entries ['ok', x] or ['err', kind]."""
import sys, os, json, math, datetime, decimal, base64
sys.path.insert(0, os.path.dirname(os.path.abspath(__file__)))
from _util import main


def kind(e):
    if isinstance(e, OverflowError):
        return 'EO'
    if isinstance(e, TypeError):
        return 'ET'
    if isinstance(e, ValueError):
        return 'EV'
    return 'EX'


def call(f, *a):
    try:
        return ['ok', f(*a)]
    except Exception as e:
        return ['err', kind(e)]


def fl(f):
    """float -> ['nan'] | ['inf', neg] | ['dy', m, e] with m odd or 0 (ints as strings)."""
    if f != f:
        return ['nan']
    if math.isinf(f):
        return ['inf', f < 0]
    n, d = f.as_integer_ratio()
    e = -(d.bit_length() - 1)
    if n == 0:
        return ['dy', '0', '0']
    while n % 2 == 0:
        n //= 2
        e += 1
    return ['dy', str(n), str(e)]


def numenc(x):
    if x is None:
        return None
    if isinstance(x, bool):
        raise TypeError('bool from oracle')
    if isinstance(x, int):
        return ['int', str(x)]
    return ['float', fl(float(x))]


def td(x):
    t = datetime.timedelta(seconds=x)
    return '%d,%d,%d' % (t.days, t.seconds, t.microseconds)


def jenc(v):
    """JSON value -> tagged tree the harness turns into a Coq jv."""
    if v is None:
        return ['none']
    if isinstance(v, bool):
        return ['bool', v]
    if isinstance(v, int):
        return ['int', str(v)]
    if isinstance(v, float):
        return ['float', fl(v)]
    if isinstance(v, str):
        return ['str', v]
    if isinstance(v, list):
        return ['list', [jenc(x) for x in v]]
    if isinstance(v, dict):
        return ['dict', [[k, jenc(x)] for k, x in v.items()]]
    raise TypeError(type(v))


def handler(p):
    import pytimeparse
    utc = datetime.timezone.utc
    S, N, X = p.get('strings', []), p.get('numbers', []), p.get('strables', [])
    out = {'tz': os.environ.get('TZ'), 'py': list(sys.version_info[:3])}
    out['dt_iso'] = [call(lambda s: datetime.datetime.fromisoformat(s).isoformat(), s) for s in S]
    out['date_iso'] = [call(lambda s: datetime.date.fromisoformat(s).isoformat(), s) for s in S]
    out['time_iso'] = [call(lambda s: datetime.time.fromisoformat(s).isoformat(), s) for s in S]
    out['timeparse'] = [call(lambda s: numenc(pytimeparse.parse(s)), s) for s in S]
    out['decimal'] = [call(lambda s: str(decimal.Decimal(s)), s) for s in S]
    out['b64'] = [call(lambda s: base64.b64decode(s).hex(), s) for s in S]
    out['json'] = [call(lambda s: jenc(json.loads(s)), s) if s.lstrip()[:1] in ('[', '{') else None for s in S]
    out['dt_ts_utc'] = [call(lambda x: datetime.datetime.fromtimestamp(x, tz=utc).isoformat(), x) for x in N]
    out['dt_ts_local'] = [call(lambda x: datetime.datetime.fromtimestamp(x, None).isoformat(), x) for x in N]
    out['date_ts'] = [call(lambda x: datetime.date.fromtimestamp(x).isoformat(), x) for x in N]
    out['timedelta'] = [call(td, x) for x in N]
    out['str'] = [call(str, x) for x in X]
    return out


if __name__ == '__main__':
    main(handler)
