"""C12 — one multi-root HISTORY, one interpreter.

Reads a scenario (JSON on stdin): nested classes UA/UB (members of a Union), N (optionally with a
`u: Union[UA, UB, None]` field), M (intermediate, `inner: N`), roots R1..Rk (field `n` of some shape over N / M,
optionally a field `v: Union[UA, UB, None]` of their own), each class with the Meta the USER declares (or none) and a
binding style; then a list of operations executed IN THIS ORDER in the same interpreter:

    define <root> | bind <class> (a later LoadMeta/DumpMeta(...).bind_to: the `&=` in-place merge) |
    dump <root> | load <root> with documents

After every operation the global `_META` table is snapshotted: for every class of the scenario the settings present in
the OWN __dict__ of its registered Meta (None = no entry, get_meta -> AbstractMeta).  Started once per scenario by
harness/impl/c12.py.  The same script runs the 'alone' variant of a scenario (one root, one operation, pristine
interpreter): it is just a scenario with a single root and a single use."""
import sys, os, json, enum
sys.path.insert(0, os.path.dirname(os.path.abspath(__file__)))
from _util import canon, err_info

COND = {'EQ', 'NE', 'LT', 'LE', 'GT', 'GE', 'IS', 'IS_NOT', 'IS_TRUTHY', 'IS_FALSY'}
DUMP_SIDE = ('key_transform_with_dump', 'marshal_date_time_as', 'skip_defaults', 'skip_if', 'skip_defaults_if')

PRE = '''from dataclasses import dataclass, field
from datetime import datetime, timezone
from typing import Union, Optional, List, Dict, Tuple, Any
from dataclass_wizard import JSONWizard, LoadMeta, DumpMeta, fromdict, asdict
from dataclass_wizard.models import EQ, NE, LT, LE, GT, GE, IS, IS_NOT, IS_TRUTHY, IS_FALSY
WHEN = datetime(2021, 5, 6, 7, 8, 9, tzinfo=timezone.utc)
WHEN0 = datetime(2000, 1, 1, tzinfo=timezone.utc)
'''


def val_src(v):
    if isinstance(v, dict) and 'cond' in v:
        assert v['cond'] in COND
        return '%s(%s)' % (v['cond'], '' if v['cond'] in ('IS_TRUTHY', 'IS_FALSY') else repr(v['val']))
    return repr(v)


def kwargs_src(meta):
    return ', '.join('%s=%s' % (k, val_src(v)) for k, v in meta.items())


def bind_src(name, meta, style):
    """style: 'load' (LoadMeta carries everything), 'dump' (DumpMeta carries everything), 'split' (LoadMeta with the
    load-side and common settings, then DumpMeta with the dump-side ones: the second binding is `_META[cls] &= ...`)."""
    if style == 'load':
        return 'LoadMeta(%s).bind_to(%s)\n' % (kwargs_src(meta), name)
    if style == 'dump':
        return 'DumpMeta(%s).bind_to(%s)\n' % (kwargs_src(meta), name)
    a = {k: v for k, v in meta.items() if k not in DUMP_SIDE}
    b = {k: v for k, v in meta.items() if k in DUMP_SIDE}
    src = 'LoadMeta(%s).bind_to(%s)\n' % (kwargs_src(a), name)
    if b:
        src += 'DumpMeta(%s).bind_to(%s)\n' % (kwargs_src(b), name)
    return src


def class_src(name, fields, meta, style):
    base = '(JSONWizard)' if style == 'inner' else ''
    out = ['@dataclass', 'class %s%s:' % (name, base)]
    if style == 'inner' and meta is not None:
        out.append('    class _(JSONWizard.Meta):')
        out.extend(['        %s = %s' % (k, val_src(v)) for k, v in meta.items()] or ['        pass'])
    for f, t, d in fields:
        out.append('    %s: %s%s' % (f, t, '' if d is None else ' = ' + d))
    src = '\n'.join(out) + '\n'
    if style != 'inner' and meta is not None:
        src += bind_src(name, meta, style)
    return src


LEAF = [('my_val', 'int', '0'), ('dflt', 'int', '5')]
NF = [('my_val', 'int', '0'), ('when', 'datetime', 'WHEN0'), ('dflt', 'int', '5')]


def type_src(shape):
    if not shape:
        return 'N'
    h, rest = shape[0], shape[1:]
    if h == 'mid':
        return 'M'
    return {'opt': 'Optional[%s]', 'list': 'List[%s]', 'dict': 'Dict[str, %s]', 'tuple': 'Tuple[%s, int]'}[h] % type_src(rest)


def nested_source(sc):
    c = sc['classes']
    src = PRE
    for nm in ('UA', 'UB'):
        src += class_src(nm, LEAF, c[nm]['meta'], c[nm]['style'])
    nf = list(NF)
    if c['N'].get('union'):
        nf.append(('u', 'Union[UA, UB, None]', 'None'))
    src += class_src('N', nf, c['N']['meta'], c['N']['style'])
    src += class_src('M', [('inner', 'N', None), ('my_val', 'int', '0')], c['M']['meta'], c['M']['style'])
    return src


def root_source(r):
    f = []
    if r.get('shape') is not None:
        f.append(('n', type_src(r['shape']), None))
    f.append(('my_val', 'int', '0'))
    if r.get('v'):
        f.append(('v', 'Union[UA, UB, None]', 'None'))
    return class_src(r['name'], f, r['meta'], r['style'])


def wrap(shape, leaf, mk_mid):
    if not shape:
        return leaf
    h, rest = shape[0], shape[1:]
    if h == 'mid':
        return mk_mid(leaf)
    inner = wrap(rest, leaf, mk_mid)
    return {'opt': lambda x: x, 'list': lambda x: [x], 'dict': lambda x: {'k': x}, 'tuple': lambda x: (x, 1)}[h](inner)


def setting_canon(v):
    if isinstance(v, enum.Enum):
        return v.name
    if v is None or isinstance(v, (bool, str, int)):
        return v
    if isinstance(v, dict):
        return {str(k): setting_canon(x) for k, x in v.items()}
    if type(v).__name__ == 'Condition':
        op = {'==': 'EQ', '!=': 'NE', '<': 'LT', '<=': 'LE', '>': 'GT', '>=': 'GE', 'is': 'IS', 'is not': 'IS_NOT',
              '+': 'IS_TRUTHY', '!': 'IS_FALSY'}.get(getattr(v, 'op', None), '?')
        return {'cond': op, 'val': setting_canon(getattr(v, 'val', None))}
    return {'opaque': type(v).__name__}


def snapshot(ns, names):
    from dataclass_wizard.class_helper import _META
    from dataclass_wizard.bases import AbstractMeta
    out = {}
    for nm in names:
        cls = ns.get(nm)
        if cls is None:
            continue
        m = _META.get(cls)
        if m is None:
            out[nm] = None
        else:
            d = vars(m)
            out[nm] = {k: setting_canon(d[k]) for k in sorted(AbstractMeta.all_fields) if k in d}
    return out


def main():
    sc = json.load(sys.stdin)
    out = {'setup': None, 'steps': []}
    src = nested_source(sc)
    out['source'] = src
    ns = {'__name__': 'c12_case'}
    try:
        exec(compile(src, '<c12m>', 'exec'), ns)
    except BaseException as e:  # noqa
        out['setup'] = err_info(e)
        json.dump(out, sys.stdout)
        return
    from dataclass_wizard import fromdict, asdict
    roots = {r['name']: r for r in sc['roots']}
    names = ['UA', 'UB', 'N', 'M'] + [r['name'] for r in sc['roots']]
    out['meta0'] = snapshot(ns, names)
    from dataclass_wizard.bases import AbstractMeta
    out['all_fields'] = list(AbstractMeta.__annotations__)
    for op in sc['ops']:
        step = {'op': op['op']}
        try:
            if op['op'] == 'define':
                s = root_source(roots[op['root']])
                out['source'] += s
                exec(compile(s, '<c12m>', 'exec'), ns)
            elif op['op'] == 'bind':
                s = bind_src(op['cls'], op['meta'], op['style'])
                out['source'] += s
                exec(compile(s, '<c12m>', 'exec'), ns)
            elif op['op'] == 'dump':
                r = roots[op['root']]
                R = ns[r['name']]
                nkw = dict(my_val=7, when=ns['WHEN'], dflt=5)
                if sc['classes']['N'].get('union'):
                    nkw['u'] = ns['UB'](my_val=7, dflt=5)
                kw = dict(my_val=7)
                if r.get('shape') is not None:
                    kw['n'] = wrap(r['shape'], ns['N'](**nkw), lambda leaf: ns['M'](inner=leaf, my_val=7))
                if r.get('v'):
                    kw['v'] = ns['UA'](my_val=7, dflt=5)
                step['result'] = {'ok': canon(asdict(R(**kw)))}
            elif op['op'] == 'load':
                R = ns[op['root']]
                res = []
                for doc in op['docs']:
                    try:
                        res.append({'ok': canon(fromdict(R, json.loads(json.dumps(doc))))})
                    except BaseException as e:  # noqa
                        res.append(err_info(e))
                step['results'] = res
        except BaseException as e:  # noqa
            step['error'] = err_info(e)
        step['meta'] = snapshot(ns, names)
        out['steps'].append(step)
    json.dump(out, sys.stdout)


if __name__ == '__main__':
    main()
